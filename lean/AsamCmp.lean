import AsamCmp.Bytes
import AsamCmp.Packet
import AsamCmp.Decoder
import AsamCmp.Encoder
