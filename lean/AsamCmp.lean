import AsamCmp.Bytes
import AsamCmp.Packet
import AsamCmp.Decoder
import AsamCmp.Encoder
import AsamCmp.EncHist
import AsamCmp.Tile
import AsamCmp.Builders
import AsamCmp.Tecmp
