/-
  TECMP path: `TECMP::Decoder::Decode` and `TECMP::Converter`, post-repair behaviour.
  Stateless: a function from the buffer to the list of ASAM CMP packets.
-/
import AsamCmp.Builders
import AsamCmp.Decoder
namespace AsamCmp

def chr (c : Char) : UInt8 := UInt8.ofNat c.toNat

/-- packet skeleton from the TECMP header: device id (8 bit), timestamp, interface id -/
def tecmpPacket (b : Bytes) (ifId : Nat) (pl : Payload) : Packet :=
  { payload := some pl, version := 1, deviceId := byteAt b 1, ts := beAt b 16 8, ifId := ifId }

/-- CRC behind the data of a TECMP CAN payload: three bytes, little-endian, or 0 when absent -/
def tecmpCanCrc (p : Bytes) (dlc : Nat) : Nat :=
  if p.length < 5 + dlc + 3 then 0
  else byteAt p (5 + dlc) + 256 * byteAt p (5 + dlc + 1) + 65536 * byteAt p (5 + dlc + 2)

def tecmpCan (b p : Bytes) : List Packet :=
  if p.length < 5 then []
  else
    let dlc := byteAt p 4
    if p.length - 5 < dlc then []
    else
      let data := slice p 5 dlc
      let crc := tecmpCanCrc p dlc
      if dlc > 8 then
        -- CAN-FD: id word = arbitration id (unmasked), crc word = the 24 crc bits (unmasked)
        let o := writeAt canDefault 4 (beEnc 4 (beAt p 0 4))
        let o := canSetData o data
        let o := writeAt o 8 (beEnc 4 crc)
        [tecmpPacket b (beAt b 12 4) ⟨tyCanFd, o⟩]
      else
        let o := writeAt canDefault 4 (beEnc 4 (beAt p 0 4))
        let o := canSetData o data
        let o := writeAt o 8 (beEnc 4 (crc % 65536))
        [tecmpPacket b (beAt b 12 4) ⟨tyCan, o⟩]

def tecmpLin (b p : Bytes) : List Packet :=
  if p.length < 2 then []
  else
    let n := byteAt p 1
    if p.length - 2 < n then []
    else
      let cks := if p.length ≤ 2 + n then 0 else byteAt p (2 + n)
      let o := writeAt linDefault 4 [UInt8.ofNat (byteAt p 0 &&& 0x3F)]
      let o := writeAt o 6 [UInt8.ofNat cks]
      let o := linSetData o (slice p 2 n)
      [tecmpPacket b (beAt b 12 4) ⟨tyLin, o⟩]

/-- capture-module status: the serial number and version fields (bytes 8..17) must be there, and so must the vendor data
    whose length the generic part declares (u16 @4; it starts behind the 12 generic bytes) -/
def tecmpCm (b p : Bytes) : List Packet :=
  if p.length < 18 then []
  else if p.length - 12 < beAt p 4 2 then []
  else
    let serial := decimal (beAt p 8 4)
    let hw := [chr 'v'] ++ decimal (byteAt p 16) ++ [chr '.'] ++ decimal (byteAt p 17)
    let sw := [chr 'v'] ++ decimal (byteAt p 13) ++ [chr '.'] ++ decimal (byteAt p 14) ++ [chr '.'] ++ decimal (byteAt p 15)
    [tecmpPacket b (beAt b 12 4) ⟨tyCm, cmSetData cmDefault [] serial hw sw []⟩]

/-- one interface status packet per COMPLETE entry behind the 12 generic bytes; an entry is 12 bytes (interface id, messages
    total, errors total) followed by `v` bytes of vendor data, `v` = the vendor data length the generic part declares -/
def tecmpBusEntries (b p : Bytes) (v : Nat) : Nat → Nat → List Packet
  | 0, _ => []
  | fuel+1, off =>
    if off + (12 + v) ≤ p.length then
      let ifId := beAt p off 4
      let o := writeAt ifDefault 0 (beEnc 4 ifId)
      let o := writeAt o 4 (beEnc 4 (beAt p (off + 4) 4))
      let o := writeAt o 20 (beEnc 4 (beAt p (off + 8) 4))
      tecmpPacket b ifId ⟨tyIf, o⟩ :: tecmpBusEntries b p v fuel (off + (12 + v))
    else []

/-- bus status: generic part (12 bytes; vendor data length u16 @4), then the entries -/
def tecmpBus (b p : Bytes) : List Packet :=
  if p.length < 12 then [] else tecmpBusEntries b p (beAt p 4 2) (p.length / 12 + 1) 12

/-- `TECMP::Decoder::Decode` -/
def tecmpDecode (b : Bytes) : List Packet :=
  if b.length < 28 then []
  else
    let plen := beAt b 24 2
    if plen = 0 then []
    else if b.length < 28 + plen then []
    else if byteAt b 5 = 0xFF ∨ (byteAt b 6 = 0xFF ∧ byteAt b 7 = 0) then []
    else
      let p := b.drop 28          -- everything behind the header, not `plen` bytes
      let mt := byteAt b 5
      let dt := beAt b 6 2
      if mt = 1 then tecmpCm b p
      else if mt = 3 then
        if dt = 2 ∨ dt = 3 then tecmpCan b p
        else if dt = 4 then tecmpLin b p
        else []
      else if mt = 2 then tecmpBus b p
      else []

/-- the complete decoder entry point -/
def decode (s : DecState) (buf : Option Bytes) : DecState × List Packet := decodeWith tecmpDecode s buf

end AsamCmp
