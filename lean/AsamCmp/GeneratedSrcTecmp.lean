/- GENERATED on every run by vlib/srctecmp.py from the typed clang AST of /repo/src/tecmp_*.cpp (and what they use) — do not edit. -/
import AsamCmp.GeneratedSrcObj
import AsamCmp.Src.ObjTecmp
set_option linter.unusedVariables false
namespace AsamCmp.SrcGen
open AsamCmp AsamCmp.Src

/-! ### how the C++ objects of the TECMP path are modelled (vlib/srctecmp.py)

  * An object of a class derived from `TECMP::Payload` / `ASAM::CMP::Payload` is a VALUE: the data members of the root class
    (`f_payloadData`, `f_type`); the derived classes add no data member (checked on every run).  Its dynamic class is therefore
    not observable: `std::make_shared<Payload>(derived)` (a slicing copy through the defaulted copy constructor) is the identity on
    these values, and `reinterpret_cast<TECMP::CanPayload*>(payload.get())` followed by calls of `CanPayload`'s NON-VIRTUAL getters
    runs those getters on the same bytes — which is how it is translated.
  * `std::shared_ptr<T>` / `T*` to such an object: `Option T`; `let o ← ptr` is the dereference (`none` = null dereferenced = undefined).
    `std::vector<std::shared_ptr<T>>`: `List (Option T)`; range-for: structural recursion (`…_loop`); `while`: recursion on `fuel`.
  * A local `TECMP::CmpHeader` is its 28 bytes (default member initialisers reflected by a compiled program); `PayloadType` is its one
    `uint32_t` (its methods run on `leEnc 4 value`); `std::string` / `std::stringstream` are byte lists.
  * `const uint8_t*` / `const void*` are addresses in the one read-only memory `m`; a `uint8_t**` out-parameter is an extra result.
  * The functions WITHOUT the suffix `_obj` have the signature of GeneratedSrc.lean (`m`, `pd_ pdsize_`, `this_`): methods that
    only touch `payloadData`.  They, and the ones of GeneratedSrc.lean, are run on an object value with memory = its own byte vector
    (`pd_ = 0`); a method that returns a pointer into the object is run with `pd_ = objBase` and its result is only ever a `memcpy`
    source (`ptrBytes`).
  * A `std::shared_ptr<Packet>` local is treated as a value; the translator rejects any use of a packet pointer after a copy of it
    was handed to a callee, and any mutation after it was stored in a vector (no observable aliasing). -/


/-- an object of a class of the `TECMP::Payload` hierarchy, as a VALUE: the data members of the root class (derived classes add none) -/
structure TECMP_Payload_St where
  f_payloadData : Bytes
  f_type : Nat
deriving Repr, Inhabited, DecidableEq

/-- an object of a class of the `ASAM::CMP::Payload` hierarchy, as a VALUE: the data members of the root class (derived classes add none) -/
structure APayload_St where
  f_payloadData : Bytes
  f_type : Nat
deriving Repr, Inhabited, DecidableEq

/-! ### SEAM: the ASAM CMP packet the converter builds

  `TPacket_St` = the generated state of `ASAM::CMP::Packet` (its scalar members, GeneratedSrcObj.lean) + the payload the packet owns
  (`std::unique_ptr<Payload>`: none = null, otherwise the type code and the bytes).  CONTRACTS stated here, to be replaced by the
  translation of `Packet` once its `payload` member is part of `Packet_St`:
    * `std::make_shared<Packet>()`  = the defaulted constructor: default member initialisers, no payload;
    * `Packet::setPayload(const Payload& p)` = `payload = std::make_unique<Payload>(p)`: the slicing copy of `p` (type and bytes);
    * `Packet::isValid()` = `payload ? payload->isValid() : false`, with `Payload::isValid` translated from the AST below. -/

structure TPacket_St where
  hdr : Packet_St
  payload : Option (Nat × Bytes)
deriving Repr, Inhabited

def TPacket_new : TPacket_St := { hdr := Packet_default, payload := none }

def TPacket_setPayload (p : TPacket_St) (x : APayload_St) : TPacket_St := { p with payload := some (x.f_type, x.f_payloadData) }

/-- `ASAM::CMP::Payload::isValid` (line 36) -/
def Payload_isValid_obj (s : APayload_St) : Option (Bool) := do
  let t1 ← PayloadType_isValid (leEnc 4 s.f_type) 0
  pure t1

/-- `ASAM::CMP::Packet::isValid` (seam): `payload ? payload->isValid() : false` -/
def TPacket_isValid (p : TPacket_St) : Option Bool :=
  match p.payload with
  | none => pure false
  | some (ty, b) => Payload_isValid_obj { f_payloadData := b, f_type := ty }

/-- `ASAM::CMP::Payload::Payload` (line 81) -/
def Payload_ctor_rec_u64_obj (a_type : Nat) (a_size : Nat) : Option (APayload_St) := do
  let s : APayload_St := { f_payloadData := (zeros a_size), f_type := a_type }
  pure s

/-- `ASAM::CMP::CanPayloadBase::CanPayloadBase` (line 265) -/
def CanPayloadBase_ctor_rec_u64_obj (a_type : Nat) (a_size : Nat) : Option (APayload_St) := do
  let s ← Payload_ctor_rec_u64_obj a_type a_size
  pure s

/-- `ASAM::CMP::PayloadType::PayloadType` (line 68) -/
def PayloadType_ctor_u32_obj (a_payloadType : Nat) : Option (Nat) := do
  let s := a_payloadType
  pure s

/-- `ASAM::CMP::CanFdPayload::CanFdPayload` (line 11) -/
def CanFdPayload_ctor_v_obj  : Option (APayload_St) := do
  let t1 ← PayloadType_ctor_u32_obj 258
  let s ← CanPayloadBase_ctor_rec_u64_obj t1 16
  pure s

/-- `TECMP::CanPayload::getCrc` (line 75) -/
def TECMP_CanPayload_getCrc (m : Bytes) (pd_ pdsize_ : Nat) (this_ : Nat) : Option Nat := do
  let t1 ← TECMP_CanPayload_getHeader_v pd_ pdsize_ this_
  let t2 ← TECMP_CanPayload_Header_getDlc m t1
  if (decide (pdsize_ < (uadd 64 (uadd 64 5 t2) 3))) then
    pure 0
  else
    let v_result := 0
    let t3 ← TECMP_CanPayload_getHeader_v pd_ pdsize_ this_
    let t4 ← TECMP_CanPayload_Header_getDlc m t3
    let v_crcOffset := (uadd 64 5 t4)
    let v_crcPtr := (pd_ + v_crcOffset)
    let v_result ← cpyToScalar 4 v_result m v_crcPtr 3
    pure v_result

/-- `TECMP::Converter::ConvertCanFdPayload` (line 123) -/
def TECMP_Converter_ConvertCanFdPayload_obj (a_canPayload : Option TECMP_Payload_St) (a_packet : Option TPacket_St) : Option (Option TPacket_St) := do
  let t1 ← CanFdPayload_ctor_v_obj
  let v_canFdPayload := t1
  let o2 ← a_canPayload
  let t3 ← TECMP_CanPayload_getArbId o2.f_payloadData 0 o2.f_payloadData.length 0
  let t4 ← CanPayloadBase_setId v_canFdPayload.f_payloadData 0 v_canFdPayload.f_payloadData.length 0 t3
  let v_canFdPayload := { v_canFdPayload with f_payloadData := t4 }
  let o5 ← a_canPayload
  let t6 ← TECMP_CanPayload_getData objBase o5.f_payloadData.length 0
  let o7 ← a_canPayload
  let t8 ← TECMP_CanPayload_getDlc o7.f_payloadData 0 o7.f_payloadData.length 0
  let t9 ← CanPayloadBase_setData v_canFdPayload.f_payloadData 0 (ptrBytes o5.f_payloadData t6) t8
  let v_canFdPayload := { v_canFdPayload with f_payloadData := t9 }
  let o10 ← a_canPayload
  let t11 ← TECMP_CanPayload_getCrc o10.f_payloadData 0 o10.f_payloadData.length 0
  let t12 ← CanFdPayload_setCrc v_canFdPayload.f_payloadData 0 v_canFdPayload.f_payloadData.length 0 t11
  let v_canFdPayload := { v_canFdPayload with f_payloadData := t12 }
  let p13 ← a_packet
  let a_packet := some (TPacket_setPayload p13 v_canFdPayload)
  pure a_packet

/-- `TECMP::Converter::GetPackageFromTecmpHeader` (line 152) -/
def TECMP_Converter_GetPackageFromTecmpHeader_obj (a_header : Bytes) : Option (Option TPacket_St) := do
  let v_packet := (some TPacket_new)
  let p1 ← v_packet
  let t2 ← TECMP_CmpHeader_getDeviceId a_header 0
  let (h3, t4) ← Packet_setDeviceId_obj p1.hdr t2
  let v_packet := some { p1 with hdr := h3 }
  let p5 ← v_packet
  let t6 ← TECMP_CmpHeader_getTimestamp a_header 0
  let (h7, t8) ← Packet_setTimestamp_obj p5.hdr t6
  let v_packet := some { p5 with hdr := h7 }
  let p9 ← v_packet
  let t10 ← TECMP_CmpHeader_getInterfaceId a_header 0
  let (h11, t12) ← Packet_setInterfaceId_obj p9.hdr t10
  let v_packet := some { p9 with hdr := h11 }
  pure v_packet

/-- `ASAM::CMP::CanPayload::CanPayload` (line 10) -/
def CanPayload_ctor_v_obj  : Option (APayload_St) := do
  let t1 ← PayloadType_ctor_u32_obj 257
  let s ← CanPayloadBase_ctor_rec_u64_obj t1 16
  pure s

/-- `TECMP::Converter::ConvertCanPayload` (line 54) -/
def TECMP_Converter_ConvertCanPayload_obj (a_header : Bytes) (a_payload : Option TECMP_Payload_St) : Option (Option TPacket_St) := do
  let v_tecmpCanPayload := a_payload
  let t1 ← TECMP_Converter_GetPackageFromTecmpHeader_obj a_header
  let v_packet := t1
  let o2 ← v_tecmpCanPayload
  let t3 ← TECMP_CanPayload_getDlc o2.f_payloadData 0 o2.f_payloadData.length 0
  if (slt 32 8 t3) then
    let t4 ← TECMP_Converter_ConvertCanFdPayload_obj v_tecmpCanPayload v_packet
    pure t4
  else
    let t5 ← CanPayload_ctor_v_obj
    let v_canPayload := t5
    let o6 ← v_tecmpCanPayload
    let t7 ← TECMP_CanPayload_getArbId o6.f_payloadData 0 o6.f_payloadData.length 0
    let t8 ← CanPayloadBase_setId v_canPayload.f_payloadData 0 v_canPayload.f_payloadData.length 0 t7
    let v_canPayload := { v_canPayload with f_payloadData := t8 }
    let o9 ← v_tecmpCanPayload
    let t10 ← TECMP_CanPayload_getData objBase o9.f_payloadData.length 0
    let o11 ← v_tecmpCanPayload
    let t12 ← TECMP_CanPayload_getDlc o11.f_payloadData 0 o11.f_payloadData.length 0
    let t13 ← CanPayloadBase_setData v_canPayload.f_payloadData 0 (ptrBytes o9.f_payloadData t10) t12
    let v_canPayload := { v_canPayload with f_payloadData := t13 }
    let o14 ← v_tecmpCanPayload
    let t15 ← TECMP_CanPayload_getCrc o14.f_payloadData 0 o14.f_payloadData.length 0
    let t16 ← CanPayload_setCrc v_canPayload.f_payloadData 0 v_canPayload.f_payloadData.length 0 (t15 % 65536)
    let v_canPayload := { v_canPayload with f_payloadData := t16 }
    let p17 ← v_packet
    let v_packet := some (TPacket_setPayload p17 v_canPayload)
    pure v_packet

/-- `ASAM::CMP::CaptureModulePayload::CaptureModulePayload` (line 77) -/
def CaptureModulePayload_ctor_v_obj  : Option (APayload_St) := do
  let t1 ← PayloadType_ctor_u32_obj 769
  let s ← Payload_ctor_rec_u64_obj t1 36
  pure s

/-- `TECMP::CaptureModulePayload::getHwVersion` (line 204) -/
def TECMP_CaptureModulePayload_getHwVersion (m : Bytes) (pd_ pdsize_ : Nat) (this_ : Nat) : Option Bytes := do
  let v_ss := ([] : Bytes)
  let v_ss := v_ss ++ ([118] : Bytes)
  let t1 ← TECMP_CaptureModulePayload_getHeader_v pd_ pdsize_ this_
  let t2 ← TECMP_CaptureModulePayload_Header_getHwVersionMajor m t1
  let v_ss := v_ss ++ (toStringInt 32 t2)
  let v_ss := v_ss ++ ([46] : Bytes)
  let t3 ← TECMP_CaptureModulePayload_getHeader_v pd_ pdsize_ this_
  let t4 ← TECMP_CaptureModulePayload_Header_getHwVersionMinor m t3
  let v_ss := v_ss ++ (toStringInt 32 t4)
  pure v_ss

/-- `TECMP::CaptureModulePayload::getSwVersion` (line 196) -/
def TECMP_CaptureModulePayload_getSwVersion (m : Bytes) (pd_ pdsize_ : Nat) (this_ : Nat) : Option Bytes := do
  let v_ss := ([] : Bytes)
  let v_ss := v_ss ++ ([118] : Bytes)
  let t1 ← TECMP_CaptureModulePayload_getHeader_v pd_ pdsize_ this_
  let t2 ← TECMP_CaptureModulePayload_Header_getSwVersionMajor m t1
  let v_ss := v_ss ++ (toStringInt 32 t2)
  let v_ss := v_ss ++ ([46] : Bytes)
  let t3 ← TECMP_CaptureModulePayload_getHeader_v pd_ pdsize_ this_
  let t4 ← TECMP_CaptureModulePayload_Header_getSwVersionMinor m t3
  let v_ss := v_ss ++ (toStringInt 32 t4)
  let v_ss := v_ss ++ ([46] : Bytes)
  let t5 ← TECMP_CaptureModulePayload_getHeader_v pd_ pdsize_ this_
  let t6 ← TECMP_CaptureModulePayload_Header_getSwVersionPatch m t5
  let v_ss := v_ss ++ (toStringInt 32 t6)
  pure v_ss

/-- `TECMP::Converter::ConvertCaptureModulePayload` (line 73) -/
def TECMP_Converter_ConvertCaptureModulePayload_obj (a_header : Bytes) (a_payload : Option TECMP_Payload_St) : Option (Option TPacket_St) := do
  let v_tecmpCmPayload := a_payload
  let t1 ← TECMP_Converter_GetPackageFromTecmpHeader_obj a_header
  let v_packet := t1
  let t2 ← CaptureModulePayload_ctor_v_obj
  let v_cmPayload := t2
  let o3 ← v_tecmpCmPayload
  let t4 ← TECMP_CaptureModulePayload_getSerialNumber o3.f_payloadData 0 o3.f_payloadData.length 0
  let o5 ← v_tecmpCmPayload
  let t6 ← TECMP_CaptureModulePayload_getHwVersion o5.f_payloadData 0 o5.f_payloadData.length 0
  let o7 ← v_tecmpCmPayload
  let t8 ← TECMP_CaptureModulePayload_getSwVersion o7.f_payloadData 0 o7.f_payloadData.length 0
  let t9 ← CaptureModulePayload_setData v_cmPayload.f_payloadData 0 ([] : Bytes) (decimal t4) t6 t8 ([] : Bytes)
  let v_cmPayload := { v_cmPayload with f_payloadData := t9 }
  let p10 ← v_packet
  let v_packet := some (TPacket_setPayload p10 v_cmPayload)
  pure v_packet

/-- `ASAM::CMP::LinPayload::LinPayload` (line 70) -/
def LinPayload_ctor_v_obj  : Option (APayload_St) := do
  let t1 ← PayloadType_ctor_u32_obj 259
  let s ← Payload_ctor_rec_u64_obj t1 8
  pure s

/-- `TECMP::Converter::convertLinPayload` (line 136) -/
def TECMP_Converter_convertLinPayload_obj (a_header : Bytes) (a_payload : Option TECMP_Payload_St) : Option (Option TPacket_St) := do
  let v_tecmpLinPayload := a_payload
  let t1 ← TECMP_Converter_GetPackageFromTecmpHeader_obj a_header
  let v_packet := t1
  let t2 ← LinPayload_ctor_v_obj
  let v_linPayload := t2
  let o3 ← v_tecmpLinPayload
  let t4 ← TECMP_LinPayload_getPid o3.f_payloadData 0 o3.f_payloadData.length 0
  let t5 ← LinPayload_setLinId v_linPayload.f_payloadData 0 v_linPayload.f_payloadData.length 0 t4
  let v_linPayload := { v_linPayload with f_payloadData := t5 }
  let o6 ← v_tecmpLinPayload
  let t7 ← TECMP_LinPayload_getCrc o6.f_payloadData 0 o6.f_payloadData.length 0
  let t8 ← LinPayload_setChecksum v_linPayload.f_payloadData 0 v_linPayload.f_payloadData.length 0 t7
  let v_linPayload := { v_linPayload with f_payloadData := t8 }
  let o9 ← v_tecmpLinPayload
  let t10 ← TECMP_LinPayload_getData objBase o9.f_payloadData.length 0
  let o11 ← v_tecmpLinPayload
  let t12 ← TECMP_LinPayload_getDataLength o11.f_payloadData 0 o11.f_payloadData.length 0
  let t13 ← LinPayload_setData v_linPayload.f_payloadData 0 (ptrBytes o9.f_payloadData t10) t12
  let v_linPayload := { v_linPayload with f_payloadData := t13 }
  let p14 ← v_packet
  let v_packet := some (TPacket_setPayload p14 v_linPayload)
  pure v_packet

/-- `TECMP::Converter::ConvertDataPayload` (line 101) -/
def TECMP_Converter_ConvertDataPayload_obj (a_header : Bytes) (a_payload : Option TECMP_Payload_St) : Option (Option TPacket_St) := do
  let t1 ← TECMP_CmpHeader_getDataType a_header 0
  let sw2 := t1
  if sw2 == 2 || sw2 == 3 then
    let t3 ← TECMP_Converter_ConvertCanPayload_obj a_header a_payload
    pure t3
  else if sw2 == 4 then
    let t4 ← TECMP_Converter_convertLinPayload_obj a_header a_payload
    pure t4
  else if sw2 == 8 || sw2 == 16 || sw2 == 32 || sw2 == 128 || sw2 == 255 then
    pure none
  else
    pure none

/-- `ASAM::CMP::InterfacePayload::InterfacePayload` (line 105) -/
def InterfacePayload_ctor_v_obj  : Option (APayload_St) := do
  let t1 ← PayloadType_ctor_u32_obj 770
  let s ← Payload_ctor_rec_u64_obj t1 40
  pure s

/-- `TECMP::Converter::ConvertInterfacePayload` (line 86) -/
def TECMP_Converter_ConvertInterfacePayload_obj (a_header : Bytes) (a_payload : Option TECMP_Payload_St) : Option (Option TPacket_St) := do
  let v_tecmpInterfacePayload := a_payload
  let t1 ← TECMP_Converter_GetPackageFromTecmpHeader_obj a_header
  let v_packet := t1
  let t2 ← InterfacePayload_ctor_v_obj
  let v_interfacePayload := t2
  let o3 ← v_tecmpInterfacePayload
  let t4 ← TECMP_InterfacePayload_getInterfaceId o3.f_payloadData 0 o3.f_payloadData.length 0
  let t5 ← InterfacePayload_setInterfaceId v_interfacePayload.f_payloadData 0 v_interfacePayload.f_payloadData.length 0 t4
  let v_interfacePayload := { v_interfacePayload with f_payloadData := t5 }
  let o6 ← v_tecmpInterfacePayload
  let t7 ← TECMP_InterfacePayload_getMessagesTotal o6.f_payloadData 0 o6.f_payloadData.length 0
  let t8 ← InterfacePayload_setMsgTotalRx v_interfacePayload.f_payloadData 0 v_interfacePayload.f_payloadData.length 0 t7
  let v_interfacePayload := { v_interfacePayload with f_payloadData := t8 }
  let o9 ← v_tecmpInterfacePayload
  let t10 ← TECMP_InterfacePayload_getErrorsTotal o9.f_payloadData 0 o9.f_payloadData.length 0
  let t11 ← InterfacePayload_setErrorsTotalRx v_interfacePayload.f_payloadData 0 v_interfacePayload.f_payloadData.length 0 t10
  let v_interfacePayload := { v_interfacePayload with f_payloadData := t11 }
  let p12 ← v_packet
  let o13 ← v_tecmpInterfacePayload
  let t14 ← TECMP_InterfacePayload_getInterfaceId o13.f_payloadData 0 o13.f_payloadData.length 0
  let (h15, t16) ← Packet_setInterfaceId_obj p12.hdr t14
  let v_packet := some { p12 with hdr := h15 }
  let p17 ← v_packet
  let v_packet := some (TPacket_setPayload p17 v_interfacePayload)
  pure v_packet

/-- `TECMP::Converter::ConvertPacket` (line 15) -/
def TECMP_Converter_ConvertPacket_obj (a_header : Bytes) (a_payload : Option TECMP_Payload_St) : Option (Option TPacket_St) := do
  let t1 ← TECMP_CmpHeader_getMessageType a_header 0
  let sw2 := t1
  if sw2 == 1 then
    let t3 ← TECMP_Converter_ConvertCaptureModulePayload_obj a_header a_payload
    let v_packet := t3
    let t6 ← (if (v_packet).isSome then (do let p4 ← v_packet; let t5 ← TPacket_isValid p4; pure t5) else pure false)
    if t6 then
      pure v_packet
    else
      pure none
  else if sw2 == 2 then
    let t7 ← TECMP_Converter_ConvertInterfacePayload_obj a_header a_payload
    let v_packet := t7
    let t10 ← (if (v_packet).isSome then (do let p8 ← v_packet; let t9 ← TPacket_isValid p8; pure t9) else pure false)
    if t10 then
      pure v_packet
    else
      pure none
  else if sw2 == 3 then
    let t11 ← TECMP_Converter_ConvertDataPayload_obj a_header a_payload
    let v_packet := t11
    let t14 ← (if (v_packet).isSome then (do let p12 ← v_packet; let t13 ← TPacket_isValid p12; pure t13) else pure false)
    if t14 then
      pure v_packet
    else
      pure none
  else if sw2 == 0 || sw2 == 4 || sw2 == 10 || sw2 == 255 then
    pure none
  else
    pure none

def TECMP_Decoder_ConvertPacketsToAsam_loop1 (l_ : List (Option TECMP_Payload_St)) (a_payloads : List (Option TECMP_Payload_St)) (a_header : Bytes) (v_packets : List (Option TPacket_St)) : Option ((List (Option TPacket_St))) :=
  match l_ with
  | [] => pure v_packets
  | v_payload :: rest_ => do
      let t1 ← TECMP_Converter_ConvertPacket_obj a_header v_payload
      let v_packet := t1
      if (v_packet).isSome then
        let v_packets := v_packets ++ [v_packet]
        TECMP_Decoder_ConvertPacketsToAsam_loop1 rest_ a_payloads a_header v_packets
      else
        TECMP_Decoder_ConvertPacketsToAsam_loop1 rest_ a_payloads a_header v_packets

/-- `TECMP::Decoder::ConvertPacketsToAsam` (line 184) -/
def TECMP_Decoder_ConvertPacketsToAsam_obj (a_payloads : List (Option TECMP_Payload_St)) (a_header : Bytes) : Option (List (Option TPacket_St)) := do
  let v_packets := ([] : List (Option TPacket_St))
  let v_packets ← TECMP_Decoder_ConvertPacketsToAsam_loop1 a_payloads a_payloads a_header v_packets
  pure v_packets

/-- `TECMP::Decoder::GetHeader` (line 50) -/
def TECMP_Decoder_GetHeader_obj (m : Bytes) (a_data : Nat) (a_size : Nat) : Option (Bytes × Nat) := do
  let v_header := ([0, 0, 0, 0, 0, 255, 255, 0, 0, 0, 0, 0, 0, 0, 0, 0, 0, 0, 0, 0, 0, 0, 0, 0, 0, 0, 0, 0] : Bytes)
  let o_payloadPtr := 0
  if (decide (a_size < 28)) then
    pure (([0, 0, 0, 0, 0, 255, 255, 0, 0, 0, 0, 0, 0, 0, 0, 0, 0, 0, 0, 0, 0, 0, 0, 0, 0, 0, 0, 0] : Bytes), o_payloadPtr)
  else
    let v_header ← wrBytes v_header 0 (m.drop a_data) 28
    let t1 ← TECMP_CmpHeader_getPayloadLength v_header 0
    if (!(t1 != 0)) then
      pure (([0, 0, 0, 0, 0, 255, 255, 0, 0, 0, 0, 0, 0, 0, 0, 0, 0, 0, 0, 0, 0, 0, 0, 0, 0, 0, 0, 0] : Bytes), o_payloadPtr)
    else
      let t2 ← TECMP_CmpHeader_getPayloadLength v_header 0
      if (decide (a_size < (uadd 64 28 t2))) then
        pure (([0, 0, 0, 0, 0, 255, 255, 0, 0, 0, 0, 0, 0, 0, 0, 0, 0, 0, 0, 0, 0, 0, 0, 0, 0, 0, 0, 0] : Bytes), o_payloadPtr)
      else
        let v_tempPtr := (a_data + 28)
        let o_payloadPtr := v_tempPtr
        pure (v_header, o_payloadPtr)

/-- `TECMP::operator==` (line 110) -/
def TECMP_operator_eq_rec_rec_obj (a_lhs : Nat) (a_rhs : Nat) : Option (Bool) := do
  let t1 ← TECMP_PayloadType_getType (leEnc 4 a_lhs) 0
  let t2 ← TECMP_PayloadType_getType (leEnc 4 a_rhs) 0
  pure (t1 == t2)

/-- `TECMP::operator!=` (line 115) -/
def TECMP_operator_ne_obj (a_lhs : Nat) (a_rhs : Nat) : Option (Bool) := do
  let t1 ← TECMP_operator_eq_rec_rec_obj a_lhs a_rhs
  pure (!t1)

/-- `TECMP::PayloadType::PayloadType` (line 64) -/
def TECMP_PayloadType_ctor_u32_obj (a_payloadType : Nat) : Option (Nat) := do
  let s := a_payloadType
  pure s

/-- `TECMP::Payload::Payload` (line 3) -/
def TECMP_Payload_ctor_rec_ptr_u64_obj (m : Bytes) (a_type : Nat) (a_data : Nat) (a_size : Nat) : Option (TECMP_Payload_St) := do
  let s : TECMP_Payload_St := { f_payloadData := (zeros a_size), f_type := a_type }
  let t3 ← (if (a_size != 0) then (do let t1 ← TECMP_PayloadType_ctor_u32_obj 65535; let t2 ← TECMP_operator_ne_obj a_type t1; pure t2) else pure false)
  if t3 then
    let t4 ← wrBytes s.f_payloadData 0 (m.drop a_data) a_size
    let s := { s with f_payloadData := t4 }
    pure s
  else
    pure s

/-- `TECMP::CaptureModulePayload::CaptureModulePayload` (line 227) -/
def TECMP_CaptureModulePayload_ctor_ptr_u64_obj (m : Bytes) (a_data : Nat) (a_size : Nat) : Option (TECMP_Payload_St) := do
  let t1 ← TECMP_PayloadType_ctor_u32_obj 256
  let s ← TECMP_Payload_ctor_rec_ptr_u64_obj m t1 a_data a_size
  pure s

/-- `TECMP::Payload::isValid` (line 38) -/
def TECMP_Payload_isValid_obj (s : TECMP_Payload_St) : Option (Bool) := do
  let t1 ← TECMP_PayloadType_isValid (leEnc 4 s.f_type) 0
  pure t1

/-- `TECMP::Decoder::GetCaptureModulePayload` (line 33) -/
def TECMP_Decoder_GetCaptureModulePayload_obj (m : Bytes) (a_payloadData : Nat) (a_size : Nat) : Option (Option TECMP_Payload_St) := do
  if (decide (a_size < 18)) then
    pure none
  else
    let t1 ← TECMP_CaptureModulePayload_ctor_ptr_u64_obj m a_payloadData a_size
    let v_payload := t1
    let t2 ← TECMP_CaptureModulePayload_getVendorDataLength v_payload.f_payloadData 0 v_payload.f_payloadData.length 0
    if (decide ((usub 64 a_size 12) < t2)) then
      pure none
    else
      let t3 ← TECMP_Payload_isValid_obj v_payload
      if t3 then
        pure (some v_payload)
      else
        pure none

/-- `TECMP::Payload::getMessageType` (line 43) -/
def TECMP_Payload_getMessageType_obj (s : TECMP_Payload_St) : Option (Nat) := do
  let t1 ← TECMP_PayloadType_getMessageType (leEnc 4 s.f_type) 0
  pure t1

/-- `TECMP::CanPayload::CanPayload` (line 52) -/
def TECMP_CanPayload_ctor_ptr_u64_obj (m : Bytes) (a_data : Nat) (a_size : Nat) : Option (TECMP_Payload_St) := do
  let t1 ← TECMP_PayloadType_ctor_u32_obj 770
  let s ← TECMP_Payload_ctor_rec_ptr_u64_obj m t1 a_data a_size
  pure s

/-- `TECMP::Decoder::GetCanPayload` (line 159) -/
def TECMP_Decoder_GetCanPayload_obj (m : Bytes) (a_payloadData : Nat) (a_size : Nat) : Option (Option TECMP_Payload_St) := do
  let t3 ← (if (decide (a_size < 5)) then pure true else (do let t1 ← nonneg 32 4; let t2 ← rd m (a_payloadData + t1) 1; pure (decide ((usub 64 a_size 5) < t2))))
  if t3 then
    pure none
  else
    let t4 ← TECMP_CanPayload_ctor_ptr_u64_obj m a_payloadData a_size
    let v_payload := t4
    let t5 ← TECMP_Payload_isValid_obj v_payload
    if t5 then
      pure (some v_payload)
    else
      pure none

/-- `TECMP::Payload::getType` (line 63) -/
def TECMP_Payload_getType_obj (s : TECMP_Payload_St) : Option (Nat) := do
  pure s.f_type

/-- `TECMP::LinPayload::LinPayload` (line 42) -/
def TECMP_LinPayload_ctor_ptr_u64_obj (m : Bytes) (a_data : Nat) (a_size : Nat) : Option (TECMP_Payload_St) := do
  let t1 ← TECMP_PayloadType_ctor_u32_obj 772
  let s ← TECMP_Payload_ctor_rec_ptr_u64_obj m t1 a_data a_size
  pure s

/-- `TECMP::Decoder::GetLinPayload` (line 172) -/
def TECMP_Decoder_GetLinPayload_obj (m : Bytes) (a_payloadData : Nat) (a_size : Nat) : Option (Option TECMP_Payload_St) := do
  let t3 ← (if (decide (a_size < 2)) then pure true else (do let t1 ← nonneg 32 1; let t2 ← rd m (a_payloadData + t1) 1; pure (decide ((usub 64 a_size 2) < t2))))
  if t3 then
    pure none
  else
    let t4 ← TECMP_LinPayload_ctor_ptr_u64_obj m a_payloadData a_size
    let v_payload := t4
    let t5 ← TECMP_Payload_isValid_obj v_payload
    if t5 then
      pure (some v_payload)
    else
      pure none

/-- `TECMP::Decoder::GetDataPayload` (line 103) -/
def TECMP_Decoder_GetDataPayload_obj (m : Bytes) (a_payloadData : Nat) (a_size : Nat) (a_header : Bytes) : Option (Option TECMP_Payload_St) := do
  let t1 ← TECMP_CmpHeader_getDataType a_header 0
  let sw2 := t1
  if sw2 == 2 || sw2 == 3 then
    let t3 ← TECMP_Decoder_GetCanPayload_obj m a_payloadData a_size
    let v_payload := t3
    let t6 ← (if (v_payload).isSome then (do let o4 ← v_payload; let t5 ← TECMP_Payload_getMessageType_obj o4; pure (t5 == 3)) else pure false)
    let t11 ← (if t6 then (do let o7 ← v_payload; let t8 ← TECMP_Payload_getType_obj o7; let t9 ← TECMP_PayloadType_ctor_u32_obj 770; let t10 ← TECMP_operator_eq_rec_rec_obj t8 t9; pure t10) else pure false)
    if t11 then
      pure v_payload
    else
      pure none
  else if sw2 == 4 then
    let t12 ← TECMP_Decoder_GetLinPayload_obj m a_payloadData a_size
    let v_payload := t12
    let t15 ← (if (v_payload).isSome then (do let o13 ← v_payload; let t14 ← TECMP_Payload_getMessageType_obj o13; pure (t14 == 3)) else pure false)
    let t20 ← (if t15 then (do let o16 ← v_payload; let t17 ← TECMP_Payload_getType_obj o16; let t18 ← TECMP_PayloadType_ctor_u32_obj 772; let t19 ← TECMP_operator_eq_rec_rec_obj t17 t18; pure t19) else pure false)
    if t20 then
      pure v_payload
    else
      pure none
  else if sw2 == 8 || sw2 == 16 || sw2 == 32 || sw2 == 128 || sw2 == 255 then
    pure none
  else
    pure none

/-- `TECMP::Payload::Payload` (line 11) -/
def TECMP_Payload_ctor_rec_u64_obj (a_type : Nat) (a_size : Nat) : Option (TECMP_Payload_St) := do
  let s : TECMP_Payload_St := { f_payloadData := (zeros a_size), f_type := a_type }
  pure s

/-- `TECMP::InterfacePayload::InterfacePayload` (line 127) -/
def TECMP_InterfacePayload_ctor_v_obj  : Option (TECMP_Payload_St) := do
  let t1 ← TECMP_PayloadType_ctor_u32_obj 512
  let s ← TECMP_Payload_ctor_rec_u64_obj t1 28
  pure s

/-- `TECMP::InterfacePayload::setGenericData` (line 266) -/
def TECMP_InterfacePayload_setGenericData (m : Bytes) (pd_ pdsize_ : Nat) (this_ : Nat) (x_data : Bytes) : Option Bytes := do
  let m ← wrBytes m pd_ x_data 12
  pure m

/-- `TECMP::InterfacePayload::setBusData` (line 270) -/
def TECMP_InterfacePayload_setBusData (m : Bytes) (pd_ pdsize_ : Nat) (this_ : Nat) (x_data : Bytes) (a_dataLenght : Nat) : Option Bytes := do
  let t1 ← nonneg 32 12
  let m ← wrBytes m (pd_ + t1) x_data a_dataLenght
  pure m

def TECMP_Decoder_GetInterfacePayload_loop1 (fuel : Nat) (m : Bytes) (a_payloadData : Nat) (a_size : Nat) (a_header : Bytes) (v_payloads : List (Option TECMP_Payload_St)) (v_payload : TECMP_Payload_St) (v_busDataOffset : Nat) (v_entrySize : Nat) : Option ((List (Option TECMP_Payload_St)) × Nat) :=
  match fuel with
  | 0 => none
  | fuel + 1 => do
    if (decide ((uadd 64 v_busDataOffset v_entrySize) ≤ a_size)) then
      let v_tempPayload := v_payload
      let t5 ← TECMP_InterfacePayload_setBusData v_tempPayload.f_payloadData 0 v_tempPayload.f_payloadData.length 0 (m.drop (a_payloadData + v_busDataOffset)) 12
      let v_tempPayload := { v_tempPayload with f_payloadData := t5 }
      let v_payloads := v_payloads ++ [(some v_tempPayload)]
      let v_busDataOffset := (uadd 64 v_busDataOffset v_entrySize)
      TECMP_Decoder_GetInterfacePayload_loop1 fuel m a_payloadData a_size a_header v_payloads v_payload v_busDataOffset v_entrySize
    else
      pure (v_payloads, v_busDataOffset)

/-- `TECMP::Decoder::GetInterfacePayload` (line 131) -/
def TECMP_Decoder_GetInterfacePayload_obj (fuel : Nat) (m : Bytes) (a_payloadData : Nat) (a_size : Nat) (a_header : Bytes) : Option (List (Option TECMP_Payload_St)) := do
  let v_payloads := ([] : List (Option TECMP_Payload_St))
  let t1 ← TECMP_CmpHeader_getMessageType a_header 0
  if (t1 != 2) then
    pure v_payloads
  else
    if (decide (a_size < 12)) then
      pure v_payloads
    else
      let t2 ← TECMP_InterfacePayload_ctor_v_obj
      let v_payload := t2
      let v_busDataOffset := 12
      let t3 ← TECMP_InterfacePayload_setGenericData v_payload.f_payloadData 0 v_payload.f_payloadData.length 0 (m.drop a_payloadData)
      let v_payload := { v_payload with f_payloadData := t3 }
      let t4 ← TECMP_InterfacePayload_getVendorDataLength v_payload.f_payloadData 0 v_payload.f_payloadData.length 0
      let v_entrySize := (uadd 64 12 t4)
      let (v_payloads, v_busDataOffset) ← TECMP_Decoder_GetInterfacePayload_loop1 fuel m a_payloadData a_size a_header v_payloads v_payload v_busDataOffset v_entrySize
      pure v_payloads

/-- `TECMP::Decoder::HandlePayload` (line 71) -/
def TECMP_Decoder_HandlePayload_obj (fuel : Nat) (m : Bytes) (a_data : Nat) (a_size : Nat) (a_header : Bytes) : Option (List (Option TECMP_Payload_St)) := do
  let v_payloads := ([] : List (Option TECMP_Payload_St))
  let t1 ← TECMP_CmpHeader_getMessageType a_header 0
  let sw2 := t1
  if sw2 == 1 then
    let t3 ← TECMP_Decoder_GetCaptureModulePayload_obj m a_data a_size
    let v_payload := t3
    let t6 ← (if (v_payload).isSome then (do let o4 ← v_payload; let t5 ← TECMP_Payload_getMessageType_obj o4; pure (t5 == 1)) else pure false)
    if t6 then
      let v_payloads := v_payloads ++ [v_payload]
      pure v_payloads
    else
      pure v_payloads
  else if sw2 == 3 then
    let t7 ← TECMP_Decoder_GetDataPayload_obj m a_data a_size a_header
    let v_payload := t7
    let t10 ← (if (v_payload).isSome then (do let o8 ← v_payload; let t9 ← TECMP_Payload_getMessageType_obj o8; pure (t9 == 3)) else pure false)
    if t10 then
      let v_payloads := v_payloads ++ [v_payload]
      pure v_payloads
    else
      pure v_payloads
  else if sw2 == 2 then
    let t11 ← TECMP_Decoder_GetInterfacePayload_obj fuel m a_data a_size a_header
    let v_payloads := t11
    pure v_payloads
  else if sw2 == 4 || sw2 == 10 || sw2 == 255 || sw2 == 0 then
    pure v_payloads
  else
    pure v_payloads

/-- `TECMP::Decoder::Decode` (line 12) -/
def TECMP_Decoder_Decode_obj (fuel : Nat) (m : Bytes) (a_data : Nat) (a_size : Nat) : Option (List (Option TPacket_St)) := do
  let v_packets := ([] : List (Option TPacket_St))
  let v_payloads := ([] : List (Option TECMP_Payload_St))
  let (t1, v_payloadPtr) ← TECMP_Decoder_GetHeader_obj m a_data a_size
  let v_header := t1
  let t2 ← TECMP_CmpHeader_isValid v_header 0
  if ((!t2) || (v_payloadPtr == 0)) then
    pure v_packets
  else
    let t3 ← TECMP_Decoder_HandlePayload_obj fuel m v_payloadPtr (usub 64 a_size 28) v_header
    let v_payloads := t3
    if (v_payloads).isEmpty then
      pure v_packets
    else
      let t4 ← TECMP_Decoder_ConvertPacketsToAsam_obj v_payloads v_header
      let v_packets := t4
      pure v_packets

/-- functions of the TECMP path outside the translated subset, with the first reason -/
def tecmp_untranslated : List (String × String) := [
  ("TECMP::CaptureModulePayload::getVoltage float () const", "type float"),
  ("TECMP::Payload::setData void (const uint8_t *, const size_t)", "sizeof(Header) unknown"),
  ("TECMP::Payload::setType void (const TECMP::PayloadType)", "non-const method in value mode"),
  ("TECMP::PayloadType::operator= TECMP::PayloadType &(const TECMP::PayloadType &) noexcept", "value-mode method of the non-payload class TECMP::PayloadType"),
  ("TECMP::operator== bool (const TECMP::Payload &, const TECMP::Payload &) noexcept", "pointer into a payload object used as a value")
]

def tecmp_translatedNames : List String := ["Payload_isValid_obj", "Payload_ctor_rec_u64_obj", "CanPayloadBase_ctor_rec_u64_obj", "PayloadType_ctor_u32_obj", "CanFdPayload_ctor_v_obj", "TECMP_CanPayload_getCrc", "TECMP_Converter_ConvertCanFdPayload_obj", "TECMP_Converter_GetPackageFromTecmpHeader_obj", "CanPayload_ctor_v_obj", "TECMP_Converter_ConvertCanPayload_obj", "CaptureModulePayload_ctor_v_obj", "TECMP_CaptureModulePayload_getHwVersion", "TECMP_CaptureModulePayload_getSwVersion", "TECMP_Converter_ConvertCaptureModulePayload_obj", "LinPayload_ctor_v_obj", "TECMP_Converter_convertLinPayload_obj", "TECMP_Converter_ConvertDataPayload_obj", "InterfacePayload_ctor_v_obj", "TECMP_Converter_ConvertInterfacePayload_obj", "TECMP_Converter_ConvertPacket_obj", "TECMP_Decoder_ConvertPacketsToAsam_obj", "TECMP_Decoder_GetHeader_obj", "TECMP_operator_eq_rec_rec_obj", "TECMP_operator_ne_obj", "TECMP_PayloadType_ctor_u32_obj", "TECMP_Payload_ctor_rec_ptr_u64_obj", "TECMP_CaptureModulePayload_ctor_ptr_u64_obj", "TECMP_Payload_isValid_obj", "TECMP_Decoder_GetCaptureModulePayload_obj", "TECMP_Payload_getMessageType_obj", "TECMP_CanPayload_ctor_ptr_u64_obj", "TECMP_Decoder_GetCanPayload_obj", "TECMP_Payload_getType_obj", "TECMP_LinPayload_ctor_ptr_u64_obj", "TECMP_Decoder_GetLinPayload_obj", "TECMP_Decoder_GetDataPayload_obj", "TECMP_Payload_ctor_rec_u64_obj", "TECMP_InterfacePayload_ctor_v_obj", "TECMP_InterfacePayload_setGenericData", "TECMP_InterfacePayload_setBusData", "TECMP_Decoder_GetInterfacePayload_obj", "TECMP_Decoder_HandlePayload_obj", "TECMP_Decoder_Decode_obj"]

end AsamCmp.SrcGen
