/-
  What a round trip through encoder and decoder must preserve (C01): definitions shared by the
  theorem and by the driver's `chk` operation.
-/
import AsamCmp.Encoder
import AsamCmp.Tecmp
namespace AsamCmp

/-- well-formed packet of C01's domain: payload of 1..65535 bytes, non-zero message type and
    payload type byte, version ≥ 1, no error-in-payload flag, fields inside their wire widths, and
    the payload passes the validator `Packet::create` applies to its type -/
def Packet.wf (p : Packet) : Bool :=
  match p.payload with
  | none => false
  | some pl =>
    decide (1 ≤ pl.data.length) && decide (pl.data.length ≤ 65535) &&
    decide (pl.mt ≠ 0) && decide (pl.raw ≠ 0) && decide (pl.ty < 65536) &&
    decide (1 ≤ p.version) && decide (p.version < 256) && decide (p.flags < 256) && decide (p.flags &&& 0x40 = 0) &&
    decide (p.ts < 2 ^ 64) && decide (p.ifId < 2 ^ 32) && decide (p.vendorId < 2 ^ 16) &&
    (match validatorOf pl.ty with | some v => v pl.data | none => true)

def Packet.WF (p : Packet) : Prop := p.wf = true

/-- the packet the decoder must return for a sent packet: same payload type and bytes, message
    type, timestamp, interface id (data) or vendor id (status / vendor), version, flags without the
    segmentation bits, tagged with the encoder's ids; decoded packets never carry a sequence
    counter or a segment type of their own -/
def obsSent (dev stream : Nat) (p : Packet) : Packet :=
  { payload := p.payload, version := p.version, deviceId := dev, streamId := stream, seq := 0, ts := p.ts,
    ifId := if p.mt = 1 then p.ifId else 0,
    vendorId := if p.mt = 3 ∨ p.mt = 0xFF then p.vendorId else 0,
    flags := p.flags &&& 0xF3, segType := 0 }

/-- a decoded packet with the segmentation bits of its flags masked -/
def clearSeg (p : Packet) : Packet := { p with flags := p.flags &&& 0xF3 }

/-- the predicate evaluated on the implementation's output: the decoded packets are the sent ones -/
def P_C01 (dev stream : Nat) (batch decoded : List Packet) : Bool :=
  decoded.map clearSeg == batch.map (obsSent dev stream)

end AsamCmp
