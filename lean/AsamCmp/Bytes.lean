/-
  Bytes: byte strings as `List UInt8`, big-endian codec, slices, hex.
  Core Lean only.
-/
namespace AsamCmp

abbrev Bytes := List UInt8

theorem snocInd {α : Type} {P : List α → Prop} (hnil : P [])
    (hsnoc : ∀ xs x, P xs → P (xs ++ [x])) : ∀ l, P l := by
  intro l
  have h : ∀ r : List α, P r.reverse := by
    intro r
    induction r with
    | nil => exact hnil
    | cons x xs ih => simpa using hsnoc _ x ih
  simpa using h l.reverse

/-- big-endian value of a byte string -/
def beDec (bs : Bytes) : Nat := bs.foldl (fun acc b => acc * 256 + b.toNat) 0

/-- `k` bytes, big-endian, of `n mod 256^k` -/
def beEnc : Nat → Nat → Bytes
  | 0, _ => []
  | k+1, n => beEnc k (n / 256) ++ [UInt8.ofNat (n % 256)]

@[simp] theorem beEnc_length (k n : Nat) : (beEnc k n).length = k := by
  induction k generalizing n with
  | zero => rfl
  | succ k ih => simp [beEnc, ih]

@[simp] theorem beDec_nil : beDec [] = 0 := rfl

theorem beDec_append_singleton (xs : Bytes) (b : UInt8) :
    beDec (xs ++ [b]) = beDec xs * 256 + b.toNat := by
  simp [beDec, List.foldl_append]

theorem beDec_beEnc (k n : Nat) : beDec (beEnc k n) = n % 256 ^ k := by
  induction k generalizing n with
  | zero => simp [beEnc, Nat.mod_one]
  | succ k ih =>
    simp only [beEnc, beDec_append_singleton, ih]
    have h : (UInt8.ofNat (n % 256)).toNat = n % 256 := by simp
    rw [h, Nat.pow_succ, Nat.mul_comm (256 ^ k) 256, Nat.mod_mul]
    omega

theorem beDec_lt (bs : Bytes) : beDec bs < 256 ^ bs.length := by
  induction bs using snocInd with
  | hnil => simp
  | hsnoc xs b ih =>
    rw [beDec_append_singleton]
    simp only [List.length_append, List.length_singleton, Nat.pow_succ]
    have := b.toNat_lt
    omega

theorem beEnc_beDec (bs : Bytes) : beEnc bs.length (beDec bs) = bs := by
  induction bs using snocInd with
  | hnil => rfl
  | hsnoc xs b ih =>
    simp only [List.length_append, List.length_singleton, beEnc, beDec_append_singleton]
    have hb := b.toNat_lt
    have h1 : (beDec xs * 256 + b.toNat) / 256 = beDec xs := by omega
    have h2 : (beDec xs * 256 + b.toNat) % 256 = b.toNat := by omega
    rw [h1, h2, ih]
    simp

/-- slice `[off, off+len)`; shorter if the list ends earlier -/
def slice (bs : Bytes) (off len : Nat) : Bytes := (bs.drop off).take len

/-- byte at `i`, 0 when out of range (callers guard the range) -/
def byteAt (bs : Bytes) (i : Nat) : Nat := (bs.getD i 0).toNat

/-- big-endian field of width `w` at `off` -/
def beAt (bs : Bytes) (off w : Nat) : Nat := beDec (slice bs off w)

/-- overwrite `bs[off ..]` with `v` (in place, `v` must fit) -/
def writeAt (bs : Bytes) (off : Nat) (v : Bytes) : Bytes :=
  bs.take off ++ v ++ bs.drop (off + v.length)

/-- `std::vector::resize(n)` with zero fill -/
def resize (bs : Bytes) (n : Nat) : Bytes :=
  if n ≤ bs.length then bs.take n else bs ++ List.replicate (n - bs.length) 0

@[simp] theorem resize_length (bs : Bytes) (n : Nat) : (resize bs n).length = n := by
  unfold resize; split <;> simp <;> omega

def zeros (n : Nat) : Bytes := List.replicate n 0

/-! ### hex -/

def hexDigit (n : Nat) : Char :=
  if n < 10 then Char.ofNat (48 + n) else Char.ofNat (87 + n)

def toHex (bs : Bytes) : String :=
  String.ofList (bs.flatMap fun b => [hexDigit (b.toNat / 16), hexDigit (b.toNat % 16)])

def hexVal (c : Char) : Option Nat :=
  if '0' ≤ c ∧ c ≤ '9' then some (c.toNat - 48)
  else if 'a' ≤ c ∧ c ≤ 'f' then some (c.toNat - 87)
  else if 'A' ≤ c ∧ c ≤ 'F' then some (c.toNat - 55)
  else none

def ofHexChars : List Char → Option Bytes
  | [] => some []
  | [_] => none
  | a :: b :: rest => do
    let x ← hexVal a
    let y ← hexVal b
    let r ← ofHexChars rest
    pure (UInt8.ofNat (x * 16 + y) :: r)

/-- generated payload bytes, identical in the C++ harness:
    byte i = (seed + 7*i + 13*(i >> 8)) mod 256 -/
def genBytes (len seed : Nat) : Bytes :=
  (List.range len).map fun i => UInt8.ofNat ((seed + 7 * i + 13 * (i / 256)) % 256)

/-- `-` is the empty string, `gen:<len>:<seed>` a generated one, otherwise hex -/
def parseBytes (s : String) : Option Bytes :=
  if s == "-" then some []
  else match s.splitOn ":" with
    | ["gen", l, sd] => do
      let l ← l.toNat?
      let sd ← sd.toNat?
      pure (genBytes l sd)
    | _ => ofHexChars s.toList

def showBytes (bs : Bytes) : String := if bs.isEmpty then "-" else toHex bs

end AsamCmp
