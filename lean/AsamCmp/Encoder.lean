/-
  Encoder model: a fold over the batch with the state the C++ keeps (closed frames, the open
  frame, the header template, the sequence counter).  Frames are kept structured and
  serialised by `EFrame.bytes`.
-/
import AsamCmp.Packet
namespace AsamCmp

/-- one message on the wire: the packet it belongs to (index in the batch and value, for the
    header fields), its segment flag (0 none, 4 first, 8 intermediary, 12 last), its bytes -/
structure EMsg where
  idx : Nat
  pkt : Packet
  seg : Nat
  body : Bytes
deriving Repr, Inhabited

def EMsg.size (m : EMsg) : Nat := 16 + m.body.length
def EMsg.bytes (m : EMsg) : Bytes := msgHeader m.pkt m.seg m.body.length ++ m.body

structure EFrame where
  ver : Nat
  dev : Nat
  mt : Nat
  stream : Nat
  seq : Nat
  msgs : List EMsg
deriving Repr, Inhabited

def EFrame.used (f : EFrame) : Nat := (f.msgs.map EMsg.size).sum

/-- serialised frame, zero-padded to `min` -/
def EFrame.bytes (min : Nat) (f : EFrame) : Bytes :=
  let raw := frameHeader f.ver f.dev f.mt f.stream f.seq ++ f.msgs.flatMap EMsg.bytes
  raw ++ zeros (min - raw.length)

structure Ctx where
  min : Nat
  max : Nat
deriving Repr, DecidableEq

def Ctx.ok (c : Ctx) : Bool := 25 ≤ c.max && c.min ≤ c.max
def Ctx.cap (c : Ctx) : Nat := c.max - 8

/-- encoder object: identity, counter, and the per-call scratch state -/
structure Enc where
  dev : Nat := 0
  stream : Nat := 0
  /-- `sequenceCounter` (16 bit) -/
  seqc : Nat := 0
  /-- `messageType`; survives between calls -/
  curMt : Nat := 0
  closed : List EFrame := []
  cur : Option EFrame := none
  /-- frame header template: (version, message type) -/
  tmpl : Option (Nat × Nat) := none
deriving Repr, Inhabited

namespace Enc

/-- `closeLastFrame`: an open frame without messages is dropped and its counter given back -/
def closeLast (s : Enc) : Enc :=
  match s.cur with
  | none => s
  | some f =>
    if f.msgs.isEmpty then { s with cur := none, seqc := (s.seqc + 65535) % 65536 }
    else { s with closed := s.closed ++ [f], cur := none }

/-- `addNewCMPFrame` -/
def addNew (s : Enc) (p : Packet) : Enc :=
  let s := s.closeLast
  let t := s.tmpl.getD (p.version % 256, p.mt)
  let q := (s.seqc + 1) % 65536
  { s with tmpl := some t, seqc := q, cur := some ⟨t.1, s.dev, t.2, s.stream, q, []⟩ }

def left (c : Ctx) (s : Enc) : Nat :=
  match s.cur with
  | none => 0
  | some f => c.cap - f.used

def add (s : Enc) (m : EMsg) : Enc :=
  match s.cur with
  | none => s
  | some f => { s with cur := some { f with msgs := f.msgs ++ [m] } }

end Enc

/-- cut `l` into pieces of `n` (the last one may be shorter) -/
def chunks (n : Nat) (l : Bytes) : List Bytes :=
  if h : n = 0 ∨ l = [] then [] else l.take n :: chunks n (l.drop n)
termination_by l.length
decreasing_by
  have h1 : n ≠ 0 := fun e => h (Or.inl e)
  have h2 : l ≠ [] := fun e => h (Or.inr e)
  have : 0 < l.length := List.length_pos_iff.mpr h2
  simp [List.length_drop]; omega

/-- segment flags for a list of chunks -/
def segMsgs (idx : Nat) (p : Packet) : (first : Bool) → List Bytes → List EMsg
  | _, [] => []
  | true, c :: cs => ⟨idx, p, 4, c⟩ :: segMsgs idx p false cs
  | false, [c] => [⟨idx, p, 12, c⟩]
  | false, c :: cs => ⟨idx, p, 8, c⟩ :: segMsgs idx p false cs

/-- each segment alone in a frame: a frame is opened for every segment but the first (which
    uses the fresh frame it finds), and one after the last -/
def putSegs (s : Enc) (p : Packet) : List EMsg → Enc
  | [] => s
  | m :: ms => putSegs ((s.add m).addNew p) p ms

/-- `Encoder::putPacket` -/
def putPacket (c : Ctx) (s : Enc) (ip : Nat × Packet) : Enc :=
  let i := ip.1
  let p := ip.2
  let s1 := if s.cur.isNone || s.curMt != p.mt then
              ({ s with curMt := p.mt, tmpl := none } : Enc).addNew p else s
  let len := p.payloadLength
  let need := 16 + len
  let s2 := if s1.left c < need then s1.addNew p else s1
  let segmented := s2.left c < need
  let body := p.data.take len
  if len = 0 then s2
  else if !segmented then s2.add ⟨i, p, 0, body⟩
  else putSegs s2 p (segMsgs i p true (chunks (c.cap - 16) body))

/-- `Encoder::encode`: init, put every packet, close, hand the frames out -/
def Enc.encode (e : Enc) (batch : List Packet) (c : Ctx) : Enc × List EFrame :=
  let s0 : Enc := { e with closed := [], cur := none, tmpl := none }
  let s := (((List.range batch.length).zip batch).foldl (putPacket c) s0).closeLast
  ({ s with closed := [], cur := none, tmpl := none }, s.closed)

def Enc.setDevice (e : Enc) (d : Nat) : Enc :=
  { e with dev := d % 65536, seqc := 0, closed := [], cur := none, tmpl := none }
def Enc.setStream (e : Enc) (d : Nat) : Enc :=
  { e with stream := d % 256, seqc := 0, closed := [], cur := none, tmpl := none }
def Enc.restart (e : Enc) : Enc := { e with seqc := 0 }

end AsamCmp
