/-
  Payload, Packet, payload validators (as the library's `isValidPayload` functions),
  `Packet::create`, construction of a packet from message bytes and serialisation of the
  message / frame headers.  All fields are `Nat`; C++ truncations are explicit `%`.
-/
import AsamCmp.Bytes
namespace AsamCmp

structure Payload where
  /-- `PayloadType::type`: (message type << 8) | raw payload type; 0 = invalid -/
  ty : Nat
  data : Bytes
deriving DecidableEq, Repr, Inhabited

namespace Payload
def mt (p : Payload) : Nat := p.ty / 256 % 256
def raw (p : Payload) : Nat := p.ty % 256
def isValid (p : Payload) : Bool := p.raw != 0 && p.mt != 0
end Payload

/-! payload type codes -/
def tyCan : Nat := 0x0101
def tyCanFd : Nat := 0x0102
def tyLin : Nat := 0x0103
def tyAnalog : Nat := 0x0107
def tyEth : Nat := 0x0108
def tyCm : Nat := 0x0301
def tyIf : Nat := 0x0302

/-! ### validators (post-repair behaviour of the library) -/

def canValid (b : Bytes) : Bool :=
  16 ≤ b.length && (beAt b 0 2 &&& 0x03FF) == 0 && beAt b 12 2 == 0 && byteAt b 15 ≤ b.length - 16

def linValid (b : Bytes) : Bool :=
  8 ≤ b.length && byteAt b 7 ≤ b.length - 8

def ethValid (b : Bytes) : Bool :=
  6 ≤ b.length && (beAt b 0 2 &&& 0x003B) == 0 && beAt b 4 2 ≤ b.length - 6

def analogValid (b : Bytes) : Bool :=
  16 ≤ b.length && (byteAt b 1 &&& 3) ≤ 1

/-- `n` length-prefixed blocks lie inside `r` -/
def blocksOk : Nat → Bytes → Bool
  | 0, _ => true
  | n+1, r =>
    if r.length < 2 then false
    else
      let l := beDec (r.take 2)
      let r' := r.drop 2
      if r'.length < l then false else blocksOk n (r'.drop l)

def cmValid (b : Bytes) : Bool :=
  26 ≤ b.length && blocksOk 5 (b.drop 26)

def ifValid (b : Bytes) : Bool :=
  40 ≤ b.length && byteAt b 29 ≤ 2 &&
    (let c := beAt b 36 2
     let c := c + c % 2
     c + 2 ≤ b.length - 38 && beAt b (38 + c) 2 ≤ b.length - (38 + c) - 2)

/-- validator `Packet::create` applies to a payload type, if the type is a typed one -/
def validatorOf (ty : Nat) : Option (Bytes → Bool) :=
  if ty = tyCan then some canValid
  else if ty = tyCanFd then some canValid
  else if ty = tyLin then some linValid
  else if ty = tyAnalog then some analogValid
  else if ty = tyEth then some ethValid
  else if ty = tyCm then some cmValid
  else if ty = tyIf then some ifValid
  else none

/-- `Packet::create`: typed payload if its validator accepts, otherwise an invalid-marked
    payload of the same length holding zero bytes; unknown types are kept generic -/
def create (ty : Nat) (d : Bytes) : Payload :=
  match validatorOf ty with
  | some v => if v d then ⟨ty, d⟩ else ⟨0, zeros d.length⟩
  | none => if ty = 0 then ⟨0, zeros d.length⟩ else ⟨ty, d⟩

structure Packet where
  payload : Option Payload
  version : Nat := 1
  deviceId : Nat := 0
  streamId : Nat := 0
  seq : Nat := 0
  ts : Nat := 0
  ifId : Nat := 0
  vendorId : Nat := 0
  flags : Nat := 0
  segType : Nat := 0
deriving DecidableEq, Repr, Inhabited

namespace Packet
/-- `getPayloadLength()`: 16-bit truncation of the payload size, 0 without payload -/
def payloadLength (p : Packet) : Nat :=
  match p.payload with
  | none => 0
  | some pl => pl.data.length % 65536

def isValid (p : Packet) : Bool :=
  match p.payload with
  | none => false
  | some pl => pl.isValid

/-- message type as `getMessageType()` reports it (requires a payload) -/
def mt (p : Packet) : Nat := match p.payload with | none => 0 | some pl => pl.mt
def rawType (p : Packet) : Nat := match p.payload with | none => 0 | some pl => pl.raw
def data (p : Packet) : Bytes := match p.payload with | none => [] | some pl => pl.data
end Packet

/-- `Packet::isValidPacket` on the remaining bytes of a frame -/
def msgValid (r : Bytes) : Bool :=
  16 ≤ r.length && beAt r 14 2 ≤ r.length - 16 && (byteAt r 12 &&& 0x40) == 0 && byteAt r 13 != 0

/-- `Packet(msgType, data, size)`: header fields of the first 16 bytes, payload of the
    declared length -/
def Packet.ofMsg (mt : Nat) (m : Bytes) : Packet :=
  { payload := some (create (mt * 256 + byteAt m 13) (slice m 16 (beAt m 14 2)))
    ts := beAt m 0 8
    ifId := if mt = 1 then beAt m 8 4 else 0
    vendorId := if mt = 3 ∨ mt = 0xFF then beAt m 10 2 else 0
    flags := byteAt m 12 }

/-- `Packet::getRawMessageHeader` followed by the encoder's `setPayloadLength(len)` and
    `setSegmentType(seg)` -/
def msgHeader (p : Packet) (seg len : Nat) : Bytes :=
  beEnc 8 p.ts ++
  (if p.mt = 1 then beEnc 4 p.ifId
   else if p.mt = 3 ∨ p.mt = 0xFF then [0, 0] ++ beEnc 2 p.vendorId
   else [0, 0, 0, 0]) ++
  [UInt8.ofNat ((p.flags % 256 &&& 0xF3) ||| seg), UInt8.ofNat p.rawType] ++ beEnc 2 len

/-- frame header: version, reserved, device id, message type, stream id, sequence counter -/
def frameHeader (ver dev mt stream seq : Nat) : Bytes :=
  [UInt8.ofNat ver, 0] ++ beEnc 2 dev ++ [UInt8.ofNat mt, UInt8.ofNat stream] ++ beEnc 2 seq

end AsamCmp
