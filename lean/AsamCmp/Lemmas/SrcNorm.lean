/-
  Source-level tie, part 3: normalisation of a translated function body on the memory `pre ++ b ++ post`.

  `src_norm` pushes `bind` through `if`, resolves every read that the accumulated branch conditions prove to be inside `b`
  (side conditions by `omega`), removes `size_t` arithmetic that provably does not wrap, and leaves a tree of `if`s over
  linear conditions with `some _` leaves.  `bool_omega` closes `some x = some y` for Boolean combinations of linear facts.
-/
import AsamCmp.Lemmas.SrcSwap
namespace AsamCmp.SrcTie
open AsamCmp AsamCmp.Src AsamCmp.SrcGen

theorem mem_lt (pre b post : Bytes) (h : (pre ++ b ++ post).length < 2 ^ 64) : b.length < 2 ^ 64 := by
  simp only [List.length_append] at h; omega

theorem bind_ite {α β : Type} (c : Prop) [Decidable c] (a b : Option α) (f : α → Option β) :
    (if c then a else b).bind f = if c then a.bind f else b.bind f := by
  split <;> rfl

/-- a call whose value is known by unfolding (`to_underlying`, whatever its generated name is) -/
theorem bind_of_eq {α β : Type} {x : Option α} {a : α} {f : α → Option β} {r : Option β} (hx : x = some a)
    (hr : f a = r) : x.bind f = r := by
  rw [hx]; exact hr

theorem umod_pos (w x y : Nat) (h : y ≠ 0) : umod w x y = some (x % y) := by
  unfold umod; rw [if_neg h]

theorem and_mod_256 (x c : Nat) (h : c < 256) : (x &&& c) % 256 = x &&& c :=
  Nat.mod_eq_of_lt (Nat.lt_of_le_of_lt Nat.and_le_right h)

/-- `v & m` byte by byte -/
theorem and_split (v m : Nat) : v &&& m = (v % 256 &&& m % 256) + 256 * (v / 256 &&& m / 256) := by
  have h1 := Nat.and_mod_two_pow (a := v) (b := m) (n := 8)
  have h2 := Nat.and_div_two_pow (a := v) (b := m) (n := 8)
  simp only [Nat.reducePow] at h1 h2
  omega

/-- normal form of a translated body; the branch conditions met on the way discharge the side conditions -/
macro "src_norm" : tactic =>
  `(tactic| simp (disch := omega) only [bind, some_bind, none_bind, bind_ite, pure, rd_mid, rd_mid0,
      swap16_leAt, swap32_leAt, swap64_leAt, leAt_one, usub_eq, uadd_eq, umod_pos, ushl_byteAt, or_byteAt, and_mod_256,
      ite_true, ite_false, if_true, if_false, eq_self, Bool.false_eq_true, Bool.true_eq_false, decide_eq_true_eq,
      decide_eq_false_iff_not, Bool.not_eq_true', Bool.not_eq_true, Bool.not_eq_false, Bool.not_true, Bool.not_false,
      Bool.or_eq_true, Bool.and_eq_true, beq_iff_eq, bne_iff_ne, beq_eq_false_iff_ne, bne_eq_false_iff_eq, ne_eq, Decidable.not_not, ge_iff_le, gt_iff_lt,
      Nat.reduceAdd, Nat.reduceSub, Nat.not_lt, Nat.not_le])

/-- a goal `some x = some y` between Boolean combinations of linear facts -/
macro "bool_omega" : tactic =>
  `(tactic| (refine congrArg some (Bool.eq_iff_iff.mpr ?_); simp only [Bool.and_eq_true, Bool.or_eq_true,
      Bool.not_eq_true', Bool.not_eq_true, decide_eq_true_eq, decide_eq_false_iff_not, beq_iff_eq, bne_iff_ne,
      beq_eq_false_iff_ne, bne_eq_false_iff_eq, Bool.false_eq_true, Bool.true_eq_false, ne_eq, false_iff, true_iff,
      iff_false, iff_true] <;> omega))

/-- case split on every remaining `if`, then `bool_omega` -/
macro "src_finish" : tactic => `(tactic| ((repeat' split) <;> bool_omega))

end AsamCmp.SrcTie
