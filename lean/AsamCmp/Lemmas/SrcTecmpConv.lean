/-
  Source-level TECMP path, part 3: `TECMP::Converter`.  For a payload object of each supported kind the translated converter builds
  exactly the ASAM CMP payload bytes and packet fields of the TECMP model (`Tecmp.lean`): the ASAM payload objects are the translated
  constructors, setters and `setData` builders of GeneratedSrc.lean run on the local object's own byte vector.
-/
import AsamCmp.Lemmas.SrcTecmpPayload
import AsamCmp.Props.SrcBuilders
import AsamCmp.Lemmas.TecmpWire
set_option linter.unusedSimpArgs false
set_option linter.unusedVariables false
namespace AsamCmp.SrcTec
open AsamCmp AsamCmp.Src AsamCmp.SrcGen AsamCmp.SrcTie

/-- a packet of the model as the translated source represents it: the scalar members of `ASAM::CMP::Packet` and the owned payload
    (type code, bytes) -/
def tRepr (p : Packet) : TPacket_St :=
  { hdr := { f_version := p.version, f_deviceId := p.deviceId, f_streamId := p.streamId, f_sequenceCounter := p.seq,
             f_timestamp := p.ts, f_interfaceId := p.ifId, f_vendorId := p.vendorId, f_commonFlags := p.flags,
             f_segmentType := p.segType },
    payload := p.payload.map fun pl => (pl.ty, pl.data) }

/-- the packet skeleton `GetPackageFromTecmpHeader` makes of the header bytes `H`, with interface id `ifId` and payload -/
def tpkt (H : Bytes) (ifId : Nat) (pl : Option (Nat × Bytes)) : TPacket_St :=
  { hdr := { Packet_default with f_deviceId := byteAt H 1, f_timestamp := beAt H 16 8, f_interfaceId := ifId }, payload := pl }

theorem getPackage_src (H : Bytes) (hH : 28 ≤ H.length) :
    TECMP_Converter_GetPackageFromTecmpHeader_obj H = some (some (tpkt H (beAt H 12 4) none)) := by
  obtain ⟨_, _, _, _, hdev, hif, hts⟩ := tecmp_header_src H hH
  simp only [TECMP_Converter_GetPackageFromTecmpHeader_obj, hdev, hif, hts, Packet_setDeviceId_obj, Packet_setTimestamp_obj,
    Packet_setInterfaceId_obj, bind, pure, some_bind]
  rfl

/-! ### a TECMP payload object read through its own byte vector (memory = the vector, address 0) -/

theorem own_mem (p : Bytes) : ([] : Bytes) ++ p ++ [] = p := by simp

theorem can_own (p : Bytes) (h64 : p.length < 2 ^ 64) (h5 : 5 ≤ p.length) :
    TECMP_CanPayload_getArbId p 0 p.length 0 = some (beAt p 0 4) ∧
    TECMP_CanPayload_getDlc p 0 p.length 0 = some (byteAt p 4) := by
  have h := tecmp_can_src [] p [] 0 (by simpa using h64) h5
  rw [own_mem] at h
  exact ⟨h.1, h.2.1⟩

theorem can_data_own (p : Bytes) :
    TECMP_CanPayload_getData objBase p.length 0 = some (if 5 < p.length then objBase + 5 else 0) := by
  unfold TECMP_CanPayload_getData
  by_cases h : 5 < p.length <;> simp [h]

theorem can_crc_own (p : Bytes) (h64 : p.length < 2 ^ 64) (h5 : 5 ≤ p.length) :
    TECMP_CanPayload_getCrc p 0 p.length 0 = some (tecmpCanCrc p (byteAt p 4)) := by
  have hd := byteAt_lt p 4
  have hrd : Src.rd p (0 + 4) 1 = some (byteAt p 4) := by rw [rd_eq _ _ _ (by omega), leAt_one]
  simp only [TECMP_CanPayload_getCrc, TECMP_CanPayload_getHeader_v, TECMP_CanPayload_Header_getDlc, swapEndian_u8, hrd, bind, pure,
    some_bind, uadd_eq 5 (byteAt p 4) (by omega), uadd_eq (5 + byteAt p 4) 3 (by omega), tecmpCanCrc, Nat.zero_add]
  by_cases hc : p.length < 5 + byteAt p 4 + 3
  · simp only [hc, decide_true, if_true]
  · simp only [hc, decide_false, Bool.false_eq_true, if_false, cpyToScalar_three p (5 + byteAt p 4) (by omega)]

theorem lin_own (p : Bytes) (h64 : p.length < 2 ^ 64) (h2 : 2 ≤ p.length) :
    TECMP_LinPayload_getPid p 0 p.length 0 = some (byteAt p 0) ∧
    TECMP_LinPayload_getDataLength p 0 p.length 0 = some (byteAt p 1) ∧
    TECMP_LinPayload_getCrc p 0 p.length 0 = some (if p.length ≤ 2 + byteAt p 1 then 0 else byteAt p (2 + byteAt p 1)) := by
  have h := tecmp_lin_src [] p [] 0 (by simpa using h64) h2
  rw [own_mem] at h
  exact ⟨h.1, h.2.1, h.2.2.2⟩

theorem lin_data_own (p : Bytes) : TECMP_LinPayload_getData objBase p.length 0 = some (objBase + 2) := rfl

/-! ### the ASAM CAN / CAN-FD payload object the converter builds -/

theorem canCtor_src : CanPayload_ctor_v_obj = some ⟨zeros 16, 257⟩ := rfl
theorem canFdCtor_src : CanFdPayload_ctor_v_obj = some ⟨zeros 16, 258⟩ := rfl

/-- `setId` on an object whose id word is still 0 -/
theorem can_setId_src (o : Bytes) (id : Nat) (h : 8 ≤ o.length) (hz : leAt o 4 4 = 0) :
    CanPayloadBase_setId o 0 o.length 0 id = some (writeAt o 4 (beEnc 4 id)) := by
  simp only [CanPayloadBase_setId, CanPayloadBase_getHeader_v2, CanPayloadBase_Header_setId, bind, pure, some_bind, Nat.zero_add]
  exact rmw_swap32_zero o 4 _ id (by omega) hz

/-- `CanPayload::setCrc` / `CanFdPayload::setCrc` on an object whose crc word is still 0 -/
theorem can_setCrc_src (o : Bytes) (c : Nat) (h : 12 ≤ o.length) (hz : leAt o 8 4 = 0) :
    CanPayload_setCrc o 0 o.length 0 c = some (writeAt o 8 (beEnc 4 c)) := by
  simp only [CanPayload_setCrc, CanPayloadBase_getHeader_v2, CanPayloadBase_Header_setCrc, bind, pure, some_bind, Nat.zero_add]
  exact rmw_swap32_zero o 8 _ c (by omega) hz

theorem canFd_setCrc_src (o : Bytes) (c : Nat) (h : 12 ≤ o.length) (hz : leAt o 8 4 = 0) :
    CanFdPayload_setCrc o 0 o.length 0 c = some (writeAt o 8 (beEnc 4 c)) := by
  simp only [CanFdPayload_setCrc, CanPayloadBase_getHeader_v2, CanPayloadBase_Header_setCrcSbc, bind, pure, some_bind, Nat.zero_add]
  exact rmw_swap32_zero o 8 _ c (by omega) hz

/-- the object after `setId` and `setData`: the crc word is still 0 -/
theorem canObj_crc_zero (id : Nat) (d : Bytes) :
    12 ≤ (canSetData (writeAt (zeros 16) 4 (beEnc 4 id)) d).length ∧ leAt (canSetData (writeAt (zeros 16) 4 (beEnc 4 id)) d) 8 4 = 0 := by
  constructor
  · simp [canSetData, setTail, resize, writeAt, zeros, beEnc, List.replicate]
  · simp [canSetData, setTail, resize, writeAt, zeros, beEnc, List.replicate, leAt, slice, leDec]

/-! ### `ConvertCanFdPayload` / `ConvertCanPayload` -/

def canData (p : Bytes) : Bytes := slice p 5 (byteAt p 4)
/-- the ASAM CAN object after `setId` and `setData` -/
def canBase (p : Bytes) : Bytes := canSetData (writeAt (zeros 16) 4 (beEnc 4 (beAt p 0 4))) (canData p)

/-- the `memcpy` source `getData()` hands to `setData`: the bytes behind the 5-byte header, or nothing at all (null pointer) when
    the payload ends there — in which case the length byte is 0 -/
theorem can_ext (p : Bytes) (h5 : 5 ≤ p.length) (hd : byteAt p 4 ≤ p.length - 5) :
    byteAt p 4 ≤ (ptrBytes p (if 5 < p.length then objBase + 5 else 0)).length ∧
    (ptrBytes p (if 5 < p.length then objBase + 5 else 0)).take (byteAt p 4) = canData p := by
  unfold canData
  by_cases h : 5 < p.length
  · rw [if_pos h, ptrBytes_off]
    exact ⟨by simp only [List.length_drop]; omega, rfl⟩
  · have h0 : byteAt p 4 = 0 := by omega
    rw [if_neg h, ptrBytes_null, h0, slice_zero]
    exact ⟨by simp, rfl⟩

theorem zeros16_id : leAt (zeros 16) 4 4 = 0 := by decide
theorem zeros16_len : 8 ≤ (zeros 16).length := by decide

theorem convertCanFd_src (p : Bytes) (ty : Nat) (pk : TPacket_St) (h64 : p.length < 2 ^ 64) (h5 : 5 ≤ p.length)
    (hd : byteAt p 4 ≤ p.length - 5) :
    TECMP_Converter_ConvertCanFdPayload_obj (some ⟨p, ty⟩) (some pk) =
      some (some (TPacket_setPayload pk ⟨writeAt (canBase p) 8 (beEnc 4 (tecmpCanCrc p (byteAt p 4))), 258⟩)) := by
  obtain ⟨hx1, hx2⟩ := can_ext p h5 hd
  obtain ⟨hz1, hz2⟩ := canObj_crc_zero (beAt p 0 4) (canData p)
  have hdl := byteAt_lt p 4
  simp only [TECMP_Converter_ConvertCanFdPayload_obj, canFdCtor_src, bind, pure, some_bind, (can_own p h64 h5).1,
    (can_own p h64 h5).2, can_setId_src (zeros 16) (beAt p 0 4) zeros16_len zeros16_id, can_data_own p,
    can_setData_src _ _ 0 (byteAt p 4) hx1 hdl, hx2, can_crc_own p h64 h5]
  rw [show canSetData (writeAt (zeros 16) 4 (beEnc 4 (beAt p 0 4))) (canData p) = canBase p from rfl,
    canFd_setCrc_src (canBase p) _ hz1 hz2]
  rfl

theorem convertCan_src (H p : Bytes) (ty : Nat) (hH : 28 ≤ H.length) (h64 : p.length < 2 ^ 64) (h5 : 5 ≤ p.length)
    (hd : byteAt p 4 ≤ p.length - 5) :
    TECMP_Converter_ConvertCanPayload_obj H (some ⟨p, ty⟩) =
      some (some (tpkt H (beAt H 12 4)
        (some (if byteAt p 4 > 8 then (258, writeAt (canBase p) 8 (beEnc 4 (tecmpCanCrc p (byteAt p 4))))
               else (257, writeAt (canBase p) 8 (beEnc 4 (tecmpCanCrc p (byteAt p 4) % 65536))))))) := by
  obtain ⟨hx1, hx2⟩ := can_ext p h5 hd
  obtain ⟨hz1, hz2⟩ := canObj_crc_zero (beAt p 0 4) (canData p)
  have hdl := byteAt_lt p 4
  have hslt : slt 32 8 (byteAt p 4) = decide (8 < byteAt p 4) := by
    unfold slt; rw [toInt_small 8 (by omega), toInt_small _ (by omega)]; simp only [Int.ofNat_lt]
  simp only [TECMP_Converter_ConvertCanPayload_obj, getPackage_src H hH, bind, pure, some_bind, (can_own p h64 h5).2, hslt]
  by_cases hfd : 8 < byteAt p 4
  · simp only [hfd, decide_true, if_true, convertCanFd_src p ty _ h64 h5 hd, some_bind, gt_iff_lt]
    rfl
  · simp only [hfd, decide_false, Bool.false_eq_true, if_false, canCtor_src, some_bind, (can_own p h64 h5).1,
      can_setId_src (zeros 16) (beAt p 0 4) zeros16_len zeros16_id, can_data_own p,
      can_setData_src _ _ 0 (byteAt p 4) hx1 hdl, hx2, can_crc_own p h64 h5, gt_iff_lt]
    rw [show canSetData (writeAt (zeros 16) 4 (beEnc 4 (beAt p 0 4))) (canData p) = canBase p from rfl,
      can_setCrc_src (canBase p) _ hz1 hz2]
    rfl

/-! ### `convertLinPayload` -/

theorem linCtor_src : LinPayload_ctor_v_obj = some ⟨zeros 8, 259⟩ := rfl

theorem lin_setLinId_src (id : Nat) :
    LinPayload_setLinId (zeros 8) 0 (zeros 8).length 0 id = some (writeAt (zeros 8) 4 [UInt8.ofNat (id &&& 63)]) := by
  have hl : (writeAt (zeros 8) 4 (leEnc 1 0)).length = 8 := by decide
  simp only [LinPayload_setLinId, LinPayload_getHeader_v2, LinPayload_Header_setLinId, bind, pure, some_bind, Nat.zero_add]
  rw [rd_eq _ _ _ (by decide), show leAt (zeros 8) 4 1 = 0 from by decide, some_bind, Nat.zero_and, Nat.zero_mod,
    wr_eq _ _ _ _ (by decide), some_bind, rd_eq _ _ _ (by rw [hl]; omega), some_bind,
    leAt_writeAt_same _ _ _ _ (by decide), Nat.zero_mod, Nat.zero_or, wr_eq _ _ _ _ (by rw [hl]; omega),
    writeAt_writeAt_same _ _ _ _ (by simp [leEnc_length]) (by decide), leEnc_one, u8_ofNat_mod]

theorem lin_setChecksum_src (o : Bytes) (c : Nat) (h : 7 ≤ o.length) :
    LinPayload_setChecksum o 0 o.length 0 c = some (writeAt o 6 [UInt8.ofNat c]) := by
  simp only [LinPayload_setChecksum, LinPayload_getHeader_v2, LinPayload_Header_setChecksum, bind, pure, some_bind, Nat.zero_add]
  rw [wr_eq _ _ _ _ (by omega), leEnc_one]

/-- the ASAM LIN payload object of the model, for the TECMP LIN payload `p` -/
def linObjOf (p : Bytes) : Bytes :=
  linSetData (writeAt (writeAt (zeros 8) 4 [UInt8.ofNat (byteAt p 0 &&& 0x3F)]) 6
      [UInt8.ofNat (if p.length ≤ 2 + byteAt p 1 then 0 else byteAt p (2 + byteAt p 1))]) (slice p 2 (byteAt p 1))

theorem convertLin_src (H p : Bytes) (ty : Nat) (hH : 28 ≤ H.length) (h64 : p.length < 2 ^ 64) (h2 : 2 ≤ p.length)
    (hd : byteAt p 1 ≤ p.length - 2) :
    TECMP_Converter_convertLinPayload_obj H (some ⟨p, ty⟩) = some (some (tpkt H (beAt H 12 4) (some (259, linObjOf p)))) := by
  obtain ⟨hpid, hlen, hcrc⟩ := lin_own p h64 h2
  have hdl := byteAt_lt p 1
  have hx1 : byteAt p 1 ≤ (ptrBytes p (objBase + 2)).length := by rw [ptrBytes_off, List.length_drop]; omega
  have hx2 : (ptrBytes p (objBase + 2)).take (byteAt p 1) = slice p 2 (byteAt p 1) := by rw [ptrBytes_off]; rfl
  have hw : 7 ≤ (writeAt (zeros 8) 4 [UInt8.ofNat (byteAt p 0 &&& 63)]).length := by
    rw [writeAt_length _ _ _ (by simp [zeros])]; decide
  simp only [TECMP_Converter_convertLinPayload_obj, getPackage_src H hH, linCtor_src, bind, pure, some_bind, hpid, hlen, hcrc,
    lin_setLinId_src, lin_setChecksum_src _ _ hw, lin_data_own, lin_setData_src _ _ 0 (byteAt p 1) hx1 hdl, hx2]
  rfl

/-! ### `ConvertCaptureModulePayload` -/

theorem cmCtor_src : CaptureModulePayload_ctor_v_obj = some ⟨zeros 36, 769⟩ := rfl

theorem rd_byte (p : Bytes) (i : Nat) (h : i < p.length) : Src.rd p i 1 = some (byteAt p i) := by
  rw [rd_eq _ _ _ (by omega), leAt_one]

theorem cm_own (p : Bytes) (h18 : 18 ≤ p.length) :
    TECMP_CaptureModulePayload_getSerialNumber p 0 p.length 0 = some (beAt p 8 4) ∧
    TECMP_CaptureModulePayload_getHwVersion p 0 p.length 0 =
      some ([chr 'v'] ++ decimal (byteAt p 16) ++ [chr '.'] ++ decimal (byteAt p 17)) ∧
    TECMP_CaptureModulePayload_getSwVersion p 0 p.length 0 =
      some ([chr 'v'] ++ decimal (byteAt p 13) ++ [chr '.'] ++ decimal (byteAt p 14) ++ [chr '.'] ++ decimal (byteAt p 15)) := by
  have hb : ∀ i, byteAt p i < 2 ^ 31 := fun i => Nat.lt_trans (byteAt_lt p i) (by decide)
  refine ⟨?_, ?_, ?_⟩
  · simp only [TECMP_CaptureModulePayload_getSerialNumber, TECMP_CaptureModulePayload_getHeader_v,
      TECMP_CaptureModulePayload_Header_getSerialNumber, bind, pure, some_bind, Nat.zero_add]
    rw [rd_eq _ _ _ (by omega), some_bind, swap32_leAt _ _ (by omega)]
  · simp only [TECMP_CaptureModulePayload_getHwVersion, TECMP_CaptureModulePayload_getHeader_v,
      TECMP_CaptureModulePayload_Header_getHwVersionMajor, TECMP_CaptureModulePayload_Header_getHwVersionMinor, swapEndian_u8,
      bind, pure, some_bind, Nat.zero_add, Nat.reduceAdd, rd_byte p 16 (by omega), rd_byte p 17 (by omega),
      toStringInt_small _ (hb _)]
    rfl
  · simp only [TECMP_CaptureModulePayload_getSwVersion, TECMP_CaptureModulePayload_getHeader_v,
      TECMP_CaptureModulePayload_Header_getSwVersionMajor, TECMP_CaptureModulePayload_Header_getSwVersionMinor,
      TECMP_CaptureModulePayload_Header_getSwVersionPatch, swapEndian_u8,
      bind, pure, some_bind, Nat.zero_add, Nat.reduceAdd, rd_byte p 13 (by omega), rd_byte p 14 (by omega),
      rd_byte p 15 (by omega), toStringInt_small _ (hb _)]
    rfl

/-- the ASAM capture-module payload object of the model, for the TECMP capture-module payload `p` -/
def cmObjOf (p : Bytes) : Bytes :=
  cmSetData (zeros 36) [] (decimal (beAt p 8 4))
    ([chr 'v'] ++ decimal (byteAt p 16) ++ [chr '.'] ++ decimal (byteAt p 17))
    ([chr 'v'] ++ decimal (byteAt p 13) ++ [chr '.'] ++ decimal (byteAt p 14) ++ [chr '.'] ++ decimal (byteAt p 15)) []

theorem convertCm_src (H p : Bytes) (ty : Nat) (hH : 28 ≤ H.length) (h18 : 18 ≤ p.length) :
    TECMP_Converter_ConvertCaptureModulePayload_obj H (some ⟨p, ty⟩) =
      some (some (tpkt H (beAt H 12 4) (some (769, cmObjOf p)))) := by
  obtain ⟨hser, hhw, hsw⟩ := cm_own p h18
  have hs : (decimal (beAt p 8 4)).length ≤ 10 :=
    C15.decimal_length_le _ 10 (by decide) (Nat.lt_trans (C03.beAt_lt p 8 4) (by decide))
  have hbyte : ∀ i, (decimal (byteAt p i)).length ≤ 3 := fun i =>
    C15.decimal_length_le _ 3 (by decide) (Nat.lt_trans (byteAt_lt p i) (by decide))
  have h13 := hbyte 13; have h14 := hbyte 14; have h15 := hbyte 15; have h16 := hbyte 16; have h17 := hbyte 17
  simp only [TECMP_Converter_ConvertCaptureModulePayload_obj, getPackage_src H hH, cmCtor_src, bind, pure, some_bind, hser, hhw,
    hsw]
  rw [cm_setData_src (zeros 36) [] _ _ _ [] 0 (by simp) (by omega)
    (by simp only [List.length_append, List.length_singleton]; omega)
    (by simp only [List.length_append, List.length_singleton]; omega) (by simp)]
  rfl

/-! ### `ConvertInterfacePayload` -/

theorem ifCtor_src : InterfacePayload_ctor_v_obj = some ⟨zeros 40, 770⟩ := rfl

theorem rd_swap32_own (p : Bytes) (i : Nat) (h : i + 4 ≤ p.length) :
    (Src.rd p i 4).bind swapEndian_u32 = some (beAt p i 4) := rd_swap32 p i h

theorem if_own (q : Bytes) (h24 : 24 ≤ q.length) :
    TECMP_InterfacePayload_getInterfaceId q 0 q.length 0 = some (beAt q 12 4) ∧
    TECMP_InterfacePayload_getMessagesTotal q 0 q.length 0 = some (beAt q 16 4) ∧
    TECMP_InterfacePayload_getErrorsTotal q 0 q.length 0 = some (beAt q 20 4) := by
  refine ⟨?_, ?_, ?_⟩
  · simp only [TECMP_InterfacePayload_getInterfaceId, TECMP_InterfacePayload_getHeader_v,
      TECMP_InterfacePayload_Header_getInterfaceId, bind, pure, some_bind, Nat.zero_add]
    rw [rd_eq _ _ _ (by omega), some_bind, swap32_leAt _ _ (by omega)]
  · simp only [TECMP_InterfacePayload_getMessagesTotal, TECMP_InterfacePayload_getHeader_v,
      TECMP_InterfacePayload_Header_getMessagesTotal, bind, pure, some_bind, Nat.zero_add, Nat.reduceAdd]
    rw [rd_eq _ _ _ (by omega), some_bind, swap32_leAt _ _ (by omega)]
  · simp only [TECMP_InterfacePayload_getErrorsTotal, TECMP_InterfacePayload_getHeader_v,
      TECMP_InterfacePayload_Header_getErrorsTotal, bind, pure, some_bind, Nat.zero_add, Nat.reduceAdd]
    rw [rd_eq _ _ _ (by omega), some_bind, swap32_leAt _ _ (by omega)]

theorem if_setters_src (o : Bytes) (v : Nat) (h : 24 ≤ o.length) :
    InterfacePayload_setInterfaceId o 0 o.length 0 v = some (writeAt o 0 (beEnc 4 v)) ∧
    InterfacePayload_setMsgTotalRx o 0 o.length 0 v = some (writeAt o 4 (beEnc 4 v)) ∧
    InterfacePayload_setErrorsTotalRx o 0 o.length 0 v = some (writeAt o 20 (beEnc 4 v)) := by
  refine ⟨?_, ?_, ?_⟩
  · simp only [InterfacePayload_setInterfaceId, InterfacePayload_getHeader_v2, InterfacePayload_Header_setInterfaceId, bind, pure,
      some_bind]
    exact wr_swap32 o 0 v (by omega)
  · simp only [InterfacePayload_setMsgTotalRx, InterfacePayload_getHeader_v2, InterfacePayload_Header_setMsgTotalRx, bind, pure,
      some_bind, Nat.zero_add]
    exact wr_swap32 o 4 v (by omega)
  · simp only [InterfacePayload_setErrorsTotalRx, InterfacePayload_getHeader_v2, InterfacePayload_Header_setErrorsTotalRx, bind,
      pure, some_bind, Nat.zero_add]
    exact wr_swap32 o 20 v (by omega)

/-- the ASAM interface status payload object of the model, for the TECMP interface payload object `q` (28 bytes) -/
def ifObjOf (q : Bytes) : Bytes :=
  writeAt (writeAt (writeAt (zeros 40) 0 (beEnc 4 (beAt q 12 4))) 4 (beEnc 4 (beAt q 16 4))) 20 (beEnc 4 (beAt q 20 4))

theorem convertIf_src (H q : Bytes) (ty : Nat) (hH : 28 ≤ H.length) (h24 : 24 ≤ q.length) :
    TECMP_Converter_ConvertInterfacePayload_obj H (some ⟨q, ty⟩) =
      some (some (tpkt H (beAt q 12 4) (some (770, ifObjOf q)))) := by
  obtain ⟨hid, hmsg, herr⟩ := if_own q h24
  have l0 : 24 ≤ (zeros 40).length := by decide
  have l1 : 24 ≤ (writeAt (zeros 40) 0 (beEnc 4 (beAt q 12 4))).length := by
    rw [writeAt_length _ _ _ (by simp [zeros])]; decide
  have l2 : 24 ≤ (writeAt (writeAt (zeros 40) 0 (beEnc 4 (beAt q 12 4))) 4 (beEnc 4 (beAt q 16 4))).length := by
    rw [writeAt_length _ _ _ (by rw [beEnc_length]; omega)]; exact l1
  simp only [TECMP_Converter_ConvertInterfacePayload_obj, getPackage_src H hH, ifCtor_src, bind, pure, some_bind, hid, hmsg, herr,
    (if_setters_src _ _ l0).1, (if_setters_src _ _ l1).2.1, (if_setters_src _ _ l2).2.2, Packet_setInterfaceId_obj]
  rfl

/-! ### validity of the packets the converter builds, `ConvertDataPayload`, `ConvertPacket` -/

theorem tpkt_valid (H : Bytes) (i ty : Nat) (o : Bytes) (h : ty = 257 ∨ ty = 258 ∨ ty = 259 ∨ ty = 769 ∨ ty = 770) :
    TPacket_isValid (tpkt H i (some (ty, o))) = some true := by
  rcases h with h | h | h | h | h <;> subst h <;>
    simp only [TPacket_isValid, tpkt, Payload_isValid_obj, PayloadType_isValid, rd_leEnc4, bind, pure, some_bind] <;> decide

theorem convertData_src (H p : Bytes) (x : TECMP_Payload_St) (hH : 28 ≤ H.length) :
    TECMP_Converter_ConvertDataPayload_obj H (some x) =
      if beAt H 6 2 = 2 ∨ beAt H 6 2 = 3 then TECMP_Converter_ConvertCanPayload_obj H (some x)
      else if beAt H 6 2 = 4 then TECMP_Converter_convertLinPayload_obj H (some x) else some none := by
  unfold TECMP_Converter_ConvertDataPayload_obj
  simp only [hdr_dataType H hH, bind, pure, some_bind]
  by_cases hcan : beAt H 6 2 = 2 ∨ beAt H 6 2 = 3
  · have hc : (beAt H 6 2 == 2 || beAt H 6 2 == 3) = true := by simpa using hcan
    simp only [hc, hcan, if_true]
    try (cases TECMP_Converter_ConvertCanPayload_obj H (some x) <;> rfl)
  · have hc : (beAt H 6 2 == 2 || beAt H 6 2 == 3) = false := by simpa using hcan
    simp only [hc, hcan, Bool.false_eq_true, if_false]
    by_cases hlin : beAt H 6 2 = 4
    · have hl : (beAt H 6 2 == 4) = true := by simpa using hlin
      simp only [hl, if_pos hlin, if_true]
      try (cases TECMP_Converter_convertLinPayload_obj H (some x) <;> rfl)
    · have hl : (beAt H 6 2 == 4) = false := by simpa using hlin
      simp only [hl, if_neg hlin, Bool.false_eq_true, if_false, ite_self]

/-- the tail of every branch of `ConvertPacket`: a non-null, valid packet is handed back -/
theorem convert_tail (r : Option (Option TPacket_St)) (H : Bytes) (i ty : Nat) (o : Bytes)
    (hr : r = some (some (tpkt H i (some (ty, o))))) (hty : ty = 257 ∨ ty = 258 ∨ ty = 259 ∨ ty = 769 ∨ ty = 770) :
    (r.bind fun t => (if t.isSome = true then t.bind fun p => TPacket_isValid p else some false).bind
      fun ok => if ok = true then some t else some none) = some (some (tpkt H i (some (ty, o)))) := by
  subst hr
  simp only [some_bind, Option.isSome_some, if_true, tpkt_valid H i ty o hty]

theorem convertPacket_cm (H p : Bytes) (ty : Nat) (hH : 28 ≤ H.length) (hmt : byteAt H 5 = 1) (h18 : 18 ≤ p.length) :
    TECMP_Converter_ConvertPacket_obj H (some ⟨p, ty⟩) = some (some (tpkt H (beAt H 12 4) (some (769, cmObjOf p)))) := by
  unfold TECMP_Converter_ConvertPacket_obj
  simp only [hdr_messageType H hH, hmt, bind, pure, some_bind, beq_self_eq_true, if_true]
  exact convert_tail _ H _ 769 _ (convertCm_src H p ty hH h18) (by decide)

theorem convertPacket_if (H q : Bytes) (ty : Nat) (hH : 28 ≤ H.length) (hmt : byteAt H 5 = 2) (h24 : 24 ≤ q.length) :
    TECMP_Converter_ConvertPacket_obj H (some ⟨q, ty⟩) = some (some (tpkt H (beAt q 12 4) (some (770, ifObjOf q)))) := by
  unfold TECMP_Converter_ConvertPacket_obj
  simp only [hdr_messageType H hH, hmt, bind, pure, some_bind, Nat.reduceBEq, Bool.false_eq_true, if_false, beq_self_eq_true,
    if_true]
  exact convert_tail _ H _ 770 _ (convertIf_src H q ty hH h24) (by decide)

/-- the ASAM payload (type code, bytes) of the model for the TECMP CAN payload `p` -/
def canPl (p : Bytes) : Nat × Bytes :=
  if byteAt p 4 > 8 then (258, writeAt (canBase p) 8 (beEnc 4 (tecmpCanCrc p (byteAt p 4))))
  else (257, writeAt (canBase p) 8 (beEnc 4 (tecmpCanCrc p (byteAt p 4) % 65536)))

theorem convertPacket_can (H p : Bytes) (ty : Nat) (hH : 28 ≤ H.length) (hmt : byteAt H 5 = 3)
    (hdt : beAt H 6 2 = 2 ∨ beAt H 6 2 = 3) (h64 : p.length < 2 ^ 64) (h5 : 5 ≤ p.length) (hd : byteAt p 4 ≤ p.length - 5) :
    TECMP_Converter_ConvertPacket_obj H (some ⟨p, ty⟩) = some (some (tpkt H (beAt H 12 4) (some (canPl p)))) := by
  unfold TECMP_Converter_ConvertPacket_obj
  simp only [hdr_messageType H hH, hmt, bind, pure, some_bind, Nat.reduceBEq, Bool.false_eq_true, if_false, beq_self_eq_true,
    if_true]
  have hc := convertCan_src H p ty hH h64 h5 hd
  have hconv : TECMP_Converter_ConvertDataPayload_obj H (some ⟨p, ty⟩) = some (some (tpkt H (beAt H 12 4) (some (canPl p)))) := by
    rw [convertData_src H p _ hH, if_pos hdt, hc]; rfl
  unfold canPl at hconv ⊢
  by_cases hfd : byteAt p 4 > 8
  · rw [if_pos hfd] at hconv ⊢
    exact convert_tail _ H _ 258 _ hconv (by decide)
  · rw [if_neg hfd] at hconv ⊢
    exact convert_tail _ H _ 257 _ hconv (by decide)

theorem convertPacket_lin (H p : Bytes) (ty : Nat) (hH : 28 ≤ H.length) (hmt : byteAt H 5 = 3)
    (hdt : beAt H 6 2 = 4) (h64 : p.length < 2 ^ 64) (h2 : 2 ≤ p.length) (hd : byteAt p 1 ≤ p.length - 2) :
    TECMP_Converter_ConvertPacket_obj H (some ⟨p, ty⟩) = some (some (tpkt H (beAt H 12 4) (some (259, linObjOf p)))) := by
  unfold TECMP_Converter_ConvertPacket_obj
  simp only [hdr_messageType H hH, hmt, bind, pure, some_bind, Nat.reduceBEq, Bool.false_eq_true, if_false, beq_self_eq_true,
    if_true]
  have hconv : TECMP_Converter_ConvertDataPayload_obj H (some ⟨p, ty⟩) =
      some (some (tpkt H (beAt H 12 4) (some (259, linObjOf p)))) := by
    rw [convertData_src H p _ hH, if_neg (by omega), if_pos hdt, convertLin_src H p ty hH h64 h2 hd]
  exact convert_tail _ H _ 259 _ hconv (by decide)

/-! ### `ConvertPacketsToAsam`: the range-for over the payload objects -/

theorem convert_loop (H : Bytes) (f : Option TECMP_Payload_St → TPacket_St) (a : List (Option TECMP_Payload_St)) :
    ∀ (l : List (Option TECMP_Payload_St)) (acc : List (Option TPacket_St)),
      (∀ x ∈ l, TECMP_Converter_ConvertPacket_obj H x = some (some (f x))) →
      TECMP_Decoder_ConvertPacketsToAsam_loop1 l a H acc = some (acc ++ l.map fun x => some (f x)) := by
  intro l
  induction l with
  | nil => intro acc _; simp [TECMP_Decoder_ConvertPacketsToAsam_loop1]
  | cons x xs ih =>
    intro acc h
    rw [TECMP_Decoder_ConvertPacketsToAsam_loop1]
    simp only [h x (List.mem_cons_self), bind, pure, some_bind, Option.isSome_some, if_true]
    rw [ih _ (fun y hy => h y (List.mem_cons_of_mem _ hy))]
    simp

theorem convertPackets_src (H : Bytes) (f : Option TECMP_Payload_St → TPacket_St) (l : List (Option TECMP_Payload_St))
    (h : ∀ x ∈ l, TECMP_Converter_ConvertPacket_obj H x = some (some (f x))) :
    TECMP_Decoder_ConvertPacketsToAsam_obj l H = some (l.map fun x => some (f x)) := by
  unfold TECMP_Decoder_ConvertPacketsToAsam_obj
  simp only [bind, pure, convert_loop H f l l [] h, some_bind, List.nil_append]

end AsamCmp.SrcTec
