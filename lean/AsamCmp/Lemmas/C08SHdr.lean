/-
  Helper definitions / lemmas for Props/C08S.lean: a second independent frame walker that KEEPS the
  16 message-header bytes (the tiler of Tile.lean keeps only the two segment bits and the body), and
  what it finds on the serialised bytes of a structured frame.
-/
import AsamCmp.Tile
import AsamCmp.Lemmas.TileBytes
import AsamCmp.Lemmas.EncStruct
namespace AsamCmp.C08S
open AsamCmp

/-- the tiler of Tile.lean (`tileMsgs`), keeping (16 header bytes, body) of every message -/
def tileMsgsH : Nat → Bytes → Option (List (Bytes × Bytes))
  | 0, _ => none
  | fuel+1, r =>
    if allZero r then some []
    else if r.length < 16 then none
    else
      let len := beAt r 14 2
      if r.length < 16 + len then none
      else
        match tileMsgsH fuel (r.drop (16 + len)) with
        | none => none
        | some ms => some ((r.take 16, slice r 16 len) :: ms)

/-- the messages of one frame, as (header bytes, body bytes) -/
def tileFrameH (b : Bytes) : Option (List (Bytes × Bytes)) :=
  if b.length < 8 then none else tileMsgsH (b.length + 1) (b.drop 8)

/-- all messages on the wire, in wire order, over all frames -/
def wireMsgs : List Bytes → Option (List (Bytes × Bytes))
  | [] => some []
  | b :: bs =>
    match tileFrameH b, wireMsgs bs with
    | some f, some fs => some (f ++ fs)
    | _, _ => none

/-- the walker with headers sees exactly the messages the tiler of Tile.lean sees (same cuts, same
    bodies; the tiler's segment bits are bits 2-3 of header byte 12) -/
theorem tileMsgsH_tileMsgs : ∀ (fuel : Nat) (r : Bytes),
    (tileMsgsH fuel r).map (fun ms => ms.map fun hb => (⟨byteAt hb.1 12 &&& 0x0C, hb.2⟩ : SMsg)) =
      (tileMsgs fuel r).map (·.1) := by
  intro fuel
  induction fuel with
  | zero => intro r; rfl
  | succ fuel ih =>
    intro r
    unfold tileMsgsH tileMsgs
    by_cases hz : allZero r = true
    · simp [hz]
    · simp only [hz, Bool.false_eq_true, if_false]
      by_cases h16 : r.length < 16
      · simp [h16]
      · simp only [h16, if_false]
        by_cases hl : r.length < 16 + beAt r 14 2
        · simp [hl]
        · simp only [hl, if_false]
          have := ih (r.drop (16 + beAt r 14 2))
          cases h1 : tileMsgsH fuel (r.drop (16 + beAt r 14 2)) with
          | none =>
            rw [h1] at this
            cases h2 : tileMsgs fuel (r.drop (16 + beAt r 14 2)) with
            | none => rfl
            | some x => rw [h2] at this; simp at this
          | some ms =>
            rw [h1] at this
            cases h2 : tileMsgs fuel (r.drop (16 + beAt r 14 2)) with
            | none => rw [h2] at this; simp at this
            | some x =>
              rw [h2] at this
              obtain ⟨ms', pad⟩ := x
              simp only [Option.map_some, Option.some.injEq] at this
              simp only [Option.map_some, List.map_cons, this]
              have hb : byteAt (r.take 16) 12 = byteAt r 12 := by
                unfold byteAt
                rw [List.getD_eq_getElem?_getD, List.getD_eq_getElem?_getD, List.getElem?_take_of_lt (by omega)]
              rw [hb]

/-- the walker on serialised messages followed by `k` zero bytes -/
theorem tileMsgsH_bytes (msgs : List EMsg) (k : Nat)
    (hmsgs : ∀ m ∈ msgs, 1 ≤ m.body.length ∧ m.body.length < 65536 ∧
      (m.seg = 0 ∨ m.seg = 4 ∨ m.seg = 8 ∨ m.seg = 12)) :
    ∀ fuel, msgs.length < fuel →
      tileMsgsH fuel (msgs.flatMap EMsg.bytes ++ zeros k) =
        some (msgs.map (fun m => (msgHeader m.pkt m.seg m.body.length, m.body))) := by
  induction msgs with
  | nil =>
    intro fuel hf
    cases fuel with
    | zero => omega
    | succ fuel => simp [tileMsgsH, allZero_zeros]
  | cons m ms ih =>
    intro fuel hf
    cases fuel with
    | zero => omega
    | succ fuel =>
      have hm := hmsgs m (by simp)
      obtain ⟨h1, h2, h3, h4, h5⟩ := msg_fields m (ms.flatMap EMsg.bytes ++ zeros k) hm.2.1 hm.2.2
      have ih' := ih (fun x hx => hmsgs x (by simp [hx])) fuel (by simp at hf; omega)
      have h6 : (m.bytes ++ (ms.flatMap EMsg.bytes ++ zeros k)).take 16 = msgHeader m.pkt m.seg m.body.length := by
        unfold EMsg.bytes
        rw [List.append_assoc, List.take_left' (by simp)]
      simp only [List.flatMap_cons, List.append_assoc]
      generalize hr : m.bytes ++ (ms.flatMap EMsg.bytes ++ zeros k) = r at *
      unfold tileMsgsH
      have hz : allZero r = false := by
        cases hz : allZero r with
        | false => rfl
        | true =>
          have := beAt_of_allZero r 14 2 hz
          omega
      simp only [hz, Bool.false_eq_true, if_false, h1]
      rw [if_neg (by omega), if_neg (by omega), h4, ih', h3, h6]
      simp

/-- the walker on the serialised bytes of a frame the encoder can build -/
theorem tileFrameH_bytes (min : Nat) (f : EFrame)
    (hmsgs : ∀ m ∈ f.msgs, 1 ≤ m.body.length ∧ m.body.length < 65536 ∧ (m.seg = 0 ∨ m.seg = 4 ∨ m.seg = 8 ∨ m.seg = 12)) :
    tileFrameH (EFrame.bytes min f) = some (f.msgs.map (fun m => (msgHeader m.pkt m.seg m.body.length, m.body))) := by
  have hl : (EFrame.bytes min f).length = max (8 + f.used) min := by
    simp only [EFrame.bytes]
    rw [List.length_append, List.length_append, frameHeader_length, flatMap_bytes_length, zeros_length]
    unfold EFrame.used
    omega
  unfold tileFrameH
  rw [if_neg (by omega)]
  have hd : (EFrame.bytes min f).drop 8 = f.msgs.flatMap EMsg.bytes ++ zeros (min - (8 + f.used)) := by
    simp only [EFrame.bytes]
    rw [List.length_append, frameHeader_length, flatMap_bytes_length, List.append_assoc,
      List.drop_left' (frameHeader_length ..)]
    rfl
  have hfuel : f.msgs.length < (EFrame.bytes min f).length + 1 := by
    have : f.msgs.length ≤ f.used := by
      unfold EFrame.used
      generalize f.msgs = l
      induction l with
      | nil => simp
      | cons m ms ih => simp [EMsg.size]; omega
    omega
  rw [hd, tileMsgsH_bytes f.msgs _ hmsgs _ hfuel]

theorem wireMsgs_bytes (min : Nat) (fs : List EFrame)
    (hmsgs : ∀ f ∈ fs, ∀ m ∈ f.msgs, 1 ≤ m.body.length ∧ m.body.length < 65536 ∧ (m.seg = 0 ∨ m.seg = 4 ∨ m.seg = 8 ∨ m.seg = 12)) :
    wireMsgs (fs.map (EFrame.bytes min)) =
      some ((fs.flatMap (·.msgs)).map (fun m => (msgHeader m.pkt m.seg m.body.length, m.body))) := by
  induction fs with
  | nil => rfl
  | cons f fs ih =>
    simp only [List.map_cons, wireMsgs]
    rw [tileFrameH_bytes min f (hmsgs f (by simp)), ih (fun g hg => hmsgs g (by simp [hg]))]
    simp

/-! ### the prescribed message sequence of one packet -/

/-- cut `d` into consecutive pieces of the given lengths -/
def cut : List Nat → Bytes → List Bytes
  | [], _ => []
  | n :: ns, d => d.take n :: cut ns (d.drop n)

theorem cut_flatten (bs : List Bytes) (rest : Bytes) : cut (bs.map List.length) (bs.flatten ++ rest) = bs := by
  induction bs with
  | nil => rfl
  | cons b bs ih =>
    simp only [List.map_cons, List.flatten_cons, cut, List.append_assoc]
    rw [List.take_left' rfl, List.drop_left' rfl, ih]

/-- the messages the protocol rules prescribe for packet `p` with `cap` bytes behind the frame header, as
    (16 header bytes, body bytes): one per piece of `pieceShape`, EVERY piece carrying the packet's own header
    (timestamp, interface id / vendor id, flags, payload type) with the piece's segment bits and length, and
    the payload bytes cut consecutively -/
def wireOf (cap : Nat) (p : Packet) : List (Bytes × Bytes) :=
  let sh := pieceShape cap p.data.length
  List.zipWith (fun sl body => (msgHeader p sl.1 sl.2, body)) sh (cut (sh.map (·.2)) p.data)

theorem zipWith_hdr (p : Packet) (ms : List EMsg) (h : ∀ m ∈ ms, m.pkt = p) :
    List.zipWith (fun (sl : Nat × Nat) (body : Bytes) => (msgHeader p sl.1 sl.2, body))
        (ms.map fun m => (m.seg, m.body.length)) (ms.map (·.body)) =
      ms.map (fun m => (msgHeader m.pkt m.seg m.body.length, m.body)) := by
  induction ms with
  | nil => rfl
  | cons m ms ih =>
    simp only [List.map_cons, List.zipWith_cons_cons]
    rw [ih (fun x hx => h x (by simp [hx])), h m (by simp)]

theorem pieces_wire (c : Ctx) (hcap : 17 ≤ c.cap) (i : Nat) (p : Packet) (hp : p.data.length < 65536) :
    (pieces c i p).map (fun m => (msgHeader m.pkt m.seg m.body.length, m.body)) = wireOf c.cap p := by
  have h1 := pieces_shape c hcap i p hp
  have h2 := pieces_body c hcap i p hp
  have h3 : ∀ m ∈ pieces c i p, m.pkt = p := fun m hm => (pieces_mem c hcap i p m hm).1
  unfold wireOf
  simp only
  rw [← h1, List.map_map]
  have : ((fun (x : Nat × Nat) => x.2) ∘ fun (m : EMsg) => (m.seg, m.body.length)) = (List.length ∘ fun (m : EMsg) => m.body) := rfl
  rw [this, ← List.map_map]
  have h4 := cut_flatten ((pieces c i p).map (·.body)) []
  rw [List.append_nil, h2] at h4
  rw [h4]
  exact (zipWith_hdr p _ h3).symm

theorem pieces_wires (c : Ctx) (hcap : 17 ≤ c.cap) (ib : List (Nat × Packet))
    (h : ∀ ip ∈ ib, ip.2.data.length < 65536) :
    (ib.flatMap (fun ip => pieces c ip.1 ip.2)).map (fun m => (msgHeader m.pkt m.seg m.body.length, m.body)) =
      (ib.map Prod.snd).flatMap (wireOf c.cap) := by
  induction ib with
  | nil => rfl
  | cons ip ib ih =>
    simp only [List.flatMap_cons, List.map_append, List.map_cons]
    rw [ih (fun x hx => h x (by simp [hx])), pieces_wire c hcap _ _ (h ip (by simp))]

end AsamCmp.C08S
