/-
  Helper lemmas for Props/SrcHistory.lean, decoder side: a bound on the entries of the pending table that IS inductive over a
  history of `decode` calls.  `SrcDec.TableReg` (every stored payload at least 64 KiB away from 2^64 bytes) is what the single-call
  theorem needs, but one call can add up to 65535 bytes to a stored payload, so `TableReg` alone is not re-established by a call.
  `Bd B t` (every stored counter < 2^16, every stored payload ≤ B bytes) is: a call on a buffer of `n` bytes takes `Bd B` to
  `Bd (B + n)` — a stored payload never holds more bytes than the decoder has been handed so far.
-/
import AsamCmp.Props.C17b
namespace AsamCmp.SrcHist
open AsamCmp AsamCmp.C17b

/-- every pending entry: sequence counter within `uint16_t`, at most `B` payload bytes -/
def Bd (B : Nat) (t : Table) : Prop := ∀ x ∈ t, x.2.seq < 65536 ∧ x.2.payload.length ≤ B

theorem bd_nil (B : Nat) : Bd B [] := fun _ h => by cases h

theorem bd_mono {B B' : Nat} {t : Table} (h : Bd B t) (hb : B ≤ B') : Bd B' t :=
  fun x hx => ⟨(h x hx).1, Nat.le_trans (h x hx).2 hb⟩

theorem bd_erase {B : Nat} {t : Table} (k : Ep) (h : Bd B t) : Bd B (t.erase k) :=
  fun x hx => h x (List.mem_filter.mp hx).1

theorem bd_set {B : Nat} {t : Table} (k : Ep) (v : SegPkt) (h : Bd B t) (hv : v.seq < 65536 ∧ v.payload.length ≤ B) :
    Bd B (t.set k v) := by
  intro x hx
  rcases List.mem_cons.mp hx with rfl | hx
  · exact hv
  · exact bd_erase k h x hx

theorem slice_length_le_src (r : Bytes) (off n : Nat) : (slice r off n).length ≤ r.length := by
  simp only [slice, List.length_take, List.length_drop]; omega

/-- the non-first-segment branch of the loop body: the entry is erased, or it was there and grew by one segment body -/
theorem segBlock_cases (k : Ep) (r : Bytes) (ver mt seq : Nat) (t : Table) (acc : List Packet)
    (hok : Ok t) (hv : msgValid r = true) (hver : ver ≠ 0) :
    (segBlock k r ver mt seq t acc).1 = t.erase k ∨
    ∃ sp, t.find k = some sp ∧
      (segBlock k r ver mt seq t acc).1 = t.set k { sp with
        payload := fixLen (sp.payload ++ slice r 16 (beAt r 14 2)),
        seq := (sp.seq + 1) % 65536, segType := byteAt r 12 &&& 0x0C } := by
  cases hf : t.find k with
  | none =>
    left
    unfold segBlock
    rw [index_none t k hf]
    dsimp only
    rw [addSegment_default r ver mt seq hver]
    simp only [Bool.not_false, if_true, erase_set]
  | some sp =>
    have hg := ok_find t k sp hok hf
    have hidx := index_some t k sp hf
    have hadd := addSegment_spec sp r ver mt seq hg hv
    by_cases hc : sp.ver = ver ∧ sp.mt = mt ∧ seq = (sp.seq + 1) % 65536 ∧
        validNext sp.segType (byteAt r 12 &&& 0x0C) = true
    · rw [if_pos hc] at hadd
      by_cases h12 : byteAt r 12 &&& 0x0C = 12
      · left
        unfold segBlock
        rw [hidx]
        dsimp only
        rw [hadd]
        dsimp only
        rw [index_some _ k _ (find_set_same t k _)]
        simp only [Bool.not_true, h12, if_true, erase_set]
        rfl
      · right
        refine ⟨sp, rfl, ?_⟩
        unfold segBlock
        rw [hidx]
        dsimp only
        rw [hadd]
        dsimp only
        rw [index_some _ k _ (find_set_same t k _)]
        simp only [Bool.not_true, h12, if_false]
        rfl
    · rw [if_neg hc] at hadd
      left
      unfold segBlock
      rw [hidx]
      dsimp only
      rw [hadd]
      simp only [Bool.not_false, if_true]

theorem segBlock_bd (k : Ep) (r : Bytes) (ver mt seq : Nat) (t : Table) (acc : List Packet) (B : Nat)
    (hok : Ok t) (hv : msgValid r = true) (hver : ver ≠ 0) (hb : Bd B t) :
    Bd (B + r.length) (segBlock k r ver mt seq t acc).1 := by
  rcases segBlock_cases k r ver mt seq t acc hok hv hver with h | ⟨sp, hf, h⟩
  · rw [h]; exact bd_erase k (bd_mono hb (Nat.le_add_right _ _))
  · rw [h]
    have hg := ok_find t k sp hok hf
    have hsp := hb _ (find_mem t k sp hf)
    apply bd_set k _ (bd_mono hb (Nat.le_add_right _ _))
    refine ⟨Nat.mod_lt _ (by decide), ?_⟩
    show (fixLen (sp.payload ++ slice r 16 (beAt r 14 2))).length ≤ B + r.length
    rw [fixLen_length _ (by rw [List.length_append]; have := hg.2; omega), List.length_append]
    have h1 := slice_length_le_src r 16 (beAt r 14 2)
    have h2 : sp.payload.length ≤ B := hsp.2
    omega

/-- the message loop: from a table within `B`, on a remaining size `cur ≤ L`, the table stays within `B + L` -/
theorem loop_bd (b : Bytes) (dev stream ver mt seq B L : Nat) (hver : ver ≠ 0) (hseq : seq < 65536) :
    ∀ (fuel : Nat) (t : Table) (pos cur : Nat) (acc : List Packet),
      cur ≤ L → Ok t → Bd B t →
      Ok (decodeLoopLL b dev stream ver mt seq fuel t pos cur acc).1 ∧
      Bd (B + L) (decodeLoopLL b dev stream ver mt seq fuel t pos cur acc).1 := by
  intro fuel
  induction fuel with
  | zero => intro t pos cur acc _ hok hb; exact ⟨hok, bd_mono hb (Nat.le_add_right _ _)⟩
  | succ fuel ih =>
    intro t pos cur acc hcur hok hb
    have hb' : Bd (B + L) t := bd_mono hb (Nat.le_add_right _ _)
    by_cases hc : cur = 0
    · subst hc; rw [loop_zero_cur]; exact ⟨hok, hb'⟩
    · rw [loop_succ _ _ _ _ _ _ _ _ _ _ _ hc]
      have hsl : (slice b pos cur).length ≤ cur := by
        simp only [slice, List.length_take]; omega
      by_cases hv : msgValid (slice b pos cur) = true
      · rw [if_neg (by simp [hv])]
        by_cases h0 : byteAt (slice b pos cur) 12 &&& 0x0C = 0
        · rw [if_pos h0]
          exact ih _ _ _ _ (by omega) (ok_erase t _ hok) (bd_erase _ hb)
        · rw [if_neg h0]
          by_cases h4 : byteAt (slice b pos cur) 12 &&& 0x0C = 4
          · rw [if_pos h4]
            have hbnd := C02.msgValid_bound _ hv
            have hmin : Nat.min (slice b pos cur).length (16 + beAt (slice b pos cur) 14 2)
                = 16 + beAt (slice b pos cur) 14 2 := Nat.min_eq_right hbnd
            constructor
            · apply ok_set t _ _ hok
              refine ⟨Or.inl rfl, ?_⟩
              simp only [SegPkt.first, hmin, List.length_take]
              omega
            · apply bd_set _ _ hb'
              refine ⟨hseq, ?_⟩
              simp only [SegPkt.first, List.length_take]
              omega
          · rw [if_neg h4]
            refine ⟨(segBlock_spec _ _ ver mt seq t acc hok hv hver h4).2.2, ?_⟩
            exact bd_mono (segBlock_bd _ _ ver mt seq t acc B hok hv hver hb) (by omega)
      · have hv' : msgValid (slice b pos cur) = false := by simpa using hv
        rw [if_pos (by simp [hv'])]
        exact ⟨ok_erase t _ hok, bd_erase _ hb'⟩

theorem beAt2_lt (b : Bytes) (off : Nat) : beAt b off 2 < 65536 := by
  have h := beDec_lt (slice b off 2)
  have h2 : (slice b off 2).length ≤ 2 := by simp only [slice, List.length_take]; omega
  have : 256 ^ (slice b off 2).length ≤ 256 ^ 2 := Nat.pow_le_pow_right (by decide) h2
  unfold beAt
  omega

/-- one call of the low-level `decode` on a buffer of `n` bytes takes a table within `B` to a table within `B + n`
    (null pointer: `n = 0`) -/
theorem decodeLL_bd (t : Table) (buf : Option Bytes) (B : Nat) (hok : Ok t) (hb : Bd B t) :
    Bd (B + (buf.map List.length).getD 0) (decodeLL t buf).1 := by
  cases buf with
  | none => exact hb
  | some b =>
    have hb' : Bd (B + b.length) t := bd_mono hb (Nat.le_add_right _ _)
    show Bd (B + b.length) (decodeLL t (some b)).1
    unfold decodeLL
    by_cases h8 : b.length < 8
    · simp only [h8, if_true]; exact hb'
    · by_cases h0 : byteAt b 0 = 0
      · simp only [h8, h0, if_true, if_false]; exact hb'
      · simp only [h8, h0, if_false]
        have ht : Ok (if b.length - 8 = 0 then t.erase (beAt b 2 2, byteAt b 5) else t) ∧
            Bd B (if b.length - 8 = 0 then t.erase (beAt b 2 2, byteAt b 5) else t) := by
          split
          · exact ⟨ok_erase t _ hok, bd_erase _ hb⟩
          · exact ⟨hok, hb⟩
        exact (loop_bd b (beAt b 2 2) (byteAt b 5) (byteAt b 0) (byteAt b 4) (beAt b 6 2) B b.length h0 (beAt2_lt b 6)
          _ _ 8 (b.length - 8) [] (by omega) ht.1 ht.2).2

end AsamCmp.SrcHist
