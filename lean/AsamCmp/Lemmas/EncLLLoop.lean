/-
  C07b helper lemmas, part 3: the `while` loop of `putPacket`, `putPacket` itself, the fold over
  the batch and the `encode` call.
-/
import AsamCmp.Lemmas.EncLLSim
namespace AsamCmp.C07b
open AsamCmp

/-! ### the loop, unfolded -/

theorem putLoop_succ (p : Packet) (isSeg : Bool) (fuel : Nat) (l : EncLL) (pos segInd : Nat) :
    EncLL.putLoop p isSeg (fuel + 1) l pos segInd =
      if ¬ pos < p.payloadLength then l else
        let l1 := if l.bytesLeft < 16 then l.addNewCMPFrame p else l
        let n := Nat.min (l1.bytesLeft - 16) (p.payloadLength - pos)
        let flag := EncLL.segFlag isSeg segInd n p.payloadLength pos
        let l2 := llAdd l1 p n flag pos
        let l3 := if flag = 12 then l2.addNewCMPFrame p else l2
        EncLL.putLoop p isSeg fuel l3 (pos + n) (segInd + 1) := rfl

theorem putLoop_done (p : Packet) (isSeg : Bool) (fuel : Nat) (l : EncLL) (pos segInd : Nat)
    (h : ¬ pos < p.payloadLength) : EncLL.putLoop p isSeg fuel l pos segInd = l := by
  cases fuel with
  | zero => rfl
  | succ n => rw [putLoop_succ, if_pos h]

theorem slice_length (d : Bytes) (pos n : Nat) (h : pos + n ≤ d.length) : (slice d pos n).length = n := by
  simp [slice]; omega

theorem left_eq {c : Ctx} {s : Enc} {l : EncLL} (h : R c s l) {f : EFrame} (hcur : s.cur = some f) :
    s.left c = l.bytesLeft := by
  rw [(h.left f hcur).1]; simp [Enc.left, hcur]

/-! ### an unsegmented packet: one iteration -/

theorem loop_unseg {c : Ctx} {s : Enc} {l : EncLL} (h : R c s l) {f : EFrame} (hcur : s.cur = some f)
    (i : Nat) (p : Packet) (hpl : p.payloadLength = p.data.length) (h1 : 1 ≤ p.payloadLength)
    (hfit : 16 + p.payloadLength ≤ c.cap - f.used) :
    R c (s.add ⟨i, p, 0, p.data.take p.payloadLength⟩)
      (EncLL.putLoop p false (p.payloadLength + 1) l 0 0) := by
  obtain ⟨hbl, hu⟩ := h.left f hcur
  have hb16 : ¬ l.bytesLeft < 16 := by omega
  have hn : Nat.min (l.bytesLeft - 16) (p.payloadLength - 0) = p.payloadLength := by
    show min (l.bytesLeft - 16) (p.payloadLength - 0) = p.payloadLength
    omega
  rw [putLoop_succ, if_neg (by omega)]
  simp only [hb16, if_false, hn, EncLL.segFlag, Bool.false_eq_true]
  rw [if_neg (by decide), putLoop_done _ _ _ _ _ _ (by omega)]
  have hs : slice p.data 0 p.payloadLength = p.data.take p.payloadLength := by simp [slice]
  rw [← hs]
  exact add_R h hcur i p p.payloadLength 0 0 hfit (slice_length _ _ _ (by omega))

/-! ### a segmented packet: the iterations follow the chunks -/

/-- the states at the head of an iteration: related as they are, or the low-level frame is full
    and the structured model has already opened the next one -/
def Pre (c : Ctx) (p : Packet) (s : Enc) (l : EncLL) : Prop :=
  (R c s l ∧ ¬ l.bytesLeft < 16) ∨
  (∃ s', R c s' l ∧ NoneNil s' ∧ l.bytesLeft < 16 ∧ s = s'.addNew p)

theorem pre_norm {c : Ctx} (hc : c.ok = true) {p : Packet} {s : Enc} {l : EncLL} (h : Pre c p s l) :
    R c s (if l.bytesLeft < 16 then l.addNewCMPFrame p else l) := by
  rcases h with ⟨h, hb⟩ | ⟨s', h, hn, hb, rfl⟩
  · rw [if_neg hb]; exact h
  · rw [if_pos hb]; exact addNew_R hc p h hn

theorem putSegs_cur (p : Packet) (ms : List EMsg) : ∀ s : Enc, s.cur.isSome → (putSegs s p ms).cur.isSome := by
  induction ms with
  | nil => intro s h; exact h
  | cons m ms ih =>
    intro s _
    rw [putSegs]
    apply ih
    obtain ⟨q, hq⟩ := Enc.addNew_cur (s.add m) p
    rw [hq]; rfl

theorem loop_seg {c : Ctx} (hc : c.ok = true) (p : Packet) (hpl : p.payloadLength = p.data.length) (i : Nat) :
    ∀ (fuel pos segInd : Nat) (first : Bool) (s : Enc) (l : EncLL),
      (first = true ↔ segInd = 0) → pos < p.payloadLength → p.payloadLength - pos ≤ fuel →
      Pre c p s l → (∃ f, s.cur = some f ∧ f.msgs = []) →
      (first = true → c.cap - 16 < p.payloadLength - pos) →
      R c (putSegs s p (segMsgs i p first (chunks (c.cap - 16) (p.data.drop pos))))
        (EncLL.putLoop p true fuel l pos segInd) := by
  obtain ⟨hcap, hmax, hmin⟩ := ok_facts hc
  intro fuel
  induction fuel with
  | zero => intro pos segInd first s l _ hpos hfuel; omega
  | succ fuel ih =>
    intro pos segInd first s l hfirst hpos hfuel hpre ⟨f, hcur, hfm⟩ hmulti
    have hR := pre_norm hc hpre
    generalize hl1 : (if l.bytesLeft < 16 then l.addNewCMPFrame p else l) = l1 at hR
    obtain ⟨hbl, _⟩ := hR.left f hcur
    have hu0 : f.used = 0 := (used_zero_iff f).mpr hfm
    rw [hu0, Nat.sub_zero] at hbl
    have hn0 : 0 < c.cap - 16 := by omega
    have hne : p.data.drop pos ≠ [] := by
      intro e
      have := congrArg List.length e
      simp at this; omega
    -- the chunk of this iteration
    have hchunk : (p.data.drop pos).take (c.cap - 16) =
        slice p.data pos (Nat.min (l1.bytesLeft - 16) (p.payloadLength - pos)) := by
      unfold slice
      rw [List.take_eq_take_min (i := c.cap - 16), hbl, hpl]
      simp only [List.length_drop]
    rw [chunks_cons _ _ hn0 hne, hchunk, List.drop_drop, putLoop_succ, if_neg (by omega)]
    simp only [hl1]
    generalize hn : Nat.min (l1.bytesLeft - 16) (p.payloadLength - pos) = n
    have hnv : n = min (c.cap - 16) (p.payloadLength - pos) := by rw [← hn, hbl]
    have hslen : (slice p.data pos n).length = n := slice_length _ _ _ (by omega)
    by_cases hlast : p.payloadLength - pos ≤ c.cap - 16
    · -- the last chunk
      have hnl : n = p.payloadLength - pos := by omega
      have hf : first = false := by
        cases first with
        | false => rfl
        | true => have := hmulti rfl; omega
      have hsi : segInd ≠ 0 := by
        intro e; have := hfirst.mpr e; rw [hf] at this; cases this
      have hrest : p.data.drop (pos + (c.cap - 16)) = [] := List.drop_eq_nil_of_le (by omega)
      have hflag : EncLL.segFlag true segInd n p.payloadLength pos = 12 := by
        simp [EncLL.segFlag, hsi]; omega
      rw [hrest, chunks_nil, hf, hflag]
      have e : segMsgs i p false [slice p.data pos n] = [⟨i, p, 12, slice p.data pos n⟩] := rfl
      rw [e]
      simp only [putSegs, if_true]
      rw [putLoop_done _ _ _ _ _ _ (by omega)]
      have hadd := add_R hR hcur i p n 12 pos (by rw [hu0]; omega) hslen
      exact addNew_R hc p hadd (add_noneNil s _ (by rw [hcur]; rfl))
    · -- a full chunk, more follow
      have hnl : n = c.cap - 16 := by omega
      have hrest : p.data.drop (pos + (c.cap - 16)) ≠ [] := by
        intro e
        have := congrArg List.length e
        simp at this; omega
      have hcs := chunks_ne_nil (c.cap - 16) hn0 _ hrest
      have hsm : segMsgs i p first (slice p.data pos n :: chunks (c.cap - 16) (p.data.drop (pos + (c.cap - 16)))) =
          ⟨i, p, EncLL.segFlag true segInd n p.payloadLength pos, slice p.data pos n⟩ ::
            segMsgs i p false (chunks (c.cap - 16) (p.data.drop (pos + (c.cap - 16)))) := by
        cases first with
        | true =>
          have : segInd = 0 := hfirst.mp rfl
          simp [segMsgs, EncLL.segFlag, this]
        | false =>
          have hsi : segInd ≠ 0 := by
            intro e; have := hfirst.mpr e; cases this
          rw [segMsgs_false_cons _ _ _ _ hcs]
          have : ¬ pos + n = p.payloadLength := by omega
          simp [EncLL.segFlag, hsi, this]
      have hflag : EncLL.segFlag true segInd n p.payloadLength pos ≠ 12 := by
        have : ¬ pos + n = p.payloadLength := by omega
        simp only [EncLL.segFlag, if_true]
        split
        · omega
        · first | omega | (split <;> omega)
      rw [hsm]
      generalize EncLL.segFlag true segInd n p.payloadLength pos = flag at hflag ⊢
      simp only [putSegs, hflag, if_false]
      have hadd := add_R hR hcur i p n flag pos (by rw [hu0]; omega) hslen
      have hbl2 : (llAdd l1 p n flag pos).bytesLeft < 16 := by
        have := (hadd.left _ (by rw [Enc.add_some s _ f hcur])).1
        rw [this]
        simp [EFrame.used, hfm, EMsg.size, hslen]
        omega
      have hpre' : Pre c p ((s.add ⟨i, p, flag, slice p.data pos n⟩).addNew p) (llAdd l1 p n flag pos) :=
        Or.inr ⟨_, hadd, add_noneNil s _ (by rw [hcur]; rfl), hbl2, rfl⟩
      have := ih (pos + n) (segInd + 1) false _ _ (by simp) (by omega) (by omega) hpre'
        (by
          obtain ⟨q, hq⟩ := Enc.addNew_cur (s.add ⟨i, p, flag, slice p.data pos n⟩) p
          exact ⟨_, hq, rfl⟩)
        (by intro h; cases h)
      rw [hnl] at this ⊢
      exact this

/-! ### one packet -/

theorem isEmpty_frames {c : Ctx} {s : Enc} {l : EncLL} (h : R c s l) (hn : NoneNil s) :
    l.frames.isEmpty = s.cur.isNone := by
  cases hcur : s.cur with
  | none => rw [h.frames, hn hcur, hcur]; rfl
  | some f => rw [h.frames, hcur]; simp

theorem noneNil_of_some {s : Enc} (h : s.cur.isSome) : NoneNil s := by
  intro hc; rw [hc] at h; cases h

theorem st1_R {c : Ctx} (hc : c.ok = true) {s : Enc} {l : EncLL} (p : Packet) (h : R c s l) (hn : NoneNil s) :
    R c (st1 s p) (if l.frames.isEmpty || l.mt != p.mt then l.setMessageType p else l) := by
  rw [isEmpty_frames h hn, h.mt]
  unfold st1
  by_cases hcond : (s.cur.isNone || s.curMt != p.mt) = true
  · rw [if_pos hcond, if_pos hcond]
    unfold EncLL.setMessageType
    refine addNew_R hc p (s := s.retype p.mt) ?_ hn
    exact ⟨h.min, h.max, h.dev, h.stream, h.seqc, rfl, fun _ => rfl, fun t ht => by simp [Enc.retype] at ht,
      h.frames, h.left⟩
  · rw [if_neg hcond, if_neg hcond]; exact h

theorem putPacket_R {c : Ctx} (hc : c.ok = true) {s : Enc} {l : EncLL} (i : Nat) (p : Packet) (hp : p.Enc)
    (h : R c s l) (hn : NoneNil s) :
    R c (putPacket c s (i, p)) (l.putPacket p) ∧ (putPacket c s (i, p)).cur.isSome := by
  obtain ⟨hcap, hmax, hmin⟩ := ok_facts hc
  have hpl : p.payloadLength = p.data.length := hp.plen
  have h1 := st1_R hc p h hn
  have hcur1 := st1_cur s p
  generalize hl1 : (if l.frames.isEmpty || l.mt != p.mt then l.setMessageType p else l) = l1 at h1
  have hn1 : NoneNil (st1 s p) := noneNil_of_some hcur1
  obtain ⟨f1, hf1⟩ : ∃ f, (st1 s p).cur = some f := by
    cases hc1 : (st1 s p).cur with
    | none => rw [hc1] at hcur1; cases hcur1
    | some f => exact ⟨f, rfl⟩
  have hleft1 := left_eq h1 hf1
  have hne1 : l1.frames.isEmpty = false := by
    rw [isEmpty_frames h1 hn1, hf1]; rfl
  -- `checkIfSegmented`
  have hchk : R c (st2 c s p) (l1.checkIfSegmented p).1 ∧
      (l1.checkIfSegmented p).2 = decide ((st2 c s p).left c < 16 + p.payloadLength) := by
    unfold EncLL.checkIfSegmented st2
    simp only [hne1, Bool.not_false, Bool.true_and, ← hleft1]
    by_cases hs : (st1 s p).left c < 16 + p.payloadLength
    · have h2 := addNew_R hc p h1 hn1
      obtain ⟨q, hq⟩ := Enc.addNew_cur (st1 s p) p
      have hne2 : (l1.addNewCMPFrame p).frames.isEmpty = false := by
        rw [isEmpty_frames h2 (addNew_noneNil _ p), hq]; rfl
      have hleft2 := left_eq h2 hq
      simp only [hs, decide_true, if_true, hne2, Bool.not_false, Bool.true_and, ← hleft2]
      exact ⟨h2, trivial⟩
    · simp only [hs, decide_false, if_false, Bool.false_eq_true]
      exact ⟨h1, trivial⟩
  obtain ⟨h2, hr2⟩ := hchk
  have hcur2 := st2_cur c s p
  obtain ⟨f2, hf2⟩ : ∃ f, (st2 c s p).cur = some f := by
    cases hc2 : (st2 c s p).cur with
    | none => rw [hc2] at hcur2; cases hcur2
    | some f => exact ⟨f, rfl⟩
  have hLL : l.putPacket p = EncLL.putLoop p (l1.checkIfSegmented p).2 (p.payloadLength + 1)
      (l1.checkIfSegmented p).1 0 0 := by
    unfold EncLL.putPacket; simp only [hl1]
  rw [hLL, putPacket_eqS, hr2]
  by_cases h0 : p.payloadLength = 0
  · rw [if_pos h0, putLoop_done _ _ _ _ _ _ (by omega)]
    exact ⟨h2, hcur2⟩
  · rw [if_neg h0]
    by_cases hfit : 16 + p.payloadLength ≤ c.cap
    · rw [if_pos hfit]
      have hnseg : ¬ (st2 c s p).left c < 16 + p.payloadLength := by
        unfold st2
        split
        · rw [Enc.addNew_left]; omega
        · assumption
      have hfit2 : 16 + p.payloadLength ≤ c.cap - f2.used := by
        have : (st2 c s p).left c = c.cap - f2.used := by simp [Enc.left, hf2]
        omega
      simp only [hnseg, decide_false]
      refine ⟨loop_unseg h2 hf2 i p hpl (by omega) hfit2, ?_⟩
      rw [Enc.add_some _ _ f2 hf2]; rfl
    · rw [if_neg hfit]
      have hle := Enc.left_le c (st1 s p)
      have e2 : st2 c s p = (st1 s p).addNew p := by
        unfold st2; rw [if_pos (by omega)]
      have hseg : (st2 c s p).left c < 16 + p.payloadLength := by
        rw [e2, Enc.addNew_left]; omega
      simp only [hseg, decide_true]
      rw [e2] at h2
      obtain ⟨q, hq⟩ := Enc.addNew_cur (st1 s p) p
      have hb16 : ¬ (l1.checkIfSegmented p).1.bytesLeft < 16 := by
        rw [← left_eq h2 hq, Enc.addNew_left]; omega
      have hdata : p.data.take p.payloadLength = p.data.drop 0 := by
        rw [hpl, List.take_length]; rfl
      rw [hdata]
      refine ⟨loop_seg hc p hpl i (p.payloadLength + 1) 0 0 true _ _ (by simp) (by omega) (by omega)
        (Or.inl ⟨h2, hb16⟩) ⟨_, hq, rfl⟩ (by intro _; omega), ?_⟩
      apply putSegs_cur
      rw [hq]; rfl

/-! ### the batch -/

theorem foldl_R {c : Ctx} (hc : c.ok = true) : ∀ (ib : List (Nat × Packet)) (s : Enc) (l : EncLL),
    (∀ ip ∈ ib, ip.2.Enc) → R c s l → NoneNil s →
    R c (ib.foldl (putPacket c) s) ((ib.map Prod.snd).foldl EncLL.putPacket l) ∧
      NoneNil (ib.foldl (putPacket c) s) := by
  intro ib
  induction ib with
  | nil => intro s l _ h hn; exact ⟨h, hn⟩
  | cons ip ib ih =>
    intro s l hb h hn
    obtain ⟨i, p⟩ := ip
    obtain ⟨h', hc'⟩ := putPacket_R hc i p (hb (i, p) (by simp)) h hn
    exact ih _ _ (fun x hx => hb x (by simp [hx])) h' (noneNil_of_some hc')

/-! ### device and stream id are never touched -/

theorem addNew_ids (s : Enc) (p : Packet) : (s.addNew p).dev = s.dev ∧ (s.addNew p).stream = s.stream := by
  simp [Enc.addNew]

theorem add_ids (s : Enc) (m : EMsg) : (s.add m).dev = s.dev ∧ (s.add m).stream = s.stream := by
  unfold Enc.add; split <;> exact ⟨rfl, rfl⟩

theorem putSegs_ids (p : Packet) (ms : List EMsg) : ∀ s : Enc,
    (putSegs s p ms).dev = s.dev ∧ (putSegs s p ms).stream = s.stream := by
  induction ms with
  | nil => intro s; exact ⟨rfl, rfl⟩
  | cons m ms ih =>
    intro s
    rw [putSegs]
    obtain ⟨h1, h2⟩ := ih ((s.add m).addNew p)
    obtain ⟨a1, a2⟩ := addNew_ids (s.add m) p
    obtain ⟨b1, b2⟩ := add_ids s m
    exact ⟨by rw [h1, a1, b1], by rw [h2, a2, b2]⟩

theorem st1_ids (s : Enc) (p : Packet) : (st1 s p).dev = s.dev ∧ (st1 s p).stream = s.stream := by
  unfold st1
  split
  · exact addNew_ids (s.retype p.mt) p
  · exact ⟨rfl, rfl⟩

theorem st2_ids (c : Ctx) (s : Enc) (p : Packet) : (st2 c s p).dev = s.dev ∧ (st2 c s p).stream = s.stream := by
  obtain ⟨h1, h2⟩ := st1_ids s p
  unfold st2
  split
  · obtain ⟨a1, a2⟩ := addNew_ids (st1 s p) p
    exact ⟨by rw [a1, h1], by rw [a2, h2]⟩
  · exact ⟨h1, h2⟩

theorem putPacket_ids (c : Ctx) (s : Enc) (ip : Nat × Packet) :
    (putPacket c s ip).dev = s.dev ∧ (putPacket c s ip).stream = s.stream := by
  obtain ⟨i, p⟩ := ip
  obtain ⟨h1, h2⟩ := st1_ids s p
  obtain ⟨g1, g2⟩ := st2_ids c s p
  rw [putPacket_eqS]
  split
  · exact ⟨g1, g2⟩
  · split
    · obtain ⟨b1, b2⟩ := add_ids (st2 c s p) ⟨i, p, 0, p.data.take p.payloadLength⟩
      exact ⟨by rw [b1, g1], by rw [b2, g2]⟩
    · obtain ⟨b1, b2⟩ := putSegs_ids p
        (segMsgs i p true (chunks (c.cap - 16) (p.data.take p.payloadLength))) ((st1 s p).addNew p)
      obtain ⟨a1, a2⟩ := addNew_ids (st1 s p) p
      exact ⟨by rw [b1, a1, h1], by rw [b2, a2, h2]⟩

theorem foldl_ids (c : Ctx) : ∀ (ib : List (Nat × Packet)) (s : Enc),
    (ib.foldl (putPacket c) s).dev = s.dev ∧ (ib.foldl (putPacket c) s).stream = s.stream := by
  intro ib
  induction ib with
  | nil => intro s; exact ⟨rfl, rfl⟩
  | cons ip ib ih =>
    intro s
    obtain ⟨h1, h2⟩ := ih (putPacket c s ip)
    obtain ⟨a1, a2⟩ := putPacket_ids c s ip
    exact ⟨by rw [List.foldl_cons, h1, a1], by rw [List.foldl_cons, h2, a2]⟩

theorem init_R (e : Enc) (c : Ctx) :
    R c ({ e with closed := [], cur := none, tmpl := none } : Enc) (e.toLL.init c) := by
  refine ⟨rfl, rfl, rfl, rfl, rfl, rfl, fun _ => rfl, fun t ht => by simp at ht, rfl, ?_⟩
  intro f hf; simp at hf

/-- the refinement theorem on the level of the lemma files -/
theorem encode_R (e : Enc) (batch : List Packet) (c : Ctx) (hc : c.ok = true) (hb : ∀ p ∈ batch, p.Enc) :
    (e.toLL.encode batch c).2 = (e.encode batch c).2.map (EFrame.bytes c.min) ∧
    (e.toLL.encode batch c).1.seqc = (e.encode batch c).1.seqc ∧
    (e.toLL.encode batch c).1.mt = (e.encode batch c).1.curMt ∧
    (e.toLL.encode batch c).1.dev = e.dev ∧ (e.toLL.encode batch c).1.stream = e.stream ∧
    (e.toLL.encode batch c).1.frames = [] ∧ (e.toLL.encode batch c).1.tmpl = [] := by
  have hib : ∀ ip ∈ (List.range batch.length).zip batch, ip.2.Enc := by
    intro ip hip
    apply hb
    rw [← zip_snd batch]; exact List.mem_map_of_mem hip
  obtain ⟨hR, hn⟩ := foldl_R hc ((List.range batch.length).zip batch) _ _ hib (init_R e c)
    (by intro _; rfl)
  rw [zip_snd] at hR
  have hF := closeLast_R hc hR hn
  have hcur := Enc.closeLast_cur (((List.range batch.length).zip batch).foldl (putPacket c)
    { e with closed := [], cur := none, tmpl := none })
  have hfr := hF.frames
  rw [hcur] at hfr
  simp only [List.append_nil] at hfr
  obtain ⟨hd, hs⟩ := foldl_ids c ((List.range batch.length).zip batch)
    ({ e with closed := [], cur := none, tmpl := none } : Enc)
  refine ⟨hfr, hF.seqc, hF.mt, ?_, ?_, rfl, rfl⟩
  · show (batch.foldl EncLL.putPacket (e.toLL.init c)).closeLastFrame.dev = e.dev
    rw [hF.dev, Enc.closeLast_dev, hd]
  · show (batch.foldl EncLL.putPacket (e.toLL.init c)).closeLastFrame.stream = e.stream
    rw [hF.stream, Enc.closeLast_stream, hs]

end AsamCmp.C07b
