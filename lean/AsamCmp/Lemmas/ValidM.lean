/-
  Helper lemmas for `Props/C02b.lean`: a field read depends only on a prefix of the bytes, every
  builder keeps the prefix it does not own, and the field tables lie inside those prefixes.
-/
import AsamCmp.DecodeM
import AsamCmp.Access
import AsamCmp.Layout
import AsamCmp.Builders
import AsamCmp.Lemmas.DecodeM
import AsamCmp.Lemmas.Access
import AsamCmp.Lemmas.Builders
namespace AsamCmp.C02b
open AsamCmp

theorem getField_of_take (f : Field) (o b : Bytes) (k : Nat) (hk : f.off + f.w ≤ k)
    (h : o.take k = b.take k) : getField f o = getField f b := by
  unfold getField
  rw [C13.beAt_of_take o b k f.off f.w h hk]

/-! ### the prefix a builder does not own -/

theorem can_take (b d : Bytes) (hb : 16 ≤ b.length) : (canSetData b d).take 14 = b.take 14 := by
  rw [C13.canSetData_eq b d hb]
  exact List.take_left' (C13.take_length_of_le b 14 (by omega))

theorem lin_take (b d : Bytes) (hb : 8 ≤ b.length) : (linSetData b d).take 7 = b.take 7 := by
  rw [C13.linSetData_eq b d hb]
  exact List.take_left' (C13.take_length_of_le b 7 (by omega))

theorem eth_take (b d : Bytes) (hb : 6 ≤ b.length) : (ethSetData b d).take 4 = b.take 4 := by
  rw [C13.ethSetData_eq b d hb]
  exact List.take_left' (C13.take_length_of_le b 4 (by omega))

theorem analog_take (b d : Bytes) (hb : 16 ≤ b.length) : (analogSetData b d).take 16 = b.take 16 := by
  rw [C13.analogSetData_eq b d hb]
  exact List.take_left' (C13.take_length_of_le b 16 hb)

theorem cm_take (b s1 s2 s3 s4 v : Bytes) (hb : 26 ≤ b.length) :
    (cmSetData b s1 s2 s3 s4 v).take 26 = b.take 26 := by
  rw [C13.cmSetData_eq b s1 s2 s3 s4 v hb]
  exact List.take_left' (C13.take_length_of_le b 26 hb)

theorem if_take (b ids v : Bytes) (hb : 36 ≤ b.length) : (ifSetData b ids v).take 36 = b.take 36 := by
  rw [C13.ifSetData_eq b ids v hb]
  exact List.take_left' (C13.take_length_of_le b 36 hb)

/-! ### the status / analog tables lie inside the fixed header -/

theorem analog_bound : ∀ f ∈ Layout.c_analog.fields, f.off + f.w ≤ 16 := by decide
theorem cm_bound : ∀ f ∈ Layout.c_cm.fields, f.off + f.w ≤ 26 := by decide
theorem if_bound : ∀ f ∈ Layout.c_if.fields, f.off + f.w ≤ 36 := by decide

/-! ### the plain block walk at a read position -/

theorem blocksOk_zero (r : Bytes) : blocksOk 0 r = true := rfl

theorem blocksOk_succ_drop (n : Nat) (b : Bytes) (pos : Nat) :
    blocksOk (n + 1) (b.drop pos) =
      if b.length - pos < 2 then false
      else if b.length - (pos + 2) < beAt b pos 2 then false
      else blocksOk n (b.drop (pos + 2 + beAt b pos 2)) := by
  have hl : beDec ((b.drop pos).take 2) = beAt b pos 2 := rfl
  simp only [blocksOk, hl, List.length_drop, List.drop_drop]

end AsamCmp.C02b
