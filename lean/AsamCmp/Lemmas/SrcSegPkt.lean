/-
  Helper lemmas for `Props/SrcSegPkt.lean`: the callees of the translated `Decoder::SegmentedPacket` methods on a message `b`
  sitting at address `pre.length` of the memory `pre ++ b ++ post`, and the vector algebra of the reassembly buffer.
-/
import AsamCmp.GeneratedSrcObj
import AsamCmp.DecoderLL
import AsamCmp.Lemmas.SrcBuilders
import AsamCmp.Props.SrcTieDec
namespace AsamCmp.SrcDec
open AsamCmp AsamCmp.Src AsamCmp.SrcGen AsamCmp.SrcTie

/-! ### the message inside the memory -/

theorem drop_mid (pre b post : Bytes) : (pre ++ b ++ post).drop pre.length = b ++ post := by
  rw [List.append_assoc]; exact List.drop_left' rfl

theorem drop_mid16 (pre b post : Bytes) (h16 : 16 ≤ b.length) :
    (pre ++ b ++ post).drop (pre.length + 16) = b.drop 16 ++ post := by
  rw [← List.drop_drop, drop_mid, List.drop_append_of_le_length h16]

theorem slice_app (b post : Bytes) (i w : Nat) (h : i + w ≤ b.length) : slice (b ++ post) i w = slice b i w := by
  have := slice_mid [] b post i w h
  simpa using this

theorem beAt_app (b post : Bytes) (i w : Nat) (h : i + w ≤ b.length) : beAt (b ++ post) i w = beAt b i w := by
  unfold beAt; rw [slice_app b post i w h]

theorem byteAt_app (b post : Bytes) (i : Nat) (h : i < b.length) : byteAt (b ++ post) i = byteAt b i := by
  simp only [byteAt, List.getD_eq_getElem?_getD, List.getElem?_append_left h]

theorem mid_length (pre b post : Bytes) : (pre ++ b ++ post).length = pre.length + b.length + post.length := by
  simp only [List.length_append]

theorem payloadLength_mid (pre b post : Bytes) (h16 : 16 ≤ b.length) :
    MessageHeader_getPayloadLength (pre ++ b ++ post) pre.length = some (beAt b 14 2) := by
  rw [payloadLength_src _ _ (by rw [mid_length]; omega), drop_mid, beAt_app b post 14 2 (by omega)]

theorem segType_mid (pre b post : Bytes) (h16 : 16 ≤ b.length) :
    MessageHeader_getSegmentType (pre ++ b ++ post) pre.length = some (byteAt b 12 &&& 0x0C) := by
  rw [segType_src _ _ (by rw [mid_length]; omega), drop_mid, segTypeOf, byteAt_app b post 12 (by omega)]

/-! ### the callees on the object -/

theorem setPayloadLength_eq (p : Bytes) (v : Nat) (h16 : 16 ≤ p.length) :
    MessageHeader_setPayloadLength p 0 v = some (writeAt p 14 (beEnc 2 v)) := by
  unfold MessageHeader_setPayloadLength
  simp only [bind, swap16_bytes, some_bind, Nat.zero_add]
  rw [wr_eq p 14 2 _ (by omega), leEnc_swap16]

theorem isValid_obj_eq (s : Decoder_SegmentedPacket_St) (t : Nat) :
    Decoder_SegmentedPacket_isValidSegmentType_obj s t = some (s, isValidSegmentTypeLL s.f_segmentType t) := by
  unfold Decoder_SegmentedPacket_isValidSegmentType_obj isValidSegmentTypeLL
  simp only [pure, Bool.or_eq_true, beq_iff_eq]
  split
  · refine congrArg some (congrArg (Prod.mk s) ?_)
    rw [Bool.eq_iff_iff]; simp
  · split
    · refine congrArg some (congrArg (Prod.mk s) ?_)
      rw [Bool.eq_iff_iff]; simp
    · rfl

/-! ### vector algebra of the reassembly buffer -/

theorem resize_nil (k : Nat) : resize [] k = zeros k := by
  unfold resize zeros
  by_cases h : k ≤ ([] : Bytes).length
  · have : k = 0 := by simpa using h
    subst this; rfl
  · rw [if_neg h]; simp

theorem resize_grow (p : Bytes) (n : Nat) : resize p (p.length + n) = p ++ zeros n := by
  unfold resize zeros
  by_cases h : p.length + n ≤ p.length
  · have : n = 0 := by omega
    subst this
    rw [if_pos h]; simp
  · rw [if_neg h]; congr 2; omega

theorem writeAt_zeros (k : Nat) (x : Bytes) (h : x.length = k) : writeAt (zeros k) 0 x = x := by
  unfold writeAt
  rw [List.take_zero, List.nil_append, List.drop_of_length_le (by simp [zeros, h]), List.append_nil]

theorem writeAt_tail (p x : Bytes) (n : Nat) (h : x.length = n) : writeAt (p ++ zeros n) p.length x = p ++ x := by
  unfold writeAt
  rw [List.take_left' rfl, List.drop_of_length_le (by simp [zeros, h]), List.append_nil]

theorem usub_len (L : Nat) : (usub 64 (L % 65536) 16) % 65536 = (L % 65536 + 65536 - 16) % 65536 := by
  unfold usub
  have : (2 : Nat) ^ 64 = 18446744073709551616 := by decide
  rw [this]
  omega

end AsamCmp.SrcDec
