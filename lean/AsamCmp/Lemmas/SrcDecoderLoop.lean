/-
  Source-level decoder, part 3: the translated `while (curSize > 0)` loop and `Decoder::decode` against the low-level model.
-/
import AsamCmp.Lemmas.SrcDecoderMsg
import AsamCmp.Props.SrcTie
namespace AsamCmp.SrcDec
open AsamCmp AsamCmp.Src AsamCmp.SrcGen AsamCmp.SrcTie AsamCmp.C17b

set_option linter.unusedSimpArgs false

/-! ### the non-first-segment branch of the model, by cases -/

theorem segBlock_absent (k : Ep) (r : Bytes) (ver mt seq : Nat) (t : Table) (acc : List Packet)
    (hf : t.find k = none) (hver : ver ≠ 0) : segBlock k r ver mt seq t acc = (t.erase k, acc) := by
  unfold segBlock
  rw [index_none t k hf]
  dsimp only
  rw [addSegment_default r ver mt seq hver]
  simp only [Bool.not_false, if_true, erase_set]

theorem segBlock_found (k : Ep) (r : Bytes) (ver mt seq : Nat) (t : Table) (acc : List Packet) (sp : SegPkt)
    (hf : t.find k = some sp) :
    segBlock k r ver mt seq t acc =
      if (sp.addSegment r ver mt seq).2 = false then (t.erase k, acc)
      else if (sp.addSegment r ver mt seq).1.segType = 12 then
        (t.erase k, acc ++ [{ tagPacket k (sp.addSegment r ver mt seq).1.ver (sp.addSegment r ver mt seq).1.getPacket with
                              version := (sp.addSegment r ver mt seq).1.ver }])
      else (t.set k (sp.addSegment r ver mt seq).1, acc) := by
  unfold segBlock
  rw [index_some t k sp hf]
  dsimp only
  generalize sp.addSegment r ver mt seq = res
  obtain ⟨sp', ok⟩ := res
  cases ok with
  | false => simp only [Bool.not_false, if_true]
  | true =>
    simp only [Bool.not_true, Bool.false_eq_true, if_false, index_some _ k _ (find_set_same t k sp'), erase_set,
      Bool.true_eq_false]

/-! ### table algebra used by the loop -/

theorem index_set (t : Table) (k : Ep) (v : SegPkt) : (t.index k).1.set k v = t.set k v := by
  cases hf : t.find k with
  | none =>
    rw [index_none t k hf]
    show (k, v) :: (t.set k {}).erase k = (k, v) :: t.erase k
    rw [erase_set]
  | some sp => rw [index_some t k sp hf]

theorem tset_set (t : Table) (k : Ep) (v w : SegPkt) : (t.set k v).set k w = t.set k w := by
  show (k, w) :: (t.set k v).erase k = (k, w) :: t.erase k
  rw [erase_set]

/-- after an accepted segment the stored header declares a length that fits the stored bytes: `getPacket` is defined -/
theorem addSegment_fit (sp : SegPkt) (r : Bytes) (ver mt seq : Nat) (hg : GoodEntry sp) (hv : msgValid r = true)
    (hacc : (sp.addSegment r ver mt seq).2 = true) :
    16 ≤ (sp.addSegment r ver mt seq).1.payload.length ∧
    16 + beAt (sp.addSegment r ver mt seq).1.payload 14 2 ≤ (sp.addSegment r ver mt seq).1.payload.length := by
  rw [addSegment_spec sp r ver mt seq hg hv] at hacc ⊢
  split at hacc
  · rename_i hc
    rw [if_pos hc]
    have hl : 16 ≤ (sp.payload ++ slice r 16 (beAt r 14 2)).length := by
      rw [List.length_append]; have := hg.2; omega
    obtain ⟨h1, h2⟩ := C02.fixLen_read _ hl
    show 16 ≤ (fixLen (sp.payload ++ slice r 16 (beAt r 14 2))).length ∧
      16 + beAt (fixLen (sp.payload ++ slice r 16 (beAt r 14 2))) 14 2 ≤
        (fixLen (sp.payload ++ slice r 16 (beAt r 14 2))).length
    rw [h1]
    exact ⟨hl, h2⟩
  · cases hacc

/-! ### the loop -/

/-- **`curSize -= packetSize` never wraps.**  Both are `std::size_t` (the remaining size is no longer narrowed to `int`).
    For a message `r` (the `curSize` remaining bytes) that `Packet::isValidPacket` accepted, the stride
    `packet->getPayloadLength() + sizeof(MessageHeader)` of the packet constructed from it is 16 + the DECLARED length (the
    constructor copies exactly the declared bytes), which the validator guarantees to be at most `curSize`: the unsigned
    subtraction is the true difference, for every `curSize` below 2^64 — no 2^31 bound -/
theorem curSize_sub_no_wrap (r : Bytes) (mt ver dev stream : Nat) (hv : msgValid r = true) (h64 : r.length < 2 ^ 64) :
    uadd 64 (pktPayloadLength
      ({ mt := mt, msg := r.take (16 + beAt r 14 2), version := ver, deviceId := dev, streamId := stream } : PktOut)) 16 =
      beAt r 14 2 + 16 ∧
    beAt r 14 2 + 16 ≤ r.length ∧
    usub 64 r.length (beAt r 14 2 + 16) = r.length - (beAt r 14 2 + 16) := by
  have hb16 := C02.msgValid_bound r hv
  have hlen16 : beAt r 14 2 < 65536 := C03.beAt_two_lt r 14
  refine ⟨?_, by omega, usub_eq _ _ (by omega) h64⟩
  rw [pktLen_take, uadd_eq _ _ (by omega)]

theorem loop_src {F : Type} (b post M : Bytes) (adata asize dataPtr hdr dev stream ver mt seq : Nat)
    (hV : CmpHeader_getVersion M hdr = some ver) (hMT : CmpHeader_getMessageType M hdr = some mt)
    (hSeq : CmpHeader_getSequenceCounter M hdr = some seq) (hver : ver ≠ 0) (hMlen : M.length < 2 ^ 63) :
    ∀ (fuel fuelLL : Nat) (t : Table) (pos : Nat) (outs : List PktOut) (r pre' : Bytes) (pkt : PktOut),
      M = pre' ++ r ++ post → b.drop pos = r → r.length / 16 + 1 ≤ fuel →
      r.length / 16 + 1 ≤ fuelLL → Ok t → Reg t →
      ∃ res, ∃ outs' : List PktOut,
        Decoder_decode_loop1 fuel ⟨tmap t⟩ M adata asize dataPtr (outs.map (Sum.inl : PktOut → PktOut ⊕ F)) hdr dev stream
            pre'.length r.length pkt = some res ∧
        res.1 = ⟨tmap (decodeLoopLL b dev stream ver mt seq fuelLL t pos r.length (outs.map toPkt)).1⟩ ∧
        res.2.1 = outs'.map Sum.inl ∧
        outs'.map toPkt = (decodeLoopLL b dev stream ver mt seq fuelLL t pos r.length (outs.map toPkt)).2 := by
  intro fuel
  induction fuel with
  | zero => intro fuelLL t pos outs r pre' pkt _ _ hf; omega
  | succ fuel ih =>
    intro fuelLL t pos outs r pre' pkt hM hr hfuel hfuelLL hok hreg
    cases fuelLL with
    | zero => omega
    | succ fuelLL =>
      rw [Decoder_decode_loop1]
      by_cases hnil : r.length = 0
      · -- curSize = 0: the loop ends
        rw [hnil, loop_zero_cur]
        simp only [gt_iff_lt, Nat.lt_irrefl, decide_false, Bool.false_eq_true, if_false, pure]
        exact ⟨_, outs, rfl, rfl, rfl, rfl⟩
      · have hpos : 0 < r.length := Nat.pos_of_ne_zero hnil
        have hslice : slice b pos r.length = r := by
          unfold slice; rw [hr, List.take_length]
        have hM64 : (pre' ++ r ++ post).length < 2 ^ 64 := by rw [← hM]; omega
        have hr64 : r.length < 2 ^ 64 := by
          have := hM64; simp only [List.length_append] at this; omega
        have hvp : Packet_isValidPacket M pre'.length r.length = some (msgValid r) := by
          rw [hM]; exact isValidPacket_src pre' r post hM64
        rw [loop_succ _ _ _ _ _ _ _ _ _ _ _ hnil, hslice]
        by_cases hv : msgValid r = true
        · have hb16 := C02.msgValid_bound r hv
          have h16 : 16 ≤ r.length := by omega
          have hc : ¬ (!msgValid r) = true := by rw [hv]; simp
          have hsegd : Decoder_isSegmentedPacket M pre'.length r.length = some ((byteAt r 12 &&& 0x0C) != 0) := by
            rw [hM]; exact isSegmented_mid pre' r post _ h16
          have hfirst : Decoder_isFirstSegment M pre'.length r.length = some ((byteAt r 12 &&& 0x0C) == 4) := by
            rw [hM]; exact isFirstSegment_mid pre' r post _ h16
          have hlen16 : beAt r 14 2 < 65536 := C03.beAt_two_lt r 14
          rw [if_neg hc]
          by_cases h0 : byteAt r 12 &&& 0x0C = 0
          · -- an unsegmented message
            have hmk : mkPacket mt (M.drop pre'.length) = some { mt := mt, msg := r.take (16 + beAt r 14 2) } := by
              rw [hM]; exact mkPacket_mid mt pre' r post hb16
            have hM2 : M = (pre' ++ r.take (16 + beAt r 14 2)) ++ r.drop (16 + beAt r 14 2) ++ post := by
              rw [hM]; simp only [List.append_assoc, List.take_append_drop]
            have hl1 : (pre' ++ r.take (16 + beAt r 14 2)).length = pre'.length + (beAt r 14 2 + 16) := by
              rw [List.length_append, List.length_take]; omega
            have hl2 : (r.drop (16 + beAt r 14 2)).length = r.length - (beAt r 14 2 + 16) := by
              rw [List.length_drop]; omega
            have hdrop : b.drop (pos + (beAt r 14 2 + 16)) = r.drop (16 + beAt r 14 2) := by
              rw [← hr, List.drop_drop]; congr 1; omega
            have hih := ih fuelLL (t.erase (dev, stream)) (pos + (beAt r 14 2 + 16))
              (outs ++ [{ mt := mt, msg := r.take (16 + beAt r 14 2), version := ver, deviceId := dev, streamId := stream }])
              (r.drop (16 + beAt r 14 2)) (pre' ++ r.take (16 + beAt r 14 2))
              { mt := mt, msg := r.take (16 + beAt r 14 2), version := ver, deviceId := dev, streamId := stream }
              hM2 hdrop (by rw [hl2]; omega) (by rw [hl2]; omega) (ok_erase t _ hok)
              (reg_erase t _ hreg)
            rw [hl1, hl2] at hih
            simp only [List.map_append, List.map_singleton, toPkt_unseg] at hih
            obtain ⟨hstride, _, hsub⟩ := curSize_sub_no_wrap r mt ver dev stream hv hr64
            rw [if_pos h0, ofMsg_payloadLength _ _ _ r hv]
            simp only [gt_iff_lt, hpos, decide_true, if_true, hvp, hv, bind, pure,
              some_bind, Bool.not_true, Bool.false_eq_true, if_false, hsegd, h0, bne_self_eq_false, Bool.not_false,
              map_erase, hMT, hmk, hV, hstride, hsub]
            exact hih
          · have hseg1 : ((byteAt r 12 &&& 0x0C) != 0) = true := by simpa using h0
            rw [if_neg h0]
            by_cases h4 : byteAt r 12 &&& 0x0C = 4
            · -- a first segment
              have hctor : Decoder_SegmentedPacket_SegmentedPacket_ctor_obj Decoder_SegmentedPacket_default M
                  pre'.length r.length ver mt seq = some (spSt (SegPkt.first r ver mt seq), ()) := by
                rw [hM]; exact ctor_src _ pre' r post ver mt seq h16 hM64
              rw [if_pos h4]
              simp (disch := omega) only [gt_iff_lt, hpos, decide_true, if_true, hvp, hv, bind,
                pure, some_bind, Bool.not_true, Bool.false_eq_true, if_false, hsegd, hseg1, hfirst, h4, beq_self_eq_true,
                hV, hMT, hSeq, hctor, map_index, map_put, index_set]
              exact ⟨_, outs, rfl, rfl, rfl, rfl⟩
            · -- an intermediary or last segment
              have hfirst0 : ((byteAt r 12 &&& 0x0C) == 4) = false := by simpa using h4
              rw [if_neg h4]
              cases hfind : t.find (dev, stream) with
              | none =>
                have hadd : Decoder_SegmentedPacket_addSegment_obj (spSt {}) M pre'.length r.length ver mt seq =
                    some (spSt {}, false) := addSegment_default_src M _ _ ver mt seq hver
                rw [segBlock_absent _ r ver mt seq t _ hfind hver]
                simp (disch := omega) only [gt_iff_lt, hpos, decide_true, if_true, hvp, hv, bind,
                  pure, some_bind, Bool.not_true, Bool.false_eq_true, if_false, hsegd, hseg1, hfirst, hfirst0,
                  hV, hMT, hSeq, map_index, index_none t _ hfind, hadd, map_put, Bool.not_false, map_erase, erase_set]
                exact ⟨_, outs, rfl, rfl, rfl, rfl⟩
              | some sp =>
                have hg := ok_find t _ sp hok hfind
                have hrg := reg_find t _ sp hreg hfind
                have hadd : Decoder_SegmentedPacket_addSegment_obj (spSt sp) M pre'.length r.length ver mt seq =
                    some (spSt (sp.addSegment r ver mt seq).1, (sp.addSegment r ver mt seq).2) := by
                  rw [hM]; exact addSegment_src sp pre' r post ver mt seq h16 hM64 hg.1 hg.2 hrg.2 hrg.1
                have hfit := addSegment_fit sp r ver mt seq hg hv
                rw [segBlock_found _ r ver mt seq t _ sp hfind]
                generalize sp.addSegment r ver mt seq = X at hadd hfit
                obtain ⟨sp', okb⟩ := X
                cases okb with
                | false =>
                  simp (disch := omega) only [gt_iff_lt, hpos, decide_true, if_true, hvp, hv,
                    bind, pure, some_bind, Bool.not_true, Bool.false_eq_true, if_false, hsegd, hseg1, hfirst, hfirst0,
                    hV, hMT, hSeq, map_index, index_some t _ sp hfind, hadd, map_put, Bool.not_false, map_erase,
                    erase_set]
                  exact ⟨_, outs, rfl, rfl, rfl, rfl⟩
                | true =>
                  obtain ⟨hp16, hpfit⟩ := hfit rfl
                  have hidx : (t.set (dev, stream) sp').index (dev, stream) = (t.set (dev, stream) sp', sp') :=
                    index_some _ _ _ (find_set_same t _ sp')
                  by_cases h12 : sp'.segType = 12
                  · have hasm : (sp'.segType == 12) = true := by simpa using h12
                    simp (disch := omega) only [gt_iff_lt, hpos, decide_true, if_true, hvp, hv,
                      bind, pure, some_bind, Bool.not_true, Bool.false_eq_true, if_false, hsegd, hseg1, hfirst,
                      hfirst0, hV, hMT, hSeq, map_index, index_some t _ sp hfind, hadd, map_put, Bool.not_false,
                      map_erase, erase_set, hidx, isAssembled_src, hasm, h12, tset_set,
                      getPacket_src sp' hp16 hpfit, Bool.true_eq_false]
                    refine ⟨_, outs ++ [(⟨sp'.mt, sp'.payload.take (16 + beAt sp'.payload 14 2), sp'.ver, dev, stream⟩ : PktOut)],
                      rfl, rfl, ?_, ?_⟩
                    · simp only [List.map_append, List.map_singleton]
                    · simp only [List.map_append, List.map_singleton, toPkt_assembled]
                  · have hasm : (sp'.segType == 12) = false := by simpa using h12
                    simp (disch := omega) only [gt_iff_lt, hpos, decide_true, if_true, hvp, hv,
                      bind, pure, some_bind, Bool.not_true, Bool.false_eq_true, if_false, hsegd, hseg1, hfirst,
                      hfirst0, hV, hMT, hSeq, map_index, index_some t _ sp hfind, hadd, map_put, Bool.not_false,
                      map_erase, erase_set, hidx, isAssembled_src, hasm, h12, tset_set, Bool.true_eq_false]
                    exact ⟨_, outs, rfl, rfl, rfl, rfl⟩
        · have hv' : msgValid r = false := by simpa using hv
          have hc : (!msgValid r) = true := by rw [hv']; rfl
          rw [if_pos hc]
          simp only [gt_iff_lt, hpos, decide_true, if_true, hvp, hv', bind, pure, some_bind,
            Bool.not_false, map_erase]
          exact ⟨_, outs, rfl, rfl, rfl, rfl⟩

/-! ### `Decoder::decode` on a CMP frame -/

theorem decode_frame_src {F : Type} (t : Table) (pre b post : Bytes) (fuel : Nat) (ext : Bytes → Nat → Nat → List F)
    (hok : Ok t) (hreg : Reg t) (hpre : 0 < pre.length) (h8 : 8 ≤ b.length) (h0 : byteAt b 0 ≠ 0)
    (hmem : (pre ++ b ++ post).length < 2 ^ 63) (hf : b.length ≤ fuel) :
    ∃ outs : List PktOut, Decoder_decode_obj fuel ⟨tmap t⟩ (pre ++ b ++ post) pre.length b.length ext =
        some (⟨tmap (decodeLL t (some b)).1⟩, outs.map Sum.inl) ∧
      outs.map toPkt = (decodeLL t (some b)).2 := by
  have hM : pre ++ b ++ post = (pre ++ b.take 8) ++ b.drop 8 ++ post := by
    simp only [List.append_assoc, List.take_append_drop]
  have hl1 : (pre ++ b.take 8).length = pre.length + 8 := by
    rw [List.length_append, List.length_take]; omega
  have hl2 : (b.drop 8).length = b.length - 8 := List.length_drop
  have hpre0 : (pre.length == 0) = false := by simpa using Nat.ne_of_gt hpre
  have hb0 : (byteAt b 0 == 0) = false := by simpa using h0
  have hb63 : b.length < 2 ^ 63 := by
    have := hmem; simp only [List.length_append] at this; omega
  have hcur : usub 64 b.length 8 = b.length - 8 := usub_eq _ _ h8 (by omega)
  have hrd : Src.rd (pre ++ b ++ post) pre.length 1 = some (byteAt b 0) := by
    rw [rd_mid0 pre b post 1 (by omega), leAt_one]
  -- the table the loop starts with
  have hloop := fun t' (hok' : Ok t') (hreg' : Reg t') =>
    loop_src (F := F) b post (pre ++ b ++ post) pre.length b.length pre.length pre.length (beAt b 2 2) (byteAt b 5)
      (byteAt b 0) (byteAt b 4) (beAt b 6 2) (getVersion_mid pre b post h8) (getMessageType_mid pre b post h8)
      (getSequenceCounter_mid pre b post h8) h0 hmem fuel ((b.length - 8) / 16 + 2) t' 8 [] (b.drop 8)
      (pre ++ b.take 8) default hM rfl (by rw [hl2]; omega) (by rw [hl2]; omega) hok' hreg'
  unfold Decoder_decode_obj decodeLL
  have hlt8 : ¬ b.length < 8 := by omega
  simp only [hpre0, Bool.false_eq_true, if_false, hlt8, decide_false, bind, pure, hrd, some_bind, hb0,
    getDeviceId_mid pre b post h8, getStreamId_mid pre b post h8, nonneg_one, hcur, Nat.one_mul, h0]
  by_cases hc : b.length - 8 = 0
  · obtain ⟨res, outs', hres, h1, hinl, h2⟩ := hloop (t.erase (beAt b 2 2, byteAt b 5)) (ok_erase t _ hok) (reg_erase t _ hreg)
    rw [hl1, hl2, List.map_nil] at hres
    rw [hl2, List.map_nil] at h1 h2
    have hcb : ((b.length - 8) == 0) = true := by simpa using hc
    simp only [hcb, if_true, map_erase, some_bind, hres]
    rw [if_pos hc]
    refine ⟨outs', ?_, h2⟩
    rw [← h1, ← hinl]
  · obtain ⟨res, outs', hres, h1, hinl, h2⟩ := hloop t hok hreg
    rw [hl1, hl2, List.map_nil] at hres
    rw [hl2, List.map_nil] at h1 h2
    have hcb : ((b.length - 8) == 0) = false := by simpa using hc
    simp only [hcb, Bool.false_eq_true, if_false, some_bind, hres]
    rw [if_neg hc]
    refine ⟨outs', ?_, h2⟩
    rw [← h1, ← hinl]

end AsamCmp.SrcDec
