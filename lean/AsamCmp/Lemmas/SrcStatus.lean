/-
  Source-level status tracker: the vector primitives of the translated methods (Src/Obj.lean: `findIdxD`, `getIdx`, `swapIdx`,
  `nonEmptyL`) against the list operations of the model (Status.lean: `findIdx`, `List.modify`, `swapRemove`), through the map
  that represents the model's records as the translated member records.  Nothing here mentions a translated method.
-/
import AsamCmp.GeneratedSrcObj
import AsamCmp.Status
import AsamCmp.Lemmas.SrcPrim
namespace AsamCmp.SrcSt
open AsamCmp AsamCmp.Src AsamCmp.SrcGen

/-! ### `Option` steps (non-`rfl` restatement, see Lemmas/SrcPrim.lean) -/

theorem some_bind {α β : Type} (a : α) (f : α → Option β) : (some a).bind f = f a := SrcTie.some_bind a f

/-! ### `find_if` + `distance` -/

theorem findIdxD_map {α β : Type} (f : β → Bool) (g : α → β) (l : List α) :
    findIdxD f (l.map g) = findIdx (fun x => f (g x)) l := by
  induction l with
  | nil => rfl
  | cons x xs ih => simp only [List.map_cons, findIdxD, findIdx, ih]

theorem findIdx_le {α : Type} (f : α → Bool) (l : List α) : findIdx f l ≤ l.length := by
  induction l with
  | nil => exact Nat.le_refl 0
  | cons x xs ih =>
    simp only [findIdx, List.length_cons]
    split <;> omega

/-! ### `v[i]`, assignment through `v[i]` -/

theorem getIdx_map {α β : Type} (g : α → β) (l : List α) (i : Nat) (h : i < l.length) :
    getIdx (l.map g) i = some (g l[i]) := by
  simp only [getIdx, List.getElem?_map, List.getElem?_eq_getElem h, Option.map_some]

theorem set_map_eq {α β : Type} (g : α → β) (l : List α) (i : Nat) (x : α) :
    (l.map g).set i (g x) = (l.set i x).map g := List.map_set.symm

theorem modify_eq_set_getElem {α : Type} (f : α → α) (l : List α) (i : Nat) (h : i < l.length) :
    l.modify i f = l.set i (f l[i]) := by
  apply List.ext_getElem?
  intro j
  rw [List.getElem?_modify, List.getElem?_set]
  by_cases hij : i = j
  · subst hij
    simp only [if_true, h, List.getElem?_eq_getElem h, Option.map_eq_map, Option.map_some]
  · simp only [hij, if_false]
    cases l[j]? <;> rfl

/-! ### `std::swap(v[i], v.back()); v.pop_back()` -/

/-- the vector after the swap -/
def swapped {α : Type} (l : List α) (i : Nat) (h : i < l.length) : List α :=
  (l.set i (l[l.length - 1]'(by omega))).set (l.length - 1) l[i]

theorem swapIdx_last {α : Type} (l : List α) (i : Nat) (h : i < l.length) (h64 : l.length < 2 ^ 64) :
    swapIdx l i (usub 64 l.length 1) = some (swapped l i h) := by
  have hl : l.length - 1 < l.length := by omega
  rw [SrcTie.usub_eq _ _ (by omega) h64]
  unfold swapIdx swapped
  rw [List.getElem?_eq_getElem h, List.getElem?_eq_getElem hl]

theorem nonEmptyL_swapped {α : Type} (l : List α) (i : Nat) (h : i < l.length) : nonEmptyL (swapped l i h) = some () := by
  have hlen : (swapped l i h).length = l.length := by simp [swapped]
  unfold nonEmptyL
  cases hs : swapped l i h with
  | nil => rw [hs] at hlen; simp at hlen; omega
  | cons a t => rfl

theorem dropLast_set_last {α : Type} (l : List α) (a : α) : (l.set (l.length - 1) a).dropLast = l.dropLast := by
  rw [List.dropLast_eq_take, List.dropLast_eq_take, List.length_set, List.take_set,
    List.set_eq_of_length_le (by rw [List.length_take]; omega)]

theorem swapRemove_eq {α : Type} (l : List α) (i : Nat) (h : i < l.length) :
    swapRemove l i = (l.set i (l[l.length - 1]'(by omega))).dropLast := by
  unfold swapRemove
  rw [List.getLast?_eq_getElem?, List.getElem?_eq_getElem (by omega)]

theorem dropLast_swapped {α : Type} (l : List α) (i : Nat) (h : i < l.length) :
    (swapped l i h).dropLast = swapRemove l i := by
  have := dropLast_set_last (l.set i (l[l.length - 1]'(by omega))) l[i]
  rw [List.length_set] at this
  rw [swapRemove_eq l i h]
  exact this

theorem swapRemove_map {α β : Type} (g : α → β) (l : List α) (i : Nat) :
    swapRemove (l.map g) i = (swapRemove l i).map g := by
  unfold swapRemove
  rw [List.getLast?_map]
  cases l.getLast? with
  | none => rfl
  | some x => simp only [Option.map_some, List.map_dropLast, List.map_set]

/-- the whole removal on the image of a model list (the vector's size already read through the map) -/
theorem swapPop_map {α β : Type} (g : α → β) (l : List α) (i : Nat) (h : i < l.length) (h64 : l.length < 2 ^ 64) :
    ∃ t, swapIdx (l.map g) i (usub 64 l.length 1) = some t ∧ nonEmptyL t = some () ∧ t.dropLast = (swapRemove l i).map g := by
  have h' : i < (l.map g).length := by rw [List.length_map]; exact h
  refine ⟨swapped (l.map g) i h', ?_, nonEmptyL_swapped _ _ _, ?_⟩
  · have := swapIdx_last (l.map g) i h' (by rw [List.length_map]; exact h64)
    rw [List.length_map] at this
    exact this
  · rw [dropLast_swapped, swapRemove_map]

end AsamCmp.SrcSt
