/-
  Helper lemmas for property C06 (fault model of `AsamCmp/Lemmas/FaultModel.lean`).

  * byte level: `fixLen` rewrites exactly bytes 14–15 with a value that depends only on the length;
  * `localStep` case lemmas (first segment restarts, rejected continuation drops, accepted
    continuation appends);
  * `seq_inj`: counters of a stream of fewer than 2^16 frames are pairwise different;
  * `step_clean`: the exact result of feeding segment `j+1` to an entry holding segments `0..j`;
  * `step_inv`: one step of the automaton on an arbitrary arrived copy keeps `PInv` and only
    delivers `Good` packets;
  * `seg_at`: the frames `i0 .. i0+n-1` after a first segment are the segments of that message.
-/
import AsamCmp.Lemmas.FaultModel
namespace AsamCmp

/-! ### bytes -/

theorem fixLen_eq (buf : Bytes) :
    fixLen buf = buf.take 14 ++ beEnc 2 ((buf.length % 65536 + 65536 - 16) % 65536) ++ buf.drop 16 := by
  simp [fixLen, writeAt]

/-- `fixLen` of a 16-byte header followed by `X` is a 16-byte header followed by `X`; the new
    header agrees with the old one on bytes 0–13 -/
theorem fixLen_hdr (w X : Bytes) (hw : w.length = 16) :
    ∃ w' : Bytes, w'.length = 16 ∧ w'.take 14 = w.take 14 ∧ fixLen (w ++ X) = w' ++ X := by
  refine ⟨w.take 14 ++ beEnc 2 (((w ++ X).length % 65536 + 65536 - 16) % 65536), ?_, ?_, ?_⟩
  · simp [hw]
  · rw [List.take_append_of_le_length (by simp [hw])]
    exact List.take_take.trans (by simp)
  · rw [fixLen_eq, List.take_append_of_le_length (by omega), List.drop_left' hw]

/-- the result of `fixLen` does not depend on bytes 14–15 of the header -/
theorem fixLen_congr (w h X : Bytes) (hw : w.length = 16) (hh : h.length = 16)
    (e : w.take 14 = h.take 14) : fixLen (w ++ X) = fixLen (h ++ X) := by
  rw [fixLen_eq, fixLen_eq, List.take_append_of_le_length (by omega),
    List.take_append_of_le_length (by omega), List.drop_left' hw, List.drop_left' hh, e]
  simp [hw, hh]

theorem byteAt_append_leftF (a b : Bytes) (i : Nat) (h : i < a.length) :
    byteAt (a ++ b) i = byteAt a i := by
  unfold byteAt
  rw [List.getD_eq_getElem?_getD, List.getD_eq_getElem?_getD, List.getElem?_append_left h]

theorem segTypeOf_appendF (a b : Bytes) (h : a.length = 16) : segTypeOf (a ++ b) = segTypeOf a := by
  unfold segTypeOf
  rw [byteAt_append_leftF a b 12 (by omega)]

theorem segCode_cases (k n : Nat) : segCode k n = 4 ∨ segCode k n = 8 ∨ segCode k n = 12 := by
  unfold segCode
  split
  · exact Or.inl rfl
  · split
    · exact Or.inr (Or.inr rfl)
    · exact Or.inr (Or.inl rfl)

theorem segCode_zero (n : Nat) : segCode 0 n = 4 := by simp [segCode]

theorem segCode_succ (k n : Nat) : segCode (k+1) n = if k + 2 = n then 12 else 8 := by
  simp [segCode]

/-! ### `localStep` case by case -/

theorem localStep_unseg (p : Option Pending) (f : PFrame) (h : ∀ m, f.term ≠ .seg m) :
    localStep p f = (none, f.unseg) := by
  unfold localStep
  split
  · rfl
  · rfl
  · next m hm => exact absurd hm (h m)

/-- a first segment always (re)starts the entry -/
theorem localStep_first (p : Option Pending) (f : PFrame) (m : Bytes) (hm : f.term = .seg m)
    (ht : segTypeOf m = 4) :
    localStep p f = (some ⟨m, 4, f.ver, f.mt, f.seq⟩, f.unseg) := by
  unfold localStep
  simp only [hm, ht, if_true]

/-- a continuation with nothing pending is dropped -/
theorem localStep_cont_none (f : PFrame) (m : Bytes) (hm : f.term = .seg m)
    (ht : segTypeOf m ≠ 4) : localStep none f = (none, f.unseg) := by
  unfold localStep
  simp only [hm, ht, if_false, ite_self]

/-- a continuation that does not match the pending entry drops the entry -/
theorem localStep_cont_reject (q : Pending) (f : PFrame) (m : Bytes) (hm : f.term = .seg m)
    (ht : segTypeOf m ≠ 4)
    (hc : ¬ (q.ver = f.ver ∧ q.mt = f.mt ∧ f.seq = (q.seq + 1) % 65536)) :
    localStep (some q) f = (none, f.unseg) := by
  unfold localStep
  simp only [hm, ht, if_false]
  cases f.unseg.isEmpty with
  | false => simp only [Bool.false_eq_true, if_false]
  | true =>
    simp only [if_true]
    rw [if_neg]
    intro h
    exact hc ⟨h.1, h.2.1, h.2.2.1⟩

/-- a matching continuation is appended; a last segment delivers -/
theorem localStep_cont_accept (q : Pending) (f : PFrame) (m : Bytes) (hm : f.term = .seg m)
    (hu : f.unseg = []) (ht : segTypeOf m ≠ 4)
    (h1 : q.ver = f.ver) (h2 : q.mt = f.mt) (h3 : f.seq = (q.seq + 1) % 65536)
    (h4 : validNext q.last (segTypeOf m) = true) :
    localStep (some q) f =
      if segTypeOf m = 12 then
        (none, [tagPacket f.ep q.ver (Packet.ofMsg q.mt (fixLen (q.buf ++ m.drop 16)))])
      else
        (some ⟨fixLen (q.buf ++ m.drop 16), segTypeOf m, q.ver, q.mt, (q.seq + 1) % 65536⟩, []) := by
  unfold localStep
  simp only [hm, ht, if_false, hu, List.isEmpty_nil, if_true, List.nil_append]
  rw [if_pos ⟨h1, h2, h3, h4⟩]

/-! ### counters -/

theorem seq_inj (S : SStream) (i j : Nat) (hi : i < S.N) (hj : j < S.N) (h : S.seq i = S.seq j) :
    i = j := by
  have hN := S.hN
  unfold SStream.seq at h
  omega

theorem seq_succ (S : SStream) (i : Nat) : (S.seq i + 1) % 65536 = S.seq (i + 1) := by
  unfold SStream.seq
  omega

theorem lt_N_of_at (S : SStream) (i : Nat) (x : Sent) (h : S.at_ i = some x) : i < S.N :=
  (S.dom i).1 (by simp [h])

theorem Copy.seq_eq {S : SStream} {g : PFrame} {i : Nat} (h : Copy S g i) : g.seq = S.seq i := by
  cases h <;> rfl

theorem Copy.ep_eq {S : SStream} {g : PFrame} {i : Nat} (h : Copy S g i) : g.ep = S.ep := by
  cases h <;> rfl

theorem acc_zero (S : SStream) (i0 : Nat) (f : SF) (h : S.at_ i0 = some (.segF f)) :
    S.acc i0 0 = f.body := by
  simp [SStream.acc, h]

theorem acc_succ (S : SStream) (i0 j : Nat) (f : SF) (h : S.at_ (i0 + j + 1) = some (.segF f)) :
    S.acc i0 (j + 1) = S.acc i0 j ++ f.body := by
  simp [SStream.acc, h]

/-! ### the exact effect of the next segment on a well-formed entry -/

/-- entry `q` holds segments `0..j` of the message starting at `i0`; the frame carries segment
    `j+1` with the pair the entry remembers.  Then a last segment delivers the expected packet
    (with the entry's pair) and any other one extends the entry. -/
theorem step_clean (S : SStream) (i0 j : Nat) (f0 f : SF) (q : Pending) (ver mt : Nat) (w : Bytes)
    (h0 : S.at_ i0 = some (.segF f0))
    (hf : S.at_ (i0 + j + 1) = some (.segF f)) (hfk : f.k = j + 1) (hfn : f.n = f0.n)
    (hj : j + 1 < f0.n)
    (hw : w.length = 16) (hw14 : w.take 14 = f0.hdr.take 14) (hbuf : q.buf = w ++ S.acc i0 j)
    (hseq : q.seq = S.seq (i0 + j)) (hlast : q.last = segCode j f0.n)
    (hver : q.ver = ver) (hmt : q.mt = mt) :
    ∃ w' : Bytes, w'.length = 16 ∧ w'.take 14 = f0.hdr.take 14 ∧
      localStep (some q) ⟨S.ep, ver, mt, S.seq (i0 + j + 1), [], .seg (f.hdr ++ f.body)⟩ =
        if j + 2 = f0.n then
          (none, [tagPacket S.ep q.ver (Packet.ofMsg q.mt (fixLen (f0.hdr ++ S.acc i0 (f0.n - 1))))])
        else
          (some ⟨w' ++ S.acc i0 (j + 1), segCode (j + 1) f0.n, q.ver, q.mt, S.seq (i0 + j + 1)⟩, []) := by
  have hh := S.hdrOk _ _ hf
  have hh0 := (S.hdrOk _ _ h0).1
  have hty : segTypeOf (f.hdr ++ f.body) = if j + 2 = f0.n then 12 else 8 := by
    rw [segTypeOf_appendF _ _ hh.1, hh.2, hfk, hfn, segCode_succ]
  have hne4 : segTypeOf (f.hdr ++ f.body) ≠ 4 := by
    rw [hty]; split <;> decide
  have hvn : validNext q.last (segTypeOf (f.hdr ++ f.body)) = true := by
    have hl : q.last = 4 ∨ q.last = 8 := by
      rw [hlast]; unfold segCode
      split
      · exact Or.inl rfl
      · rw [if_neg (by omega)]; exact Or.inr rfl
    unfold validNext
    rw [if_pos hl, hty]
    split <;> simp
  have hdrop : (f.hdr ++ f.body).drop 16 = f.body := List.drop_left' hh.1
  have hacc : q.buf ++ f.body = w ++ S.acc i0 (j + 1) := by
    rw [hbuf, acc_succ S i0 j f hf, List.append_assoc]
  obtain ⟨w', hw', hw'14, hfix⟩ := fixLen_hdr w (S.acc i0 (j + 1)) hw
  refine ⟨w', hw', hw'14.trans hw14, ?_⟩
  rw [localStep_cont_accept q _ (f.hdr ++ f.body) rfl rfl hne4 hver hmt
    (by simp only [hseq]; exact (seq_succ S (i0 + j)).symm) hvn]
  rw [hdrop, hacc, hty]
  by_cases hlastseg : j + 2 = f0.n
  · simp only [hlastseg, if_true]
    have : j + 1 = f0.n - 1 := by omega
    rw [this] at *
    rw [fixLen_congr w f0.hdr _ hw hh0 hw14]
  · simp only [hlastseg, if_false]
    rw [hfix, hseq, seq_succ, segCode_succ, if_neg hlastseg]
    simp

/-! ### one step on an arbitrary arrived copy -/

theorem step_inv (S : SStream) (all : List PFrame) (hside : Side S all)
    (p : Option Pending) (hp : PInv S all p) (g : PFrame) (hg : g ∈ all) (i : Nat)
    (hc : Copy S g i) :
    (∀ o ∈ (localStep p g).2, Good S o) ∧ PInv S all (localStep p g).1 := by
  cases hc with
  | unseg i pkts t ver mt h =>
    rw [localStep_unseg _ _ (S.unsegT i pkts t h)]
    refine ⟨?_, trivial⟩
    intro o ho
    exact Or.inl ⟨i, pkts, t, h, ho⟩
  | seg i f ver mt h =>
    have hh := S.hdrOk i f h
    have hkn := S.kn i f h
    have hty : segTypeOf (f.hdr ++ f.body) = segCode f.k f.n := by
      rw [segTypeOf_appendF _ _ hh.1, hh.2]
    by_cases hk : f.k = 0
    · -- a first segment restarts the entry
      rw [localStep_first p _ (f.hdr ++ f.body) rfl (by rw [hty, hk, segCode_zero])]
      refine ⟨(by intro o ho; cases ho), ?_⟩
      exact ⟨i, f, 0, f, _, hg, Copy.seg i f ver mt h, rfl, rfl, h, hk, h, rfl, hk, rfl,
        by omega, ⟨f.hdr, hh.1, rfl, by rw [acc_zero S i f h]⟩, rfl, (segCode_zero f.n).symm⟩
    · have hne4 : segTypeOf (f.hdr ++ f.body) ≠ 4 := by
        rw [hty]; unfold segCode; rw [if_neg hk]; split <;> decide
      cases p with
      | none =>
        rw [localStep_cont_none _ (f.hdr ++ f.body) rfl hne4]
        exact ⟨(by intro o ho; cases ho), trivial⟩
      | some q =>
        by_cases hcnd : q.ver = ver ∧ q.mt = mt ∧ S.seq i = (q.seq + 1) % 65536
        · obtain ⟨i0, f0, j, fj, g0, hg0, hc0, hqv, hqm, h0, hk0, hj, hju, hjk, hjn, hjlt,
            ⟨w, hw, hw14, hbuf⟩, hseq, hlast⟩ := hp
          obtain ⟨f', hf', hu', hk', hn', _, _⟩ := S.next (i0 + j) fj hj (by omega)
          have hi : i = i0 + j + 1 := by
            apply seq_inj S i (i0 + j + 1) (lt_N_of_at S i _ h) (lt_N_of_at S _ _ hf')
            rw [hcnd.2.2, hseq, seq_succ]
          subst hi
          have hff : f' = f := by
            have := hf'.symm.trans h
            injection this with this
            injection this
          subst hff
          have hfk : f'.k = j + 1 := by omega
          have hfn : f'.n = f0.n := by omega
          have hpair := hside g0 hg0 _ hg i0 (i0 + j + 1) f0 f' hc0 (Copy.seg _ f' ver mt h) h0 h
            (by omega) (by omega) (hqv.symm.trans hcnd.1) (hqm.symm.trans hcnd.2.1)
          obtain ⟨w', hw', hw'14, heq⟩ := step_clean S i0 j f0 f' q ver mt w h0 h hfk hfn hjlt hw hw14
            hbuf hseq hlast hcnd.1 hcnd.2.1
          rw [heq]
          by_cases hl : j + 2 = f0.n
          · rw [if_pos hl]
            refine ⟨?_, trivial⟩
            intro o ho
            simp only [List.mem_singleton] at ho
            refine Or.inr ⟨i0, f0, h0, hk0, ?_⟩
            rw [ho, SStream.expected, hqv, hqm, hpair.1, hpair.2]
          · rw [if_neg hl]
            refine ⟨(by intro o ho; cases ho), ?_⟩
            exact ⟨i0, f0, j + 1, f', g0, hg0, hc0, hqv, hqm, h0, hk0, h, by omega, hfk, hfn,
              by omega, ⟨w', hw', hw'14, rfl⟩, rfl, rfl⟩
        · rw [localStep_cont_reject q _ (f.hdr ++ f.body) rfl hne4 hcnd]
          exact ⟨(by intro o ho; cases ho), trivial⟩

/-! ### the frames after a first segment -/

theorem seg_at (S : SStream) (i0 : Nat) (f0 : SF) (h0 : S.at_ i0 = some (.segF f0)) (hk : f0.k = 0) :
    ∀ j, j < f0.n → ∃ fj, S.at_ (i0 + j) = some (.segF fj) ∧ fj.uid = f0.uid ∧ fj.k = j ∧
      fj.n = f0.n ∧ fj.ver = f0.ver ∧ fj.mt = f0.mt := by
  intro j
  induction j with
  | zero => intro _; exact ⟨f0, h0, rfl, hk, rfl, rfl, rfl⟩
  | succ j ih =>
    intro hj
    obtain ⟨fj, hfj, hu, hkj, hn, hv, hm⟩ := ih (by omega)
    obtain ⟨g, hg, gu, gk, gn, gv, gm⟩ := S.next (i0 + j) fj hfj (by omega)
    exact ⟨g, hg, gu.trans hu, by omega, gn.trans hn, gv.trans hv, gm.trans hm⟩

end AsamCmp
