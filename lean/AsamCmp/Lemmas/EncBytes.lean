/-
  Helper lemmas for Props/C09b.lean: the serialised frame as header ++ tail, the read-backs of the
  header bytes (each under just the range hypothesis it needs) and the effect of changing the
  sequence counter on the bytes.
-/
import AsamCmp.EncHist
import AsamCmp.Lemmas.WalkBytes
namespace AsamCmp.C09b
open AsamCmp

/-- what follows the 8 header bytes: the messages and the zero padding -/
def ftail (min : Nat) (f : EFrame) : Bytes :=
  f.msgs.flatMap EMsg.bytes ++ zeros (min - (8 + (f.msgs.flatMap EMsg.bytes).length))

theorem bytes_eq (min : Nat) (f : EFrame) :
    EFrame.bytes min f = frameHeader f.ver f.dev f.mt f.stream f.seq ++ ftail min f := by
  simp only [EFrame.bytes, ftail, List.length_append, frameHeader_length, List.append_assoc]

theorem ftail_seq (min : Nat) (f : EFrame) (q : Nat) : ftail min { f with seq := q } = ftail min f := rfl

theorem bytes_length_ge (min : Nat) (f : EFrame) : 8 ≤ (EFrame.bytes min f).length := by
  rw [bytes_eq, List.length_append, frameHeader_length]
  omega

theorem byte0 (min : Nat) (f : EFrame) : byteAt (EFrame.bytes min f) 0 = f.ver % 256 := by
  rw [bytes_eq]
  exact (C01.parse_fields f.ver f.dev f.mt f.stream f.seq (ftail min f)).1

theorem byte1 (min : Nat) (f : EFrame) : byteAt (EFrame.bytes min f) 1 = 0 := by
  have e : EFrame.bytes min f = [UInt8.ofNat f.ver] ++ (0 : UInt8) ::
      (beEnc 2 f.dev ++ [UInt8.ofNat f.mt, UInt8.ofNat f.stream] ++ beEnc 2 f.seq ++ ftail min f) := by
    rw [bytes_eq]
    simp [frameHeader]
  rw [e, byteAt_mid _ _ _ 1 rfl]
  rfl

theorem word2 (min : Nat) (f : EFrame) : beAt (EFrame.bytes min f) 2 2 = f.dev % 65536 := by
  rw [bytes_eq]
  exact (C01.parse_fields f.ver f.dev f.mt f.stream f.seq (ftail min f)).2.1

theorem byte4 (min : Nat) (f : EFrame) : byteAt (EFrame.bytes min f) 4 = f.mt % 256 := by
  rw [bytes_eq]
  exact (C01.parse_fields f.ver f.dev f.mt f.stream f.seq (ftail min f)).2.2.1

theorem byte5 (min : Nat) (f : EFrame) : byteAt (EFrame.bytes min f) 5 = f.stream % 256 := by
  rw [bytes_eq]
  exact (C01.parse_fields f.ver f.dev f.mt f.stream f.seq (ftail min f)).2.2.2.1

theorem word6 (min : Nat) (f : EFrame) : beAt (EFrame.bytes min f) 6 2 = f.seq % 65536 := by
  rw [bytes_eq]
  exact (C01.parse_fields f.ver f.dev f.mt f.stream f.seq (ftail min f)).2.2.2.2.1

/-- overwriting the middle part of a byte string -/
theorem writeAt_mid (pre old post x : Bytes) (off : Nat) (h1 : pre.length = off)
    (h2 : old.length = x.length) : writeAt (pre ++ old ++ post) off x = pre ++ x ++ post := by
  unfold writeAt
  simp only [List.append_assoc]
  rw [List.take_left' h1, ← List.drop_drop, List.drop_left' h1, List.drop_left' h2]

/-- only bytes 6..7 depend on the sequence counter -/
theorem bytes_set_seq (min : Nat) (f : EFrame) (q : Nat) :
    EFrame.bytes min { f with seq := q } = writeAt (EFrame.bytes min f) 6 (beEnc 2 q) := by
  rw [bytes_eq, bytes_eq, ftail_seq]
  simp only [frameHeader]
  rw [writeAt_mid _ (beEnc 2 f.seq) _ (beEnc 2 q) 6 (by simp) (by simp)]

/-- serialising shifted frames = patching bytes 6..7 of the serialised frames -/
theorem shift_bytes (min k : Nat) (fs : List EFrame) :
    (shiftSeq k fs).map (EFrame.bytes min) =
      (fs.map (EFrame.bytes min)).map
        (fun b => writeAt b 6 (beEnc 2 ((beAt b 6 2 + k) % 65536))) := by
  unfold shiftSeq
  rw [List.map_map, List.map_map]
  apply List.map_congr_left
  intro f _
  simp only [Function.comp]
  rw [bytes_set_seq, word6, Nat.mod_add_mod]

end AsamCmp.C09b
