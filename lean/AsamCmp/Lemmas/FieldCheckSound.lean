/-
  A passed check means what `Acc.Holds` says (from the soundness of the symbolic evaluation, Lemmas/BitProgSound.lean).
-/
import AsamCmp.Src.FieldCheck
import AsamCmp.Lemmas.BitProgSound
namespace AsamCmp.Src.Bit
open AsamCmp AsamCmp.Src

theorem Acc.sound (size : Nat) (f : Field) (a : Acc) (h : a.check size f = true) : a.Holds size f := by
  cases a with
  | get p sh =>
    intro M this hM
    exact chkGet_sound p.1 size p.2 f sh h M this hM
  | getNe0 p =>
    intro M this hM
    exact chkGetNe0_sound p.1 size p.2 f h M this hM
  | set p k sh =>
    intro M this hM args v hv hk ho
    exact chkSet_sound p.1 size f k sh h M this hM args v hv hk ho
  | setConst p c =>
    intro M this hM
    simp only [Acc.check, Bool.and_eq_true, decide_eq_true_eq] at h
    exact chkSetConst_sound p.1 size f c h.1 h.2 M this hM

/-- a class whose entries all pass: every entry names a field of the protocol table and its accessor does, on every memory,
    exactly what the table says -/
theorem classCheck_sound (c : ClassLayout) (es : List Entry) (h : classCheck c es = true) :
    ∀ e ∈ es, ∃ f, c.find e.field = some f ∧ e.acc.Holds c.size f := by
  intro e he
  unfold classCheck at h
  rw [List.all_eq_true] at h
  have := h e he
  split at this
  · next f hf => exact ⟨f, hf, Acc.sound c.size f e.acc this⟩
  · exact absurd this (by simp)

end AsamCmp.Src.Bit
