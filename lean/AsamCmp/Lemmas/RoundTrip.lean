/-
  C01, layer 2: the frames of one `encode` call, decoded by the single-endpoint automaton,
  give back the packets of the batch.
-/
import AsamCmp.Lemmas.WalkBytes
import AsamCmp.Lemmas.EncStruct
import AsamCmp.Props.C05
import AsamCmp.Props.C07
import AsamCmp.Props.C09
import AsamCmp.Props.C10
namespace AsamCmp.C01
open AsamCmp

/-! ### what the decoder needs of the frame list -/

/-- the packet the decoder delivers for `p` (flags still carry the segment bits `seg`) -/
def dec (dev stream v : Nat) (p : Packet) (seg : Nat) : Packet :=
  tagPacket (dev, stream) v (obsRaw p seg)

structure MsgOk (m : EMsg) : Prop where
  wf : m.pkt.WF
  len : m.body.length < 65536
  seg : m.seg = 0 ∨ m.seg = 4 ∨ m.seg = 8 ∨ m.seg = 12
  whole : m.seg = 0 → m.body = m.pkt.data

structure FrOk (dev stream v : Nat) (f : EFrame) : Prop extends HdrOk dev stream v f where
  ne : f.msgs ≠ []
  alone : (∀ m ∈ f.msgs, m.seg = 0) ∨ f.msgs.length = 1
  mts : ∀ m ∈ f.msgs, m.pkt.mt = f.mt
  msgs : ∀ m ∈ f.msgs, MsgOk m

/-- consecutive sequence counters -/
def Chain : List EFrame → Prop
  | f1 :: f2 :: r => f2.seq = (f1.seq + 1) % 65536 ∧ Chain (f2 :: r)
  | _ => True

def GoodL (dev stream v : Nat) (fs : List EFrame) : Prop :=
  (∀ f ∈ fs, FrOk dev stream v f) ∧ Chain fs

theorem Chain.tail {f : EFrame} {fs : List EFrame} (h : Chain (f :: fs)) : Chain fs := by
  cases fs with
  | nil => trivial
  | cons g r => exact h.2

theorem GoodL.tail {dev stream v : Nat} {f : EFrame} {fs : List EFrame} (h : GoodL dev stream v (f :: fs)) :
    GoodL dev stream v fs :=
  ⟨fun g hg => h.1 g (by simp [hg]), h.2.tail⟩

/-- dropping the first message of the first frame (or the frame, if it was the only one) -/
theorem GoodL.dropMsg {dev stream v : Nat} {f : EFrame} {fs : List EFrame} {m : EMsg} {ms : List EMsg}
    (h : GoodL dev stream v (f :: fs)) (hm : f.msgs = m :: ms) (hall : ∀ x ∈ f.msgs, x.seg = 0)
    (hne : ms ≠ []) : GoodL dev stream v ({ f with msgs := ms } :: fs) := by
  have hf := h.1 f (by simp)
  refine ⟨?_, ?_⟩
  · intro g hg
    rcases List.mem_cons.mp hg with hg | hg
    · subst hg
      have hsub : ∀ x ∈ ms, x ∈ f.msgs := fun x hx => by rw [hm]; simp [hx]
      exact ⟨⟨hf.dev, hf.stream, hf.ver, hf.seq, hf.mt⟩, hne, Or.inl (fun x hx => hall x (hsub x hx)),
        fun x hx => hf.mts x (hsub x hx), fun x hx => hf.msgs x (hsub x hx)⟩
    · exact h.1 g (by simp [hg])
  · cases fs with
    | nil => trivial
    | cons g r => exact h.2

/-- the first message of the flattened list is the first message of the first frame -/
theorem flat_cons {dev stream v : Nat} {fs : List EFrame} {m : EMsg} {rest : List EMsg}
    (h : GoodL dev stream v fs) (hflat : fs.flatMap (·.msgs) = m :: rest) :
    ∃ f fs' ms, fs = f :: fs' ∧ f.msgs = m :: ms ∧ rest = ms ++ fs'.flatMap (·.msgs) := by
  cases fs with
  | nil => simp at hflat
  | cons f fs' =>
    have hf := h.1 f (by simp)
    cases hm : f.msgs with
    | nil => exact absurd hm hf.ne
    | cons a ms =>
      simp only [List.flatMap_cons, hm, List.cons_append, List.cons.injEq] at hflat
      obtain ⟨rfl, hr⟩ := hflat
      exact ⟨f, fs', ms, rfl, hm, hr.symm⟩

theorem head_unseg {dev stream v : Nat} {f : EFrame} {m : EMsg} {ms : List EMsg}
    (hf : FrOk dev stream v f) (hm : f.msgs = m :: ms) (hs : m.seg = 0) : ∀ x ∈ f.msgs, x.seg = 0 := by
  rcases hf.alone with h | h
  · exact h
  · rw [hm] at h ⊢
    simp at h
    subst h
    intro x hx
    simp at hx
    subst hx
    exact hs

theorem head_seg {dev stream v : Nat} {f : EFrame} {m : EMsg} {ms : List EMsg}
    (hf : FrOk dev stream v f) (hm : f.msgs = m :: ms) (hs : m.seg ≠ 0) : ms = [] := by
  rcases hf.alone with h | h
  · exact absurd (h m (by rw [hm]; simp)) hs
  · rw [hm] at h
    simpa using h

/-! ### one frame through the automaton -/

theorem segTypeOf_hdr (p : Packet) (seg len : Nat) (hs : seg = 0 ∨ seg = 4 ∨ seg = 8 ∨ seg = 12) :
    segTypeOf (msgHeader p seg len) = seg := by
  unfold segTypeOf
  rw [msgHeader_eq, byteAt_mid _ _ _ 12 (hdrPre_length p)]
  exact flagbits' _ _ hs

section steps
variable {dev stream v : Nat} (min : Nat) (hdev : dev < 65536) (hstream : stream < 256) (hv : v < 256)
include hdev hstream hv

/-- the decoder's view of a serialised frame -/
abbrev PF (min : Nat) (f : EFrame) : PFrame := parseFrame (EFrame.bytes min f)

theorem step_unseg (st : Option Pending) (f : EFrame) (hf : FrOk dev stream v f)
    (hall : ∀ m ∈ f.msgs, m.seg = 0) :
    localStep st (PF min f) = (none, f.msgs.map (fun m => dec dev stream v m.pkt 0)) := by
  obtain ⟨t, ht, hp⟩ := parse_unseg min f hf.toHdrOk hdev hstream hv
    (fun m hm => ⟨(hf.msgs m hm).wf, hf.mts m hm, hall m hm, (hf.msgs m hm).whole (hall m hm)⟩)
  unfold PF
  rw [hp]
  rcases ht with rfl | rfl <;> simp [localStep, dec]

/-- a segment frame is the frame `C05` calls `mkFrame` -/
theorem parse_seg_mk (M : SegMsg) (k : Nat) (f : EFrame) (hf : FrOk dev stream v f) (m : EMsg)
    (hm : f.msgs = [m]) (hseg : m.seg ≠ 0) (hep : M.ep = (dev, stream)) (hver : M.ver = v)
    (hmt : M.mt = f.mt) (hseq : f.seq = (M.seq0 + k) % 65536) :
    PF min f = M.mkFrame k (msgHeader m.pkt m.seg m.body.length, m.body) := by
  have hmo := hf.msgs m (by rw [hm]; simp)
  have hs : m.seg = 4 ∨ m.seg = 8 ∨ m.seg = 12 := by
    rcases hmo.seg with h | h | h | h
    · exact absurd h hseg
    · exact Or.inl h
    · exact Or.inr (Or.inl h)
    · exact Or.inr (Or.inr h)
  unfold PF
  rw [parse_seg min f hf.toHdrOk hdev hstream hv m hm hmo.wf hmo.len hs]
  simp [SegMsg.mkFrame, hep, hver, hmt, hseq, EMsg.bytes]

end steps
/-! ### alignment of packets and frames -/

/-- which segment bits the delivered packet of `p` carries -/
def segOf (c : Ctx) (p : Packet) : Nat := if 16 + p.payloadLength ≤ c.cap then 0 else 4

theorem wf_plen {p : Packet} (h : p.WF) : p.payloadLength = p.data.length := by
  rw [payloadLength_eq]; exact Nat.mod_eq_of_lt (by have := (wf_data h).2; omega)

section align
variable {dev stream v : Nat} (min : Nat) (hdev : dev < 65536) (hstream : stream < 256) (hv : v < 256)
include hdev hstream hv

/-- a segment at the head of the flattened messages sits alone in the first frame -/
theorem seg_front (m : EMsg) (hseg : m.seg ≠ 0) (rest : List EMsg)
    (fs : List EFrame) (hg : GoodL dev stream v fs) (hflat : fs.flatMap (·.msgs) = m :: rest) :
    ∃ f fs', fs = f :: fs' ∧ fs'.flatMap (·.msgs) = rest ∧
      ∀ (M : SegMsg) k, M.ep = (dev, stream) → M.ver = v → M.mt = m.pkt.mt → f.seq = (M.seq0 + k) % 65536 →
        PF min f = M.mkFrame k (msgHeader m.pkt m.seg m.body.length, m.body) := by
  obtain ⟨f, fs', ms, rfl, hm, hrest⟩ := flat_cons hg hflat
  have hf := hg.1 f (by simp)
  have hms : ms = [] := head_seg hf hm hseg
  subst hms
  refine ⟨f, fs', rfl, by simpa using hrest.symm, ?_⟩
  intro M k hep hver hmt hk
  have hfmt : M.mt = f.mt := by
    rw [hmt]; exact hf.mts m (by rw [hm]; simp)
  exact parse_seg_mk min hdev hstream hv M k f hf m hm hseg hep hver hfmt hk

/-- the remaining segments of a packet: intermediaries, then the last one, each alone in the next
    frame; afterwards nothing is pending and the reassembled message has been delivered -/
theorem run_segs (M : SegMsg) (i : Nat) (p : Packet) (hep : M.ep = (dev, stream)) (hver : M.ver = v)
    (hmt : M.mt = p.mt) (rest : List EMsg) :
    ∀ (cs : List Bytes), cs ≠ [] → ∀ (fprev : EFrame) (fs : List EFrame) (k : Nat) (B : Bytes) (q : Pending),
      GoodL dev stream v (fprev :: fs) →
      fs.flatMap (·.msgs) = segMsgs i p false cs ++ rest →
      M.MidInv k B q → fprev.seq = (M.seq0 + k) % 65536 →
      ∃ fs', GoodL dev stream v fs' ∧ fs'.flatMap (·.msgs) = rest ∧
        runLocal (some q) (fs.map (PF min)) =
          ((runLocal none (fs'.map (PF min))).1,
            tagPacket M.ep M.ver (Packet.ofMsg M.mt
              (M.first.1.take 14 ++ beEnc 2 (lenField (B ++ cs.flatten).length) ++ (B ++ cs.flatten))) ::
            (runLocal none (fs'.map (PF min))).2) := by
  intro cs
  induction cs with
  | nil => intro h; exact absurd rfl h
  | cons x xs ih =>
    intro _ fprev fs k B q hg hflat hq hseq
    have hgt := hg.tail
    cases xs with
    | nil =>
      -- the last segment
      have e : segMsgs i p false [x] = [⟨i, p, 12, x⟩] := rfl
      rw [e, List.singleton_append] at hflat
      obtain ⟨f, fs', rfl, hrest, hp⟩ := seg_front min hdev hstream hv ⟨i, p, 12, x⟩
        (by simp) rest fs hgt hflat
      have hfseq : f.seq = (M.seq0 + (k + 1)) % 65536 := by
        have := hg.2.1
        rw [this, hseq]; omega
      refine ⟨fs', hgt.tail, hrest, ?_⟩
      simp only [List.map_cons, runLocal]
      have h16 : (msgHeader p 12 x.length).length = 16 := msgHeader_length ..
      have h12 : segTypeOf (msgHeader p 12 x.length) = 12 := segTypeOf_hdr p 12 x.length (by simp)
      rw [hp M _ hep hver hmt hfseq, M.step_last k B q (msgHeader p 12 x.length, x) hq h16 h12]
      simp
    | cons y ys =>
      rw [segMsgs_false_cons _ _ _ _ (by simp), List.cons_append] at hflat
      obtain ⟨f, fs', rfl, hrest, hp⟩ := seg_front min hdev hstream hv ⟨i, p, 8, x⟩
        (by simp) _ fs hgt hflat
      have hfseq : f.seq = (M.seq0 + (k + 1)) % 65536 := by
        have := hg.2.1
        rw [this, hseq]; omega
      have h16 : (msgHeader p 8 x.length).length = 16 := msgHeader_length ..
      have h8 : segTypeOf (msgHeader p 8 x.length) = 8 := segTypeOf_hdr p 8 x.length (by simp)
      obtain ⟨q', hstep, hq'⟩ := M.step_mid k B q (msgHeader p 8 x.length, x) hq h16 h8
      obtain ⟨fs'', hg'', hflat'', hrun⟩ := ih (by simp) f fs' (k + 1) (B ++ x) q' hgt hrest hq' hfseq
      refine ⟨fs'', hg'', hflat'', ?_⟩
      simp only [List.map_cons, runLocal]
      rw [hp M _ hep hver hmt hfseq, hstep, hrun]
      simp [List.append_assoc]

/-- the frames whose messages are the pieces of the packets `ib`, decoded from any state -/
theorem decode_aligned (c : Ctx) (hcap : 17 ≤ c.cap) :
    ∀ (ib : List (Nat × Packet)), (∀ ip ∈ ib, ip.2.WF) → ∀ (fs : List EFrame) (st : Option Pending),
      GoodL dev stream v fs →
      fs.flatMap (·.msgs) = ib.flatMap (fun ip => pieces c ip.1 ip.2) →
      (ib = [] → st = none) →
      runLocal st (fs.map (PF min)) = (none, ib.map (fun ip => dec dev stream v ip.2 (segOf c ip.2))) := by
  intro ib
  induction ib with
  | nil =>
    intro _ fs st hg hflat hst
    cases fs with
    | nil => simp [runLocal, hst rfl]
    | cons f fs' =>
      have := (hg.1 f (by simp)).ne
      simp at hflat
      exact absurd hflat.1 this
  | cons ip ib' ih =>
    intro hwf fs st hg hflat _
    obtain ⟨i, p⟩ := ip
    have hp : p.WF := hwf (i, p) (by simp)
    have ih' := ih (fun x hx => hwf x (by simp [hx]))
    obtain ⟨hd1, hd2⟩ := wf_data hp
    have hpl := wf_plen hp
    simp only [List.flatMap_cons, List.map_cons] at hflat ⊢
    have hpc : pieces c i p = if 16 + p.data.length ≤ c.cap then [⟨i, p, 0, p.data⟩]
        else segMsgs i p true (chunks (c.cap - 16) p.data) := by
      unfold pieces
      rw [hpl, List.take_length, if_neg (by omega)]
    rw [hpc] at hflat
    by_cases hfit : 16 + p.data.length ≤ c.cap
    · -- unsegmented: the message is the first of the first frame
      have hso : segOf c p = 0 := by simp [segOf, hpl, hfit]
      rw [if_pos hfit, List.singleton_append] at hflat
      obtain ⟨f, fs', ms, rfl, hm, hrest⟩ := flat_cons hg hflat
      have hf := hg.1 f (by simp)
      have hall := head_unseg hf hm rfl
      simp only [List.map_cons, runLocal]
      rw [step_unseg min hdev hstream hv st f hf hall, hm, hso]
      by_cases hms : ms = []
      · subst hms
        have := ih' fs' none hg.tail (by simpa using hrest.symm) (fun _ => rfl)
        rw [this]
        simp
      · have hg' := hg.dropMsg hm hall hms
        have := ih' ({ f with msgs := ms } :: fs') none hg' (by simpa using hrest.symm) (fun _ => rfl)
        simp only [List.map_cons, runLocal] at this
        rw [step_unseg min hdev hstream hv none _ (hg'.1 _ (by simp)) (fun x hx => hall x (by rw [hm]; simp [hx]))] at this
        simp only [Prod.mk.injEq] at this
        rw [this.1]
        simp only [List.map_cons, List.cons_append, Prod.mk.injEq, List.cons.injEq, true_and]
        exact this.2
    · -- segmented: first segment, then the others
      have hso : segOf c p = 4 := by simp [segOf, hpl, hfit]
      have hn : 0 < c.cap - 16 := by omega
      have hne : p.data ≠ [] := by intro e; simp [e] at hd1
      have hdrop : p.data.drop (c.cap - 16) ≠ [] := by
        intro e
        have := congrArg List.length e
        simp at this; omega
      rw [if_neg hfit, chunks_cons _ _ hn hne] at hflat
      have hcs := chunks_ne_nil _ hn _ hdrop
      generalize hc0 : p.data.take (c.cap - 16) = c0 at hflat
      generalize hcsd : chunks (c.cap - 16) (p.data.drop (c.cap - 16)) = cs at hflat hcs
      have hdata : c0 ++ cs.flatten = p.data := by
        rw [← hc0, ← hcsd, chunks_flatten _ hn, List.take_append_drop]
      have e4 : segMsgs i p true (c0 :: cs) = ⟨i, p, 4, c0⟩ :: segMsgs i p false cs := rfl
      rw [e4, List.cons_append] at hflat
      obtain ⟨f, fs', rfl, hrest, hpf⟩ := seg_front min hdev hstream hv ⟨i, p, 4, c0⟩ (by simp) _ fs hg hflat
      have hf := hg.1 f (by simp)
      let M : SegMsg := ⟨(dev, stream), v, p.mt, f.seq, (msgHeader p 4 c0.length, c0), [], ([], [])⟩
      have hseq0 : f.seq = (M.seq0 + 0) % 65536 := by
        have := hf.seq
        show f.seq = (f.seq + 0) % 65536
        omega
      have h16 : (msgHeader p 4 c0.length).length = 16 := msgHeader_length ..
      have h4 : segTypeOf (msgHeader p 4 c0.length) = 4 := segTypeOf_hdr p 4 c0.length (by simp)
      obtain ⟨q, hstep, hq⟩ := M.step_first st h16 h4
      obtain ⟨fs'', hg'', hflat'', hrun⟩ := run_segs min hdev hstream hv M i p rfl rfl rfl _ cs hcs f fs' 0 c0 q
        hg hrest hq hseq0
      have hih := ih' fs'' none hg'' hflat'' (fun _ => rfl)
      simp only [List.map_cons, runLocal]
      rw [hpf M 0 rfl rfl rfl hseq0]
      have hstep' : localStep st (M.mkFrame 0 (msgHeader p 4 c0.length, c0)) = (some q, []) := hstep
      rw [hstep', hrun, hih, hso]
      have h14 : (msgHeader p 4 c0.length).take 14 = hdr14 p 4 := by
        rw [msgHeader_14]; exact List.take_left' (hdr14_length p 4)
      have hpk : Packet.ofMsg M.mt (M.first.1.take 14 ++ beEnc 2 (lenField (c0 ++ cs.flatten).length) ++
          (c0 ++ cs.flatten)) = obsRaw p 4 := by
        show Packet.ofMsg p.mt ((msgHeader p 4 c0.length).take 14 ++ _ ++ _) = _
        rw [h14, hdata, lenField_small _ hd2]
        have := ofMsg_obs hp (seg := 4) (by simp) []
        simpa using this
      rw [hpk]
      rfl

end align
/-! ### the encoder's frames are good -/

theorem pieces_whole (c : Ctx) (i : Nat) (p : Packet) :
    ∀ m ∈ pieces c i p, m.seg = 0 → m.body = p.data.take p.payloadLength := by
  intro m hm hs
  unfold pieces at hm
  split at hm
  · simp at hm
  · split at hm
    · simp at hm; subst hm; rfl
    · obtain ⟨_, _, h3, _⟩ := segMsgs_mem _ _ _ _ m hm
      omega

theorem chain_of_index (k : Nat) : ∀ (fs : List EFrame) (a : Nat),
    (∀ i (h : i < fs.length), fs[i].seq = ((a + i) % 65536 + k) % 65536) → Chain fs := by
  intro fs
  induction fs with
  | nil => intro _ _; trivial
  | cons f1 fs ih =>
    intro a h
    cases fs with
    | nil => trivial
    | cons f2 r =>
      refine ⟨?_, ih (a + 1) ?_⟩
      · have h0 := h 0 (by simp)
        have h1 := h 1 (by simp)
        simp only [List.getElem_cons_zero, List.getElem_cons_succ] at h0 h1
        rw [h0, h1]; omega
      · intro i hi
        have := h (i + 1) (by simp at hi ⊢; omega)
        simp only [List.getElem_cons_succ] at this ⊢
        rw [this]
        congr 2
        omega

theorem encode_good (e : Enc) (batch : List Packet) (c : Ctx) (v : Nat) (hcap : 17 ≤ c.cap)
    (hwf : ∀ p ∈ batch, p.WF) (hver : ∀ p ∈ batch, p.version = v) (hv : v < 256) :
    GoodL e.dev e.stream v (e.encode batch c).2 := by
  obtain ⟨hok, hall, _⟩ := encode_spec e batch c hcap
  have hidle : (Enc.fresh e.dev e.stream).Idle := by simp [Enc.fresh, Enc.Idle]
  obtain ⟨_, _, _, _, hidx, _, hvers⟩ := C09_encode (Enc.fresh e.dev e.stream) batch c hidle
  have hshift := C10_encode_any_state e batch c
  have hlen : (e.encode batch c).2.length = ((Enc.fresh e.dev e.stream).encode batch c).2.length := by
    rw [hshift]; simp [shiftSeq]
  have hget : ∀ i (h : i < (e.encode batch c).2.length),
      (e.encode batch c).2[i].seq = ((1 + i) % 65536 + e.seqc) % 65536 ∧
      (e.encode batch c).2[i].dev = e.dev ∧ (e.encode batch c).2[i].stream = e.stream ∧
      (e.encode batch c).2[i].ver = v := by
    intro i h
    have h' : i < ((Enc.fresh e.dev e.stream).encode batch c).2.length := hlen ▸ h
    obtain ⟨h1, h2, h3⟩ := hidx i h'
    have h4 := hvers v hver _ (List.getElem_mem h')
    have e1 : (e.encode batch c).2[i] =
        { ((Enc.fresh e.dev e.stream).encode batch c).2[i] with
          seq := (((Enc.fresh e.dev e.stream).encode batch c).2[i].seq + e.seqc) % 65536 } := by
      simp only [hshift, shiftSeq, List.getElem_map]
    rw [e1]
    refine ⟨?_, h2, h3, h4.trans (Nat.mod_eq_of_lt hv)⟩
    show (((Enc.fresh e.dev e.stream).encode batch c).2[i].seq + e.seqc) % 65536 = _
    rw [h1]
    show ((0 + i + 1) % 65536 + e.seqc) % 65536 = _
    congr 2
    omega
  refine ⟨?_, chain_of_index e.seqc _ 1 (fun i h => (hget i h).1)⟩
  intro f hf
  obtain ⟨i, hi, rfl⟩ := List.getElem_of_mem hf
  obtain ⟨h1, h2, h3, h4⟩ := hget i hi
  obtain ⟨hfo, hne⟩ := hok _ hf
  refine ⟨⟨h2, h3, h4, by rw [h1]; exact Nat.mod_lt _ (by decide), hfo.mtlt⟩, hne, hfo.alone, hfo.mts, ?_⟩
  intro m hm
  have : m ∈ (e.encode batch c).2.flatMap (·.msgs) := List.mem_flatMap.mpr ⟨_, hf, hm⟩
  rw [hall] at this
  obtain ⟨ip, hip, hmp⟩ := List.mem_flatMap.mp this
  have hpb : ip.2 ∈ batch := by
    rw [← zip_snd batch]; exact List.mem_map_of_mem hip
  have hp := hwf _ hpb
  obtain ⟨hpk, _, hlt, _, hsg, _⟩ := pieces_mem c hcap _ _ m hmp
  refine ⟨hpk ▸ hp, hlt, hsg, ?_⟩
  intro hs
  rw [pieces_whole c _ _ m hmp hs, hpk, wf_plen hp, List.take_length]

/-! ### from `decodeAll` to the single-endpoint automaton -/

theorem run_local_ep (e : Ep) : ∀ (fs : List PFrame) (s : DecState), (∀ f ∈ fs, f.ep = e) →
    ((run s fs).1 e, (run s fs).2) = runLocal (s e) fs := by
  intro fs
  induction fs with
  | nil => intro s _; rfl
  | cons f fs ih =>
    intro s h
    have hf : f.ep = e := h f (by simp)
    subst hf
    have := ih (step s f).1 (fun g hg => h g (by simp [hg]))
    rw [step_fst_same] at this
    simp only [run, runLocal]
    rw [← this, step_snd]

theorem decodeAll_run (t : Bytes → List Packet) : ∀ (bs : List Bytes) (s : DecState),
    (∀ b ∈ bs, 8 ≤ b.length ∧ byteAt b 0 ≠ 0) →
    decodeAll t s (bs.map some) = run s (bs.map parseFrame) := by
  intro bs
  induction bs with
  | nil => intro s _; rfl
  | cons b bs ih =>
    intro s h
    obtain ⟨h8, h0⟩ := h b (by simp)
    simp only [List.map_cons, decodeAll, run, decodeWith]
    rw [if_neg (by omega), if_neg h0, ih _ (fun x hx => h x (by simp [hx]))]

theorem clearSeg_dec (dev stream : Nat) (p : Packet) (h : p.WF) (seg : Nat) (hs : seg = 0 ∨ seg = 4) :
    clearSeg (dec dev stream p.version p seg) = obsSent dev stream p := by
  obtain ⟨_, _, _, _, _, _, _, _, _, hfl, _⟩ := wf_unpack h
  have : ((p.flags &&& 0xF3) ||| seg) &&& 0xF3 = p.flags &&& 0xF3 := by
    rcases hs with rfl | rfl
    · exact flags_clear _ hfl 0 (by decide)
    · exact flags_clear _ hfl 1 (by decide)
  simp [clearSeg, dec, tagPacket, obsRaw, obsSent, this]

/-- C01 on the level of the lemma files -/
theorem roundtrip (e : Enc) (d : DecState) (batch : List Packet) (c : Ctx) (v : Nat)
    (hc : c.ok = true) (hne : batch ≠ [])
    (hwf : ∀ p ∈ batch, p.WF) (hver : ∀ p ∈ batch, p.version = v)
    (hdev : e.dev < 65536) (hstream : e.stream < 256) :
    let frames := (e.encode batch c).2.map (EFrame.bytes c.min)
    let r := decodeAll tecmpDecode d (frames.map some)
    P_C01 e.dev e.stream batch r.2 = true ∧ r.1 (e.dev, e.stream) = none := by
  intro frames r
  have hcap := (Ctx.ok_cap hc).1
  obtain ⟨p0, hp0⟩ := List.exists_mem_of_ne_nil batch hne
  obtain ⟨_, _, _, _, _, _, _, hv1, hv2, _⟩ := wf_unpack (hwf p0 hp0)
  rw [hver p0 hp0] at hv1 hv2
  have hg := encode_good e batch c v hcap hwf hver hv2
  have hall := (encode_spec e batch c hcap).2.1
  -- every buffer is a capture-module frame of the encoder's endpoint
  have hpf : ∀ f ∈ (e.encode batch c).2, 8 ≤ (EFrame.bytes c.min f).length ∧
      byteAt (EFrame.bytes c.min f) 0 ≠ 0 ∧ (PF c.min f).ep = (e.dev, e.stream) := by
    intro f hf
    have hh := (hg.1 f hf).toHdrOk
    have := parse_frame c.min f hh hdev hstream hv2
    refine ⟨by rw [bytes_length]; omega, ?_, by unfold PF; rw [this]⟩
    have hver0 : (PF c.min f).ver = v := by unfold PF; rw [this]
    have : byteAt (EFrame.bytes c.min f) 0 = v := hver0
    omega
  have hrun : r = run d ((e.encode batch c).2.map (PF c.min)) := by
    show decodeAll tecmpDecode d (frames.map some) = _
    rw [decodeAll_run]
    · simp only [frames, List.map_map]; rfl
    · intro b hb
      obtain ⟨f, hf, rfl⟩ := List.mem_map.mp hb
      exact ⟨(hpf f hf).1, (hpf f hf).2.1⟩
  have hloc := run_local_ep (e.dev, e.stream) ((e.encode batch c).2.map (PF c.min)) d (by
    intro g hgm
    obtain ⟨f, hf, rfl⟩ := List.mem_map.mp hgm
    exact (hpf f hf).2.2)
  have hib : (List.range batch.length).zip batch ≠ [] := by
    intro e0
    have := zip_snd batch
    rw [e0] at this
    exact hne this.symm
  have hdec := decode_aligned c.min hdev hstream hv2 c hcap _ (by
      intro ip hip
      apply hwf
      rw [← zip_snd batch]; exact List.mem_map_of_mem hip)
    _ (d (e.dev, e.stream)) hg hall (fun h => absurd h hib)
  rw [hdec] at hloc
  rw [← hrun] at hloc
  simp only [Prod.mk.injEq] at hloc
  refine ⟨?_, hloc.1⟩
  unfold P_C01
  rw [hloc.2, beq_iff_eq, List.map_map, ← zip_snd batch, List.map_map, zip_snd batch]
  apply List.map_congr_left
  intro ip hip
  have hpb : ip.2 ∈ batch := by
    rw [← zip_snd batch]; exact List.mem_map_of_mem hip
  simp only [Function.comp]
  rw [← hver _ hpb]
  apply clearSeg_dec _ _ _ (hwf _ hpb)
  unfold segOf
  split
  · exact Or.inl rfl
  · exact Or.inr rfl
end AsamCmp.C01
