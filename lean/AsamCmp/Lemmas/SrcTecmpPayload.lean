/-
  Source-level TECMP path, part 2: the payload parsers of `TECMP::Decoder` (`GetCanPayload`, `GetLinPayload`,
  `GetCaptureModulePayload`, `GetDataPayload`, `GetInterfacePayload` with its loop, `HandlePayload`) and the `TECMP::Payload`
  constructor they run, on the payload bytes `p` sitting at address `pre.length` of any memory `pre ++ p ++ post`.
-/
import AsamCmp.Lemmas.SrcTecmpPrim
set_option linter.unusedSimpArgs false
set_option linter.unusedVariables false
namespace AsamCmp.SrcTec
open AsamCmp AsamCmp.Src AsamCmp.SrcGen AsamCmp.SrcTie

/-! ### `TECMP::PayloadType` values -/

theorem ptype_ne_src (a b : Nat) :
    TECMP_operator_ne_obj a b = some (!(a % 4294967296 == b % 4294967296)) := by
  simp only [TECMP_operator_ne_obj, TECMP_operator_eq_rec_rec_obj, TECMP_PayloadType_getType, rd_leEnc4, bind, pure, some_bind]

theorem ptype_eq_src (a b : Nat) :
    TECMP_operator_eq_rec_rec_obj a b = some (a % 4294967296 == b % 4294967296) := by
  simp only [TECMP_operator_eq_rec_rec_obj, TECMP_PayloadType_getType, rd_leEnc4, bind, pure, some_bind]

theorem payload_isValid_src (p : Bytes) (ty : Nat) :
    TECMP_Payload_isValid_obj ⟨p, ty⟩ = some (ty % 4294967296 != 65535) := by
  simp only [TECMP_Payload_isValid_obj, TECMP_PayloadType_isValid, rd_leEnc4, bind, pure, some_bind]

/-- message type of a payload object: bits 8..15 of its type code -/
theorem payload_mt_src (p : Bytes) (ty : Nat) (h : ty < 65536) :
    TECMP_Payload_getMessageType_obj ⟨p, ty⟩ = some (ty / 256) := by
  have e : ty % 4294967296 = ty := Nat.mod_eq_of_lt (by omega)
  have hm : ty &&& 65280 = (ty >>> 8 % 256) <<< 8 := and_mask1 ty
  simp only [TECMP_Payload_getMessageType_obj, TECMP_PayloadType_getMessageType, rd_leEnc4, bind, pure, some_bind, e, hm]
  rw [ushr_byte 32 (ty >>> 8) 8 8 (by omega) (by omega), some_bind]
  simp only [Nat.sub_self, Nat.shiftLeft_zero, Nat.shiftRight_eq_div_pow, Nat.reducePow]
  congr 1; omega

theorem payload_getType_src (p : Bytes) (ty : Nat) : TECMP_Payload_getType_obj ⟨p, ty⟩ = some ty := rfl

/-! ### the constructor `TECMP::Payload(type, data, size)` -/

theorem drop_take_mid (pre p post : Bytes) : ((pre ++ p ++ post).drop pre.length).take p.length = p := by
  rw [List.append_assoc, List.drop_left, List.take_left]

theorem payload_ctor_src (pre p post : Bytes) (ty : Nat) (hty : ty % 4294967296 ≠ 65535) :
    TECMP_Payload_ctor_rec_ptr_u64_obj (pre ++ p ++ post) ty pre.length p.length = some ⟨p, ty⟩ := by
  have hne : (ty % 4294967296 == 65535 % 4294967296) = false := by simpa using hty
  simp only [TECMP_Payload_ctor_rec_ptr_u64_obj, TECMP_PayloadType_ctor_u32_obj, ptype_ne_src, bind, pure, some_bind, hne,
    Bool.not_false]
  by_cases h0 : p.length = 0
  · have hp : p = [] := List.length_eq_zero_iff.mp h0
    subst hp
    simp [zeros]
  · have hb : (p.length != 0) = true := by simpa using h0
    simp only [hb, if_true, some_bind]
    rw [wrBytes_eq _ _ _ _ (by simp only [List.append_assoc, List.drop_left, List.length_append]; omega)
      (by rw [zeros_length]; omega), some_bind, drop_take_mid,
      writeAt_to_end _ _ _ (by rw [zeros_length]; omega)]
    simp

/-! ### the parsers of one payload -/

/-- what a parser with header size `k`, length byte at `i` and type code `ty` returns -/
def parseR (k i ty : Nat) (p : Bytes) : Option TECMP_Payload_St :=
  if p.length < k ∨ p.length - k < byteAt p i then none else some ⟨p, ty⟩

theorem getCanPayload_src (pre p post : Bytes) (hmem : (pre ++ p ++ post).length < 2 ^ 64) :
    TECMP_Decoder_GetCanPayload_obj (pre ++ p ++ post) pre.length p.length = some (parseR 5 4 770 p) := by
  have hb := mem_lt pre p post hmem
  unfold TECMP_Decoder_GetCanPayload_obj parseR
  by_cases h5 : p.length < 5
  · simp only [h5, decide_true, if_true, pure, bind, some_bind, true_or]
  · have hrd := rd_mid pre p post 4 1 (by omega)
    simp only [h5, decide_false, Bool.false_eq_true, if_false, nonneg_small 4 (by omega), bind, pure, some_bind, hrd,
      leAt_one, usub_eq p.length 5 (by omega) hb, false_or]
    by_cases hd : p.length - 5 < byteAt p 4
    · simp only [hd, decide_true, if_true]
    · simp only [hd, decide_false, Bool.false_eq_true, if_false, TECMP_CanPayload_ctor_ptr_u64_obj,
        TECMP_PayloadType_ctor_u32_obj, bind, pure, some_bind, payload_ctor_src pre p post 770 (by decide),
        payload_isValid_src]
      rfl

theorem getLinPayload_src (pre p post : Bytes) (hmem : (pre ++ p ++ post).length < 2 ^ 64) :
    TECMP_Decoder_GetLinPayload_obj (pre ++ p ++ post) pre.length p.length = some (parseR 2 1 772 p) := by
  have hb := mem_lt pre p post hmem
  unfold TECMP_Decoder_GetLinPayload_obj parseR
  by_cases h2 : p.length < 2
  · simp only [h2, decide_true, if_true, pure, bind, some_bind, true_or]
  · have hrd := rd_mid pre p post 1 1 (by omega)
    simp only [h2, decide_false, Bool.false_eq_true, if_false, nonneg_small 1 (by omega), bind, pure, some_bind, hrd,
      leAt_one, usub_eq p.length 2 (by omega) hb, false_or]
    by_cases hd : p.length - 2 < byteAt p 1
    · simp only [hd, decide_true, if_true]
    · simp only [hd, decide_false, Bool.false_eq_true, if_false, TECMP_LinPayload_ctor_ptr_u64_obj,
        TECMP_PayloadType_ctor_u32_obj, bind, pure, some_bind, payload_ctor_src pre p post 772 (by decide),
        payload_isValid_src]
      rfl

/-- the vendor data length a payload object declares: the big-endian u16 at offset 4 of its own bytes -/
theorem cm_vendorLen_src (p : Bytes) (n : Nat) (h : 6 ≤ p.length) :
    TECMP_CaptureModulePayload_getVendorDataLength p 0 n 0 = some (beAt p 4 2) := by
  unfold TECMP_CaptureModulePayload_getVendorDataLength TECMP_CaptureModulePayload_getHeader_v
    TECMP_CaptureModulePayload_Header_getVendorDataLength
  simp (disch := omega) only [rd_eq, swap16_leAt, bind, some_bind, pure, Nat.zero_add]

theorem if_vendorLen_src (p : Bytes) (n : Nat) (h : 6 ≤ p.length) :
    TECMP_InterfacePayload_getVendorDataLength p 0 n 0 = some (beAt p 4 2) := by
  unfold TECMP_InterfacePayload_getVendorDataLength TECMP_InterfacePayload_getHeader_v
    TECMP_InterfacePayload_Header_getVendorDataLength
  simp (disch := omega) only [rd_eq, swap16_leAt, bind, some_bind, pure, Nat.zero_add]

/-- what `GetCaptureModulePayload` returns: null unless the fields read later (bytes 8..17) are there AND the declared vendor
    data (u16 @4, starting behind the 12 generic bytes) lies inside the payload -/
def cmR (p : Bytes) : Option TECMP_Payload_St :=
  if p.length < 18 ∨ p.length - 12 < beAt p 4 2 then none else some ⟨p, 256⟩

theorem getCmPayload_src (pre p post : Bytes) (hmem : (pre ++ p ++ post).length < 2 ^ 64) :
    TECMP_Decoder_GetCaptureModulePayload_obj (pre ++ p ++ post) pre.length p.length = some (cmR p) := by
  have hb := mem_lt pre p post hmem
  unfold TECMP_Decoder_GetCaptureModulePayload_obj cmR
  by_cases h : p.length < 18
  · simp only [h, decide_true, if_true, pure, true_or]
  · simp only [h, decide_false, Bool.false_eq_true, if_false, TECMP_CaptureModulePayload_ctor_ptr_u64_obj,
      TECMP_PayloadType_ctor_u32_obj, bind, pure, some_bind, payload_ctor_src pre p post 256 (by decide),
      payload_isValid_src, cm_vendorLen_src p p.length (by omega), usub_eq p.length 12 (by omega) hb, false_or]
    by_cases hv : p.length - 12 < beAt p 4 2
    · simp only [hv, decide_true, if_true]
    · simp only [hv, decide_false, Bool.false_eq_true, if_false]
      rfl

/-! ### `GetDataPayload`: dispatch on the header's data type, then the re-check of message type and payload type -/

theorem hdr_dataType (H : Bytes) (hH : 28 ≤ H.length) : TECMP_CmpHeader_getDataType H 0 = some (beAt H 6 2) :=
  (tecmp_header_src H hH).2.2.2.1

theorem hdr_messageType (H : Bytes) (hH : 28 ≤ H.length) : TECMP_CmpHeader_getMessageType H 0 = some (byteAt H 5) :=
  (tecmp_header_src H hH).2.2.1

def dataR (H p : Bytes) : Option TECMP_Payload_St :=
  if beAt H 6 2 = 2 ∨ beAt H 6 2 = 3 then parseR 5 4 770 p else if beAt H 6 2 = 4 then parseR 2 1 772 p else none

theorem getDataPayload_src (pre p post H : Bytes) (hmem : (pre ++ p ++ post).length < 2 ^ 64) (hH : 28 ≤ H.length) :
    TECMP_Decoder_GetDataPayload_obj (pre ++ p ++ post) pre.length p.length H = some (dataR H p) := by
  unfold TECMP_Decoder_GetDataPayload_obj dataR
  simp only [hdr_dataType H hH, bind, pure, some_bind]
  by_cases hcan : beAt H 6 2 = 2 ∨ beAt H 6 2 = 3
  · have hc : (beAt H 6 2 == 2 || beAt H 6 2 == 3) = true := by simpa using hcan
    simp only [hc, hcan, if_true, getCanPayload_src pre p post hmem, some_bind, parseR]
    by_cases hp : p.length < 5 ∨ p.length - 5 < byteAt p 4
    · simp only [hp, if_true, Option.isSome_none, Bool.false_eq_true, if_false, some_bind]
    · simp only [hp, if_false, Option.isSome_some, if_true, some_bind, payload_mt_src p 770 (by omega),
        payload_getType_src, TECMP_PayloadType_ctor_u32_obj, ptype_eq_src, bind, pure]
      rfl
  · have hc : (beAt H 6 2 == 2 || beAt H 6 2 == 3) = false := by simpa using hcan
    simp only [hc, hcan, Bool.false_eq_true, if_false]
    by_cases hlin : beAt H 6 2 = 4
    · have hl : (beAt H 6 2 == 4) = true := by simpa using hlin
      simp only [hl, hlin, if_true, getLinPayload_src pre p post hmem, some_bind, parseR]
      by_cases hp : p.length < 2 ∨ p.length - 2 < byteAt p 1
      · simp only [hp, if_true, Option.isSome_none, Bool.false_eq_true, if_false, some_bind]
        rfl
      · simp only [hp, if_false, Option.isSome_some, if_true, some_bind, payload_mt_src p 772 (by omega),
          payload_getType_src, TECMP_PayloadType_ctor_u32_obj, ptype_eq_src, bind, pure]
        rfl
    · have hl : (beAt H 6 2 == 4) = false := by simpa using hlin
      simp only [hl, hlin, Bool.false_eq_true, if_false, ite_self]

/-! ### `GetInterfacePayload`: 12 generic bytes, then one payload object per complete entry of 12 + vendor-data-length bytes -/

/-- the object built for the entry at offset `off`: generic bytes, the entry's 12 counter bytes, the four vendor-data bytes of the
    default object (the entry's own vendor data is skipped, not copied) -/
def busObj (p : Bytes) (off : Nat) : TECMP_Payload_St := ⟨p.take 12 ++ slice p off 12 ++ zeros 4, 512⟩

/-- entries of `12 + v` bytes from offset `off` on -/
def busPl (p : Bytes) (v : Nat) : Nat → Nat → List (Option TECMP_Payload_St)
  | 0, _ => []
  | n + 1, off => if off + (12 + v) ≤ p.length then some (busObj p off) :: busPl p v n (off + (12 + v)) else []

theorem setGenericData_src (pre p post : Bytes) (h12 : 12 ≤ p.length) :
    TECMP_InterfacePayload_setGenericData (zeros 28) 0 28 0 ((pre ++ p ++ post).drop pre.length) = some (p.take 12 ++ zeros 16) := by
  have hx : ((pre ++ p ++ post).drop pre.length).take 12 = p.take 12 := by
    rw [List.append_assoc, List.drop_left, List.take_append_of_le_length h12]
  have hl : (p.take 12).length = 12 := by simp only [List.length_take]; omega
  unfold TECMP_InterfacePayload_setGenericData
  rw [wrBytes_eq _ _ _ _ (by simp only [List.append_assoc, List.drop_left, List.length_append]; omega)
    (by rw [zeros_length]; omega)]
  simp only [bind, pure, some_bind, hx]
  unfold writeAt
  rw [hl]
  simp [zeros]

theorem writeAt_gen (g w : Bytes) (hg : g.length = 12) (hw : w.length = 12) :
    writeAt (g ++ zeros 16) 12 w = g ++ w ++ zeros 4 := by
  have e : g ++ zeros 16 = g ++ zeros 12 ++ zeros 4 := by
    rw [List.append_assoc]; rfl
  have h24 : (g ++ zeros 12).length = 12 + w.length := by simp [zeros, hg, hw]
  unfold writeAt
  rw [List.take_left' hg]
  congr 1
  rw [e, List.drop_left' h24]

theorem setBusData_src (pre p post : Bytes) (off : Nat) (h12 : 12 ≤ p.length) (ho : off + 12 ≤ p.length) :
    TECMP_InterfacePayload_setBusData (p.take 12 ++ zeros 16) 0 (p.take 12 ++ zeros 16).length 0
      ((pre ++ p ++ post).drop (pre.length + off)) 12 = some (p.take 12 ++ slice p off 12 ++ zeros 4) := by
  have hx : ((pre ++ p ++ post).drop (pre.length + off)).take 12 = slice p off 12 := slice_mid pre p post off 12 ho
  have hl : (p.take 12).length = 12 := by simp only [List.length_take]; omega
  have hs : (slice p off 12).length = 12 := slice_length p off 12 ho
  unfold TECMP_InterfacePayload_setBusData
  simp only [nonneg_small 12 (by omega), bind, pure, some_bind, Nat.zero_add]
  rw [wrBytes_eq _ _ _ _ (by simp only [List.length_drop, List.length_append]; omega)
    (by simp only [List.length_append, hl, zeros_length]; omega)]
  simp only [some_bind, hx, writeAt_gen _ _ hl hs]

theorem bus_loop (pre p post H : Bytes) (v : Nat) (hmem : p.length + 12 + v < 2 ^ 64) (h12 : 12 ≤ p.length) :
    ∀ (n off : Nat) (acc : List (Option TECMP_Payload_St)) (fuel : Nat), n ≤ fuel → off ≤ p.length →
      p.length < off + (12 + v) * n →
      ∃ off', TECMP_Decoder_GetInterfacePayload_loop1 fuel (pre ++ p ++ post) pre.length p.length H acc
          ⟨p.take 12 ++ zeros 16, 512⟩ off (12 + v) = some (acc ++ busPl p v n off, off') := by
  intro n
  induction n with
  | zero => intro off acc fuel _ h1 h2; omega
  | succ n ih =>
    intro off acc fuel hf h1 h2
    obtain ⟨f, rfl⟩ : ∃ f, fuel = f + 1 := ⟨fuel - 1, by omega⟩
    rw [TECMP_Decoder_GetInterfacePayload_loop1]
    simp only [uadd_eq off (12 + v) (by omega), busPl]
    by_cases hc : off + (12 + v) ≤ p.length
    · rw [Nat.mul_succ] at h2
      obtain ⟨off', hoff⟩ := ih (off + (12 + v)) (acc ++ [some (busObj p off)]) f (by omega) hc (by omega)
      refine ⟨off', ?_⟩
      simp only [hc, decide_true, if_true, bind, pure, setBusData_src pre p post off h12 (by omega), some_bind]
      rw [show (⟨p.take 12 ++ slice p off 12 ++ zeros 4, 512⟩ : TECMP_Payload_St) = busObj p off from rfl, hoff,
        List.append_assoc]
      rfl
    · exact ⟨off, by simp only [hc, decide_false, Bool.false_eq_true, if_false, pure, List.append_nil]⟩

def busR (p : Bytes) : List (Option TECMP_Payload_St) :=
  if p.length < 12 then [] else busPl p (beAt p 4 2) (p.length / 12 + 1) 12

theorem beAt_gen (p z : Bytes) (h12 : 12 ≤ p.length) : beAt (p.take 12 ++ z) 4 2 = beAt p 4 2 := by
  unfold beAt slice
  rw [List.drop_append_of_le_length (by simp only [List.length_take]; omega),
    List.take_append_of_le_length (by simp only [List.length_drop, List.length_take]; omega),
    List.drop_take, List.take_take]
  congr 1

/-- `hmem`: the loop computes `busDataOffset + entrySize` in `size_t`; the sum stays below 2^64 exactly when the payload size plus
    one entry (12 + declared vendor data length) does -/
theorem getInterfacePayload_src (pre p post H : Bytes) (fuel : Nat) (hmem : p.length + 12 + beAt p 4 2 < 2 ^ 64)
    (hH : 28 ≤ H.length) (hmt : byteAt H 5 = 2) (hf : p.length / 12 + 1 ≤ fuel) :
    TECMP_Decoder_GetInterfacePayload_obj fuel (pre ++ p ++ post) pre.length p.length H = some (busR p) := by
  unfold TECMP_Decoder_GetInterfacePayload_obj busR
  simp only [hdr_messageType H hH, hmt, bind, pure, some_bind, bne_self_eq_false, Bool.false_eq_true, if_false]
  by_cases h : p.length < 12
  · simp only [h, decide_true, if_true]
  · have h12 : 12 ≤ p.length := by omega
    have hmul : 12 * (p.length / 12 + 1) ≤ (12 + beAt p 4 2) * (p.length / 12 + 1) := Nat.mul_le_mul_right _ (by omega)
    obtain ⟨off', hl⟩ := bus_loop pre p post H (beAt p 4 2) hmem h12 (p.length / 12 + 1) 12 [] fuel hf h12 (by omega)
    have hvl : TECMP_InterfacePayload_getVendorDataLength (p.take 12 ++ zeros 16) 0 (p.take 12 ++ zeros 16).length 0 =
        some (beAt p 4 2) := by
      rw [if_vendorLen_src _ _ (by simp only [List.length_append, List.length_take, zeros_length]; omega), beAt_gen p _ h12]
    simp only [h, decide_false, Bool.false_eq_true, if_false, TECMP_InterfacePayload_ctor_v_obj, TECMP_PayloadType_ctor_u32_obj,
      TECMP_Payload_ctor_rec_u64_obj, bind, pure, some_bind, zeros_length, setGenericData_src pre p post h12, hvl,
      uadd_eq 12 (beAt p 4 2) (by omega)]
    rw [hl]
    rfl

/-! ### `HandlePayload` -/

def handleR (H p : Bytes) : List (Option TECMP_Payload_St) :=
  if byteAt H 5 = 1 then (match cmR p with | none => [] | some x => [some x])
  else if byteAt H 5 = 3 then (match dataR H p with | none => [] | some x => [some x])
  else if byteAt H 5 = 2 then busR p
  else []

theorem dataR_cases (H p : Bytes) : dataR H p = none ∨ dataR H p = some ⟨p, 770⟩ ∨ dataR H p = some ⟨p, 772⟩ := by
  unfold dataR parseR
  repeat' split
  all_goals simp

theorem cmR_cases (p : Bytes) : cmR p = none ∨ cmR p = some ⟨p, 256⟩ := by
  unfold cmR
  split <;> simp

theorem handlePayload_src (pre p post H : Bytes) (fuel : Nat) (hmem : (pre ++ p ++ post).length < 2 ^ 64)
    (hp12 : byteAt H 5 = 2 → p.length + 12 + beAt p 4 2 < 2 ^ 64) (hH : 28 ≤ H.length) (hf : p.length / 12 + 1 ≤ fuel) :
    TECMP_Decoder_HandlePayload_obj fuel (pre ++ p ++ post) pre.length p.length H = some (handleR H p) := by
  unfold TECMP_Decoder_HandlePayload_obj handleR
  simp only [hdr_messageType H hH, bind, pure, some_bind]
  by_cases h1 : byteAt H 5 = 1
  · simp only [h1, beq_self_eq_true, if_true, getCmPayload_src pre p post hmem, some_bind]
    rcases cmR_cases p with hd | hd
    · simp only [hd, Option.isSome_none, Bool.false_eq_true, if_false, some_bind]
    · simp only [hd, Option.isSome_some, if_true, some_bind, payload_mt_src p 256 (by omega), bind, pure]
      rfl
  · have e1 : (byteAt H 5 == 1) = false := by simpa using h1
    simp only [e1, h1, Bool.false_eq_true, if_false]
    by_cases h3 : byteAt H 5 = 3
    · simp only [h3, beq_self_eq_true, if_true, getDataPayload_src pre p post H hmem hH, some_bind]
      rcases dataR_cases H p with hd | hd | hd
      · simp only [hd, Option.isSome_none, Bool.false_eq_true, if_false, some_bind]
      · simp only [hd, Option.isSome_some, if_true, some_bind, payload_mt_src p 770 (by omega), bind, pure]
        rfl
      · simp only [hd, Option.isSome_some, if_true, some_bind, payload_mt_src p 772 (by omega), bind, pure]
        rfl
    · have e3 : (byteAt H 5 == 3) = false := by simpa using h3
      simp only [e3, h3, Bool.false_eq_true, if_false]
      by_cases h2 : byteAt H 5 = 2
      · have e2 : (byteAt H 5 == 2) = true := by simpa using h2
        simp only [e2, if_true, getInterfacePayload_src pre p post H fuel (hp12 h2) hH h2 hf, some_bind]
        simp only [h2, if_true]
      · have e2 : (byteAt H 5 == 2) = false := by simpa using h2
        simp only [e2, h2, Bool.false_eq_true, if_false, ite_self]

end AsamCmp.SrcTec
