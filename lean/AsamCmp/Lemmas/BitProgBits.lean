/-
  Bit-level facts about symbolic words (Src/BitProg.lean): `SWord.eval` is the little-endian binary value, so every word
  is characterised by `Nat.testBit`; `bit w j` is the j-th symbolic bit with the `zero` default.
-/
import AsamCmp.Src.BitProg
namespace AsamCmp.Src.Bit
open AsamCmp AsamCmp.Src

/-- j-th symbolic bit of a word (zero beyond its length) -/
def bit (w : SWord) (j : Nat) : SBit := w.getD j SBit.zero

theorem bit_def (w : SWord) (j : Nat) : w.getD j SBit.zero = bit w j := rfl

@[simp] theorem bit_nil (j : Nat) : bit [] j = SBit.zero := by simp [bit]
@[simp] theorem bit_cons_zero (b : SBit) (w : SWord) : bit (b :: w) 0 = b := by simp [bit]
@[simp] theorem bit_cons_succ (b : SBit) (w : SWord) (j : Nat) : bit (b :: w) (j + 1) = bit w j := by simp [bit]

theorem bit_of_le (w : SWord) (j : Nat) (h : w.length ≤ j) : bit w j = SBit.zero := by
  simp [bit, List.getD_eq_getElem?_getD, List.getElem?_eq_none h]

theorem bit_eq_getElem (w : SWord) (j : Nat) (h : j < w.length) : bit w j = w[j] := by
  simp [bit, List.getD_eq_getElem?_getD, List.getElem?_eq_getElem h]

theorem bit_append (a b : SWord) (j : Nat) :
    bit (a ++ b) j = if j < a.length then bit a j else bit b (j - a.length) := by
  simp only [bit, List.getD_eq_getElem?_getD, List.getElem?_append]
  split <;> rfl

theorem bit_replicate_zero (n j : Nat) : bit (List.replicate n SBit.zero) j = SBit.zero := by
  simp only [bit, List.getD_eq_getElem?_getD, List.getElem?_replicate]
  split <;> rfl

theorem bit_take (w : SWord) (n j : Nat) : bit (w.take n) j = if j < n then bit w j else SBit.zero := by
  simp only [bit, List.getD_eq_getElem?_getD, List.getElem?_take]
  split <;> rfl

theorem bit_drop (w : SWord) (n j : Nat) : bit (w.drop n) j = bit w (n + j) := by
  simp only [bit, List.getD_eq_getElem?_getD, List.getElem?_drop]

theorem bit_map_range (g : Nat → SBit) (n j : Nat) :
    bit ((List.range n).map g) j = if j < n then g j else SBit.zero := by
  simp only [bit, List.getD_eq_getElem?_getD, List.getElem?_map]
  by_cases h : j < n
  · simp [h]
  · simp [h]

theorem bit_fit (n : Nat) (w : SWord) (j : Nat) : bit (fit n w) j = if j < n then bit w j else SBit.zero := by
  unfold fit
  rw [bit_take, bit_append, bit_replicate_zero]
  by_cases h : j < n
  · by_cases h2 : j < w.length
    · simp [h, h2]
    · simp [h, h2, bit_of_le w j (by omega)]
  · simp [h]

@[simp] theorem fit_length (n : Nat) (w : SWord) : (fit n w).length = n := by
  unfold fit
  simp only [List.length_take, List.length_append, List.length_replicate]
  omega

theorem fit_of_length {n : Nat} {w : SWord} (h : w.length = n) : fit n w = w := by
  unfold fit
  rw [List.take_append_of_le_length (by omega), List.take_of_length_le (by omega)]

/-! ### evaluation -/

section
variable (obj : Bytes) (args : List Nat)

@[simp] theorem eval_nil : SWord.eval obj args [] = 0 := rfl

theorem eval_cons (b : SBit) (w : SWord) :
    SWord.eval obj args (b :: w) = (if b.eval obj args then 1 else 0) + 2 * SWord.eval obj args w := rfl

@[simp] theorem eval_zero_bit : SBit.eval obj args SBit.zero = false := rfl
@[simp] theorem eval_one_bit : SBit.eval obj args SBit.one = true := rfl

/-- `SWord.eval` is the binary value: bit `j` of the value is the value of the `j`-th symbolic bit -/
theorem testBit_eval (w : SWord) (j : Nat) :
    (SWord.eval obj args w).testBit j = (bit w j).eval obj args := by
  induction w generalizing j with
  | nil => simp
  | cons b w ih =>
    rw [eval_cons]
    cases j with
    | zero =>
      rw [Nat.testBit_zero, bit_cons_zero]
      cases hb : b.eval obj args
      · simp
      · simp
    | succ j =>
      rw [Nat.testBit_succ, bit_cons_succ, ← ih]
      congr 1
      cases hb : b.eval obj args
      · simp
      · simp; omega

theorem eval_lt (w : SWord) : SWord.eval obj args w < 2 ^ w.length := by
  induction w with
  | nil => simp
  | cons b w ih =>
    rw [eval_cons, List.length_cons, Nat.pow_succ]
    split <;> omega

theorem eval_lt_of_le (w : SWord) {n : Nat} (h : w.length ≤ n) : SWord.eval obj args w < 2 ^ n :=
  Nat.lt_of_lt_of_le (eval_lt obj args w) (Nat.pow_le_pow_right (by decide) h)

/-- two words with the same bit values have the same value -/
theorem eval_congr {a b : SWord} (h : ∀ j, (bit a j).eval obj args = (bit b j).eval obj args) :
    SWord.eval obj args a = SWord.eval obj args b := by
  apply Nat.eq_of_testBit_eq
  intro j
  rw [testBit_eval, testBit_eval, h]

/-- a number is the value of a word if its bits are the word's bits -/
theorem eq_eval {x : Nat} {w : SWord} (h : ∀ j, x.testBit j = (bit w j).eval obj args) :
    x = SWord.eval obj args w := by
  apply Nat.eq_of_testBit_eq
  intro j
  rw [testBit_eval, h]

theorem eval_append (a b : SWord) :
    SWord.eval obj args (a ++ b) = SWord.eval obj args a + 2 ^ a.length * SWord.eval obj args b := by
  induction a with
  | nil => simp
  | cons x a ih =>
    rw [List.cons_append, eval_cons, eval_cons, ih, List.length_cons, Nat.pow_succ]
    generalize SWord.eval obj args a = A
    generalize SWord.eval obj args b = B
    rw [Nat.mul_add, Nat.mul_comm (2 ^ a.length) 2, Nat.mul_assoc]
    omega

theorem eval_fit (n : Nat) (w : SWord) : SWord.eval obj args (fit n w) = SWord.eval obj args w % 2 ^ n := by
  symm
  apply eq_eval
  intro j
  rw [Nat.testBit_mod_two_pow, testBit_eval, bit_fit]
  by_cases h : j < n <;> simp [h]

theorem eval_take (n : Nat) (w : SWord) : SWord.eval obj args (w.take n) = SWord.eval obj args w % 2 ^ n := by
  symm
  apply eq_eval
  intro j
  rw [Nat.testBit_mod_two_pow, testBit_eval, bit_take]
  by_cases h : j < n <;> simp [h]

theorem eval_drop (n : Nat) (w : SWord) : SWord.eval obj args (w.drop n) = SWord.eval obj args w >>> n := by
  symm
  apply eq_eval
  intro j
  rw [Nat.testBit_shiftRight, testBit_eval, bit_drop]

theorem eval_drop_div (n : Nat) (w : SWord) : SWord.eval obj args (w.drop n) = SWord.eval obj args w / 2 ^ n := by
  rw [eval_drop, Nat.shiftRight_eq_div_pow]

theorem eval_shl (n : Nat) (w : SWord) :
    SWord.eval obj args (List.replicate n SBit.zero ++ w) = SWord.eval obj args w <<< n := by
  symm
  apply eq_eval
  intro j
  rw [Nat.testBit_shiftLeft, testBit_eval, bit_append, bit_replicate_zero, List.length_replicate]
  by_cases h : j < n
  · have : ¬ j ≥ n := by omega
    simp [h, this]
  · have : j ≥ n := by omega
    simp [h, this]

theorem eval_replicate_zero (n : Nat) : SWord.eval obj args (List.replicate n SBit.zero) = 0 := by
  symm
  apply eq_eval
  intro j
  rw [bit_replicate_zero]
  simp

/-! ### constants, arguments -/

theorem eval_constBits (n c : Nat) : SWord.eval obj args (constBits n c) = c % 2 ^ n := by
  induction n generalizing c with
  | zero => simp [constBits, Nat.mod_one]
  | succ n ih =>
    rw [constBits, eval_cons, ih, Nat.pow_succ, Nat.mul_comm (2 ^ n) 2, Nat.mod_mul]
    split
    · next h => simp; omega
    · next h => simp; omega

@[simp] theorem constBits_length (n c : Nat) : (constBits n c).length = n := by
  induction n generalizing c with
  | zero => rfl
  | succ n ih => simp [constBits, ih]

theorem eval_argWord (k lo hi : Nat) (h1 : args.getD k 0 < 2 ^ hi) (h2 : args.getD k 0 % 2 ^ lo = 0) :
    SWord.eval obj args ((List.range hi).map fun j => if lo ≤ j then SBit.arg k j else SBit.zero) = args.getD k 0 := by
  symm
  apply eq_eval
  intro j
  rw [bit_map_range]
  by_cases h : j < hi
  · rw [if_pos h]
    by_cases hl : lo ≤ j
    · rw [if_pos hl]; rfl
    · rw [if_neg hl]
      have := Nat.testBit_mod_two_pow (args.getD k 0) lo j
      rw [h2] at this
      simp only [Nat.zero_testBit] at this
      have hj : j < lo := by omega
      simp only [hj, decide_true, Bool.true_and] at this
      rw [← this]; rfl
  · rw [if_neg h]
    exact Nat.testBit_lt_two_pow (Nat.lt_of_lt_of_le h1 (Nat.pow_le_pow_right (by decide) (by omega)))

/-! ### known-zero high bits -/

theorem allZero_bit {w : SWord} (h : allZero w = true) (j : Nat) : bit w j = SBit.zero := by
  by_cases hj : j < w.length
  · rw [bit_eq_getElem w j hj]
    unfold allZero at h
    rw [List.all_eq_true] at h
    have := h w[j] (List.getElem_mem hj)
    simpa using this
  · exact bit_of_le w j (by omega)

theorem allZero_drop_lt {w : SWord} {k : Nat} (h : allZero (w.drop k) = true) : SWord.eval obj args w < 2 ^ k := by
  apply Nat.lt_pow_two_of_testBit
  intro i hi
  rw [testBit_eval]
  have := allZero_bit h (i - k)
  rw [bit_drop] at this
  have e : k + (i - k) = i := by omega
  rw [e] at this
  rw [this]; rfl

end

end AsamCmp.Src.Bit
