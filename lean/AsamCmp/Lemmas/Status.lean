/-
  Helper lemmas for property C16 (status tracker = latest-message map).

  Generic part, for a key function `k : α → Nat`:
  * `findIdx` (the model's `find_if` + `distance`) against `List.find?` and `getElem?`;
  * `find?` by key after `modify` / `set` at the index found, after appending an entry with a new
    key, and — with `Nodup` keys — after `swapRemove`;
  * `swapRemove l i` is `l` minus `l[i]` up to permutation.
  Then the same facts read through the abstraction `absL` (of which `absIfs` and `absSt` are
  instances), and the per-operation facts about `DevSt.update / updateIfs / removeIf`.
-/
import AsamCmp.Lemmas.StatusSpec
namespace AsamCmp.C16
open AsamCmp

/-! ### `findIdx` -/

section generic
variable {α : Type}

theorem findIdx_cons_pos (f : α → Bool) (a : α) (l : List α) (h : f a = true) :
    findIdx f (a :: l) = 0 := by
  simp [findIdx, h]

theorem findIdx_cons_neg (f : α → Bool) (a : α) (l : List α) (h : ¬ f a = true) :
    findIdx f (a :: l) = findIdx f l + 1 := by
  simp [findIdx, h]

theorem findIdx_le (f : α → Bool) (l : List α) : findIdx f l ≤ l.length := by
  induction l with
  | nil => simp [findIdx]
  | cons a l ih =>
    by_cases h : f a = true
    · rw [findIdx_cons_pos f a l h]; exact Nat.zero_le _
    · rw [findIdx_cons_neg f a l h]; simp only [List.length_cons]; omega

/-- found: the index holds the first match, which is what `find?` returns -/
theorem findIdx_found (f : α → Bool) (l : List α) (h : findIdx f l < l.length) :
    ∃ x, l[findIdx f l]? = some x ∧ f x = true ∧ l.find? f = some x := by
  induction l with
  | nil => simp [findIdx] at h
  | cons a l ih =>
    by_cases ha : f a = true
    · rw [findIdx_cons_pos f a l ha]
      exact ⟨a, rfl, ha, List.find?_cons_of_pos ha⟩
    · rw [findIdx_cons_neg f a l ha] at h ⊢
      simp only [List.length_cons] at h
      obtain ⟨x, hx, hfx, hfind⟩ := ih (by omega)
      refine ⟨x, ?_, hfx, ?_⟩
      · rw [List.getElem?_cons_succ]; exact hx
      · rw [List.find?_cons_of_neg ha]; exact hfind

/-- not found: the index is the element count and `find?` fails -/
theorem findIdx_notfound (f : α → Bool) (l : List α) (h : ¬ findIdx f l < l.length) :
    findIdx f l = l.length ∧ l.find? f = none := by
  induction l with
  | nil => simp [findIdx]
  | cons a l ih =>
    by_cases ha : f a = true
    · rw [findIdx_cons_pos f a l ha] at h
      simp at h
    · rw [findIdx_cons_neg f a l ha] at h ⊢
      simp only [List.length_cons] at h
      obtain ⟨h1, h2⟩ := ih (by omega)
      exact ⟨by simp only [List.length_cons]; omega, by rw [List.find?_cons_of_neg ha]; exact h2⟩

theorem findIdx_before (f : α → Bool) (l : List α) :
    ∀ j, j < findIdx f l → ∀ d, l[j]? = some d → ¬ f d = true := by
  induction l with
  | nil => intro j hj; simp [findIdx] at hj
  | cons a l ih =>
    intro j hj d hd
    by_cases ha : f a = true
    · rw [findIdx_cons_pos f a l ha] at hj; omega
    · rw [findIdx_cons_neg f a l ha] at hj
      cases j with
      | zero =>
        simp only [List.getElem?_cons_zero, Option.some.injEq] at hd
        rw [← hd]; exact ha
      | succ j =>
        rw [List.getElem?_cons_succ] at hd
        exact ih j (by omega) d hd

theorem findIdx_lt_iff (f : α → Bool) (l : List α) :
    findIdx f l < l.length ↔ ∃ x ∈ l, f x = true := by
  constructor
  · intro h
    obtain ⟨x, hx, hfx, _⟩ := findIdx_found f l h
    exact ⟨x, List.mem_of_getElem? hx, hfx⟩
  · intro ⟨x, hx, hfx⟩
    apply Classical.byContradiction
    intro h
    have := (findIdx_notfound f l h).2
    rw [List.find?_eq_none] at this
    exact this x hx hfx

/-! ### `modify`, `set`, append -/

theorem set_eq_modify (l : List α) (i : Nat) (y : α) : l.set i y = l.modify i (fun _ => y) := by
  induction l generalizing i with
  | nil => simp
  | cons a l ih =>
    cases i with
    | zero => simp
    | succ i => simp [ih]

theorem mem_modify (g : α → α) (l : List α) (i : Nat) (y : α) (h : y ∈ l.modify i g) :
    y ∈ l ∨ ∃ a, l[i]? = some a ∧ y = g a := by
  induction l generalizing i with
  | nil => simp at h
  | cons a l ih =>
    cases i with
    | zero =>
      rw [List.modify_zero_cons] at h
      rcases List.mem_cons.1 h with h | h
      · exact Or.inr ⟨a, rfl, h⟩
      · exact Or.inl (List.mem_cons_of_mem _ h)
    | succ i =>
      rw [List.modify_succ_cons] at h
      rcases List.mem_cons.1 h with h | h
      · exact Or.inl (h ▸ List.mem_cons_self ..)
      · rcases ih i h with h | ⟨b, hb, hy⟩
        · exact Or.inl (List.mem_cons_of_mem _ h)
        · exact Or.inr ⟨b, by rw [List.getElem?_cons_succ]; exact hb, hy⟩

variable (k : α → Nat)

/-- modifying the first entry with key `id` by a key-preserving function: that entry is replaced,
    lookups of other keys are unaffected -/
theorem find?_modify (id : Nat) (g : α → α) (hk : ∀ x, k x = id → k (g x) = id) (l : List α)
    (id' : Nat) :
    (l.modify (findIdx (fun x => k x == id) l) g).find? (fun x => k x == id') =
      if id' = id then (l.find? (fun x => k x == id)).map g else l.find? (fun x => k x == id') := by
  induction l with
  | nil => simp [findIdx]
  | cons a l ih =>
    by_cases ha : k a = id
    · have hga := hk a ha
      rw [findIdx_cons_pos _ a l (by simp [ha]), List.modify_zero_cons]
      by_cases hid : id' = id
      · rw [if_pos hid, List.find?_cons_of_pos (by simp [hga, hid]),
          List.find?_cons_of_pos (by simp [ha])]
        rfl
      · rw [if_neg hid, List.find?_cons_of_neg (by simp [hga]; exact fun h => hid h.symm),
          List.find?_cons_of_neg (by simp [ha]; exact fun h => hid h.symm)]
    · rw [findIdx_cons_neg _ a l (by simp [ha]), List.modify_succ_cons]
      by_cases ha' : k a = id'
      · have hne : id' ≠ id := fun h => ha (ha'.trans h)
        rw [if_neg hne, List.find?_cons_of_pos (by simp [ha']),
          List.find?_cons_of_pos (by simp [ha'])]
      · rw [List.find?_cons_of_neg (by simp [ha']), ih,
          List.find?_cons_of_neg (p := fun x => k x == id) (by simp [ha])]
        split
        · rfl
        · rw [List.find?_cons_of_neg (by simp [ha'])]

/-- … and the list of keys does not change -/
theorem map_modify (id : Nat) (g : α → α) (hk : ∀ x, k x = id → k (g x) = id) (l : List α) :
    (l.modify (findIdx (fun x => k x == id) l) g).map k = l.map k := by
  induction l with
  | nil => simp
  | cons a l ih =>
    by_cases ha : k a = id
    · rw [findIdx_cons_pos _ a l (by simp [ha]), List.modify_zero_cons]
      simp [hk a ha, ha]
    · rw [findIdx_cons_neg _ a l (by simp [ha]), List.modify_succ_cons]
      simp [ih]

theorem find?_append_single (l : List α) (y : α) (id' : Nat) :
    (l ++ [y]).find? (fun x => k x == id') =
      (l.find? (fun x => k x == id')).or (if k y = id' then some y else none) := by
  rw [List.find?_append]
  congr 1
  by_cases h : k y = id'
  · rw [if_pos h, List.find?_cons_of_pos (by simp [h])]
  · rw [if_neg h, List.find?_cons_of_neg (by simp [h])]; rfl

/-! ### unique keys -/

/-- with unique keys, `find?` by key is membership -/
theorem find?_some_iff (l : List α) (hnd : (l.map k).Nodup) (id : Nat) (x : α) :
    l.find? (fun y => k y == id) = some x ↔ x ∈ l ∧ k x = id := by
  induction l with
  | nil => simp
  | cons a l ih =>
    rw [List.map_cons, List.nodup_cons] at hnd
    obtain ⟨hna, hnd'⟩ := hnd
    by_cases ha : k a = id
    · rw [List.find?_cons_of_pos (by simp [ha])]
      constructor
      · intro h
        injection h with h
        subst h
        exact ⟨List.mem_cons_self .., ha⟩
      · intro ⟨hx, hkx⟩
        rcases List.mem_cons.1 hx with rfl | hx
        · rfl
        · exact absurd (List.mem_map.2 ⟨x, hx, hkx.trans ha.symm⟩) hna
    · rw [List.find?_cons_of_neg (by simp [ha]), ih hnd']
      constructor
      · intro ⟨hx, hkx⟩; exact ⟨List.mem_cons_of_mem _ hx, hkx⟩
      · intro ⟨hx, hkx⟩
        rcases List.mem_cons.1 hx with rfl | hx
        · exact absurd hkx ha
        · exact ⟨hx, hkx⟩

theorem nodup_append_single (l : List α) (y : α) (hnd : (l.map k).Nodup)
    (hy : ∀ x ∈ l, k x ≠ k y) : ((l ++ [y]).map k).Nodup := by
  rw [List.map_append, List.nodup_append]
  refine ⟨hnd, by simp, ?_⟩
  intro a ha b hb
  simp only [List.map_cons, List.map_nil, List.mem_singleton] at hb
  obtain ⟨x, hx, rfl⟩ := List.mem_map.1 ha
  rw [hb]; exact hy x hx

end generic

/-! ### `swapRemove` -/

section swap
variable {α : Type}

theorem swapRemove_snoc (ys : List α) (b : α) (i : Nat) :
    swapRemove (ys ++ [b]) i = if i < ys.length then ys.set i b else ys := by
  unfold swapRemove
  rw [List.getLast?_concat]
  simp only
  rw [List.set_append]
  split
  · rw [List.dropLast_concat]
  · have : [b].set (i - ys.length) b = [b] := by cases (i - ys.length) <;> rfl
    rw [this, List.dropLast_concat]

theorem set_perm (ys : List α) (b : α) : ∀ (i : Nat) (a : α), ys[i]? = some a →
    (b :: ys).Perm (a :: ys.set i b) := by
  induction ys with
  | nil => intro i a h; simp at h
  | cons y ys ih =>
    intro i a h
    cases i with
    | zero =>
      simp only [List.getElem?_cons_zero, Option.some.injEq] at h
      subst h
      exact List.Perm.swap ..
    | succ i =>
      rw [List.getElem?_cons_succ] at h
      rw [List.set_cons_succ]
      exact (List.Perm.swap y b ys).trans (((ih i a h).cons y).trans (List.Perm.swap a y _))

/-- `swapRemove l i` is `l` without `l[i]`, up to order -/
theorem swapRemove_perm (l : List α) (i : Nat) (a : α) (ha : l[i]? = some a) :
    l.Perm (a :: swapRemove l i) := by
  cases h : l.getLast? with
  | none =>
    rw [List.getLast?_eq_none_iff] at h
    subst h
    simp at ha
  | some b =>
    obtain ⟨ys, rfl⟩ := List.getLast?_eq_some_iff.1 h
    rw [swapRemove_snoc]
    have hcomm : (ys ++ [b]).Perm (b :: ys) := List.perm_append_comm
    by_cases hi : i < ys.length
    · rw [if_pos hi]
      rw [List.getElem?_append_left hi] at ha
      exact hcomm.trans (set_perm ys b i a ha)
    · rw [if_neg hi]
      rw [List.getElem?_append_right (by omega)] at ha
      have : a = b := by
        cases hj : i - ys.length with
        | zero => rw [hj] at ha; simpa using ha.symm
        | succ j => rw [hj] at ha; simp at ha
      rw [this]
      exact hcomm

theorem mem_of_mem_swapRemove (l : List α) (i : Nat) (a : α) (ha : l[i]? = some a) (x : α)
    (hx : x ∈ swapRemove l i) : x ∈ l :=
  (swapRemove_perm l i a ha).mem_iff.2 (List.mem_cons_of_mem _ hx)

variable (k : α → Nat)

theorem nodup_swapRemove (l : List α) (i : Nat) (a : α) (ha : l[i]? = some a)
    (hnd : (l.map k).Nodup) :
    k a ∉ (swapRemove l i).map k ∧ ((swapRemove l i).map k).Nodup := by
  have := ((swapRemove_perm l i a ha).map k).nodup_iff.1 hnd
  rw [List.map_cons, List.nodup_cons] at this
  exact this

/-- with unique keys, removing the entry at `i`: its key is gone, every other lookup unchanged -/
theorem find?_swapRemove (l : List α) (i : Nat) (a : α) (ha : l[i]? = some a)
    (hnd : (l.map k).Nodup) (id' : Nat) :
    (swapRemove l i).find? (fun x => k x == id') =
      if id' = k a then none else l.find? (fun x => k x == id') := by
  obtain ⟨hna, hnd'⟩ := nodup_swapRemove k l i a ha hnd
  have hperm := swapRemove_perm l i a ha
  by_cases hid : id' = k a
  · rw [if_pos hid, List.find?_eq_none]
    intro x hx hkx
    simp only [beq_iff_eq] at hkx
    exact hna (List.mem_map.2 ⟨x, hx, hkx.trans hid⟩)
  · rw [if_neg hid]
    apply Option.ext
    intro x
    rw [find?_some_iff k _ hnd', find?_some_iff k _ hnd]
    constructor
    · intro ⟨hx, hkx⟩; exact ⟨hperm.mem_iff.2 (List.mem_cons_of_mem _ hx), hkx⟩
    · intro ⟨hx, hkx⟩
      rcases List.mem_cons.1 (hperm.mem_iff.1 hx) with rfl | hx'
      · exact absurd hkx.symm hid
      · exact ⟨hx', hkx⟩

end swap

/-! ### the abstraction, generically -/

section absL
variable {α β : Type} (k : α → Nat) (v : α → β)

/-- first entry with the key, read through `v`; `absIfs` and `absSt` are instances -/
def absL (l : List α) : Nat → Option β := fun id => (l.find? (fun x => k x == id)).map v

theorem setMap_self {β : Type} (m : Nat → Option β) (id : Nat) (o : Option β) (h : m id = o) :
    setMap m id o = m := by
  funext x
  unfold setMap
  split
  · next hx => rw [hx, h]
  · rfl

theorem absL_found (l : List α) (id : Nat) (h : findIdx (fun x => k x == id) l < l.length) :
    ∃ a, l[findIdx (fun x => k x == id) l]? = some a ∧ k a = id ∧ a ∈ l ∧
      l.find? (fun x => k x == id) = some a ∧ absL k v l id = some (v a) := by
  obtain ⟨a, ha, hka, hfind⟩ := findIdx_found _ l h
  refine ⟨a, ha, by simpa using hka, List.mem_of_getElem? ha, hfind, ?_⟩
  unfold absL
  rw [hfind]; rfl

theorem absL_notfound (l : List α) (id : Nat) (h : ¬ findIdx (fun x => k x == id) l < l.length) :
    findIdx (fun x => k x == id) l = l.length ∧ l.find? (fun x => k x == id) = none ∧
      absL k v l id = none ∧ ∀ x ∈ l, k x ≠ id := by
  obtain ⟨h1, h2⟩ := findIdx_notfound _ l h
  refine ⟨h1, h2, ?_, ?_⟩
  · unfold absL; rw [h2]; rfl
  · intro x hx hkx
    rw [List.find?_eq_none] at h2
    exact h2 x hx (by simp [hkx])

theorem absL_modify (l : List α) (id : Nat) (g : α → α) (hk : ∀ x, k x = id → k (g x) = id) (a : α)
    (ha : l.find? (fun x => k x == id) = some a) :
    absL k v (l.modify (findIdx (fun x => k x == id) l) g) = setMap (absL k v l) id (some (v (g a))) := by
  funext id'
  unfold absL setMap
  rw [find?_modify k id g hk l id']
  split
  · rw [ha]; rfl
  · rfl

theorem absL_append (l : List α) (id : Nat) (y : α) (hy : k y = id)
    (hnone : l.find? (fun x => k x == id) = none) :
    absL k v (l ++ [y]) = setMap (absL k v l) id (some (v y)) := by
  funext id'
  unfold absL setMap
  rw [find?_append_single]
  by_cases hid : id' = id
  · subst hid
    rw [hnone, if_pos hy, if_pos rfl]; rfl
  · rw [if_neg hid, if_neg (fun h => hid (h.symm.trans hy)), Option.or_none]

theorem absL_swapRemove (l : List α) (i : Nat) (a : α) (ha : l[i]? = some a) (hnd : (l.map k).Nodup) :
    absL k v (swapRemove l i) = setMap (absL k v l) (k a) none := by
  funext id'
  unfold absL setMap
  rw [find?_swapRemove k l i a ha hnd id']
  split <;> rfl

end absL

/-! ### interface entries of one device -/

theorem absIfs_eq (l : List IfSt) : absIfs l = absL (fun i : IfSt => i.id) (fun i => i.pkt) l := rfl

theorem absSt_eq (s : StatusSt) :
    absSt s = absL (fun d : DevSt => d.pkt.deviceId) (fun d => (d.pkt, absIfs d.ifs)) s := rfl

/-- every interface entry is keyed by the id inside its packet -/
def KeyOk (l : List IfSt) : Prop := ∀ x ∈ l, x.id = x.pkt.payloadIfId

theorem updateIfs_pkt (d : DevSt) (p : Packet) : (d.updateIfs p).pkt = d.pkt := by
  unfold DevSt.updateIfs
  simp only
  split <;> rfl

theorem updateIfs_ifs (d : DevSt) (p : Packet) :
    (d.updateIfs p).ifs =
      if findIdx (fun i : IfSt => i.id == p.payloadIfId) d.ifs < d.ifs.length then
        d.ifs.modify (findIdx (fun i : IfSt => i.id == p.payloadIfId) d.ifs) (fun _ => ⟨p.payloadIfId, p⟩)
      else d.ifs ++ [⟨p.payloadIfId, p⟩] := by
  have hle := findIdx_le (fun i : IfSt => i.id == p.payloadIfId) d.ifs
  unfold DevSt.updateIfs DevSt.indexOfIf
  simp only
  split
  · next h => rw [if_pos (by omega), set_eq_modify]
  · next h => rw [if_neg (by omega)]

theorem absIfs_updateIfs (d : DevSt) (p : Packet) :
    absIfs (d.updateIfs p).ifs = setMap (absIfs d.ifs) p.payloadIfId (some p) := by
  rw [updateIfs_ifs, absIfs_eq, absIfs_eq]
  split
  · next h =>
    obtain ⟨a, _, _, _, hfind, _⟩ := absL_found (fun i : IfSt => i.id) (fun i => i.pkt) d.ifs _ h
    exact absL_modify (fun i : IfSt => i.id) (fun i => i.pkt) d.ifs p.payloadIfId _ (fun _ _ => rfl) a hfind
  · next h =>
    obtain ⟨_, hnone, _, _⟩ := absL_notfound (fun i : IfSt => i.id) (fun i => i.pkt) d.ifs _ h
    exact absL_append (fun i : IfSt => i.id) (fun i => i.pkt) d.ifs p.payloadIfId _ rfl hnone

theorem nodup_updateIfs (d : DevSt) (p : Packet) (h : (d.ifs.map (·.id)).Nodup) :
    ((d.updateIfs p).ifs.map (·.id)).Nodup := by
  rw [updateIfs_ifs]
  split
  · rw [map_modify (fun i : IfSt => i.id) p.payloadIfId _ (fun _ _ => rfl)]; exact h
  · next hn =>
    obtain ⟨_, _, _, hne⟩ := absL_notfound (fun i : IfSt => i.id) (fun i => i.pkt) d.ifs _ hn
    exact nodup_append_single (fun i : IfSt => i.id) d.ifs _ h hne

theorem keyOk_updateIfs (d : DevSt) (p : Packet) (h : KeyOk d.ifs) : KeyOk (d.updateIfs p).ifs := by
  rw [updateIfs_ifs]
  intro x hx
  split at hx
  · rcases mem_modify _ _ _ _ hx with hx | ⟨_, _, rfl⟩
    · exact h x hx
    · rfl
  · rcases List.mem_append.1 hx with hx | hx
    · exact h x hx
    · simp only [List.mem_singleton] at hx
      rw [hx]

theorem removeIf_pkt (d : DevSt) (id : Nat) : (d.removeIf id).pkt = d.pkt := by
  unfold DevSt.removeIf
  simp only
  split <;> rfl

theorem removeIf_ifs (d : DevSt) (id : Nat) :
    (d.removeIf id).ifs =
      if findIdx (fun i : IfSt => i.id == id) d.ifs < d.ifs.length then
        swapRemove d.ifs (findIdx (fun i : IfSt => i.id == id) d.ifs)
      else d.ifs := by
  have hle := findIdx_le (fun i : IfSt => i.id == id) d.ifs
  unfold DevSt.removeIf DevSt.indexOfIf
  simp only
  split
  · next h => rw [if_pos (by omega)]
  · next h => rw [if_neg (by omega)]

theorem absIfs_removeIf (d : DevSt) (id : Nat) (hnd : (d.ifs.map (·.id)).Nodup) :
    absIfs (d.removeIf id).ifs = setMap (absIfs d.ifs) id none := by
  rw [removeIf_ifs, absIfs_eq, absIfs_eq]
  split
  · next h =>
    obtain ⟨a, ha, hka, _, _, _⟩ := absL_found (fun i : IfSt => i.id) (fun i => i.pkt) d.ifs _ h
    rw [absL_swapRemove (fun i : IfSt => i.id) (fun i => i.pkt) d.ifs _ a ha hnd, hka]
  · next h =>
    obtain ⟨_, _, hnone, _⟩ := absL_notfound (fun i : IfSt => i.id) (fun i => i.pkt) d.ifs _ h
    exact (setMap_self _ id none hnone).symm

theorem nodup_removeIf (d : DevSt) (id : Nat) (hnd : (d.ifs.map (·.id)).Nodup) :
    ((d.removeIf id).ifs.map (·.id)).Nodup := by
  rw [removeIf_ifs]
  split
  · next h =>
    obtain ⟨a, ha, _⟩ := absL_found (fun i : IfSt => i.id) (fun i => i.pkt) d.ifs _ h
    exact (nodup_swapRemove (fun i : IfSt => i.id) d.ifs _ a ha hnd).2
  · exact hnd

theorem keyOk_removeIf (d : DevSt) (id : Nat) (h : KeyOk d.ifs) : KeyOk (d.removeIf id).ifs := by
  rw [removeIf_ifs]
  split
  · next hlt =>
    obtain ⟨a, ha, _⟩ := absL_found (fun i : IfSt => i.id) (fun i => i.pkt) d.ifs _ hlt
    intro x hx
    exact h x (mem_of_mem_swapRemove d.ifs _ a ha x hx)
  · exact h

/-! ### `DevSt.update` -/

theorem tyIf_ne_tyCm : tyIf ≠ tyCm := by decide

theorem update_pkt (d : DevSt) (p : Packet) :
    (d.update p).pkt = if p.pty = tyCm then p else d.pkt := by
  unfold DevSt.update
  by_cases h1 : p.pty = tyCm
  · simp only [if_pos h1]
  · by_cases h2 : p.pty = tyIf
    · simp only [if_neg h1, if_pos h2, updateIfs_pkt]
    · simp only [if_neg h1, if_neg h2]

theorem update_ifs (d : DevSt) (p : Packet) :
    (d.update p).ifs = if p.pty = tyIf then (d.updateIfs p).ifs else d.ifs := by
  unfold DevSt.update
  by_cases h1 : p.pty = tyCm
  · by_cases h2 : p.pty = tyIf
    · simp only [if_pos h1, if_pos h2]
    · simp only [if_pos h1, if_neg h2]
  · by_cases h2 : p.pty = tyIf
    · simp only [if_neg h1, if_pos h2]
    · simp only [if_neg h1, if_neg h2]

theorem update_key (p : Packet) (d : DevSt) (h : d.pkt.deviceId = p.deviceId) :
    (d.update p).pkt.deviceId = p.deviceId := by
  rw [update_pkt]
  split
  · rfl
  · exact h

theorem nodup_update (d : DevSt) (p : Packet) (h : (d.ifs.map (·.id)).Nodup) :
    ((d.update p).ifs.map (·.id)).Nodup := by
  rw [update_ifs]
  split
  · exact nodup_updateIfs d p h
  · exact h

theorem keyOk_update (d : DevSt) (p : Packet) (h : KeyOk d.ifs) : KeyOk (d.update p).ifs := by
  rw [update_ifs]
  split
  · exact keyOk_updateIfs d p h
  · exact h

/-- the entry appended for a new device -/
theorem blank_update (p : Packet) (h : p.pty = tyCm) :
    ({ pkt := Packet.mk none 1 0 0 0 0 0 0 0 0, ifs := [] } : DevSt).update p = ⟨p, []⟩ := by
  have h2 : p.pty ≠ tyIf := fun h' => tyIf_ne_tyCm (h'.symm.trans h)
  unfold DevSt.update
  simp only [if_pos h, if_neg h2]

/-! ### the device vector -/

/-- key and value read from a device entry (`absSt = absL kD vD`) -/
abbrev kD : DevSt → Nat := fun d => d.pkt.deviceId
abbrev vD : DevSt → Packet × IfMap := fun d => (d.pkt, absIfs d.ifs)

theorem indexOfDev_le (s : StatusSt) (id : Nat) : indexOfDev s id ≤ s.length := findIdx_le _ s

/-- the device is known: its entry, as the model finds it and as the abstraction reads it -/
theorem dev_found (s : StatusSt) (id : Nat) (h : indexOfDev s id < s.length) :
    ∃ a, s[indexOfDev s id]? = some a ∧ a.pkt.deviceId = id ∧ a ∈ s ∧
      s.find? (fun d => d.pkt.deviceId == id) = some a ∧ absSt s id = some (a.pkt, absIfs a.ifs) :=
  absL_found kD vD s id h

theorem dev_notfound (s : StatusSt) (id : Nat) (h : ¬ indexOfDev s id < s.length) :
    indexOfDev s id = s.length ∧ s.find? (fun d => d.pkt.deviceId == id) = none ∧
      absSt s id = none ∧ ∀ x ∈ s, x.pkt.deviceId ≠ id :=
  absL_notfound kD vD s id h

theorem statusUpdate_found (s : StatusSt) (p : Packet) (h : indexOfDev s p.deviceId < s.length) :
    statusUpdate s p = s.modify (indexOfDev s p.deviceId) (fun d => d.update p) := by
  unfold statusUpdate
  simp only
  rw [if_pos h]

theorem statusUpdate_new (s : StatusSt) (p : Packet) (h : ¬ indexOfDev s p.deviceId < s.length) :
    statusUpdate s p = if p.pty = tyCm then s ++ [⟨p, []⟩] else s := by
  unfold statusUpdate
  simp only
  rw [if_neg h]
  split
  · next h1 => rw [blank_update p h1]
  · rfl

theorem statusRemoveDev_eq (s : StatusSt) (id : Nat) :
    statusRemoveDev s id =
      if indexOfDev s id < s.length then swapRemove s (indexOfDev s id) else s := by
  have := indexOfDev_le s id
  unfold statusRemoveDev
  simp only
  split
  · rw [if_pos (by omega)]
  · rw [if_neg (by omega)]

theorem statusRemoveIf_eq (s : StatusSt) (dev id : Nat) :
    statusRemoveIf s dev id =
      if indexOfDev s dev < s.length then s.modify (indexOfDev s dev) (fun d => d.removeIf id) else s := rfl

/-! #### invariant -/

theorem inv_modify (s : StatusSt) (id : Nat) (g : DevSt → DevSt)
    (hk : ∀ x : DevSt, x.pkt.deviceId = id → (g x).pkt.deviceId = id)
    (hn : ∀ x : DevSt, (x.ifs.map (·.id)).Nodup → ((g x).ifs.map (·.id)).Nodup)
    (h : Inv s) : Inv (s.modify (indexOfDev s id) g) := by
  constructor
  · have := map_modify kD id g hk s
    exact this ▸ h.1
  · intro d hd
    rcases mem_modify g s _ d hd with hd | ⟨a, ha, rfl⟩
    · exact h.2 d hd
    · exact hn a (h.2 a (List.mem_of_getElem? ha))

theorem inv_update (s : StatusSt) (p : Packet) (h : Inv s) : Inv (statusUpdate s p) := by
  by_cases hlt : indexOfDev s p.deviceId < s.length
  · rw [statusUpdate_found s p hlt]
    exact inv_modify s p.deviceId _ (update_key p) (fun x hx => nodup_update x p hx) h
  · rw [statusUpdate_new s p hlt]
    split
    · obtain ⟨_, _, _, hne⟩ := dev_notfound s p.deviceId hlt
      constructor
      · exact nodup_append_single kD s ⟨p, []⟩ h.1 hne
      · intro d hd
        rcases List.mem_append.1 hd with hd | hd
        · exact h.2 d hd
        · simp only [List.mem_singleton] at hd
          rw [hd]; exact List.nodup_nil
    · exact h

theorem inv_rmDev (s : StatusSt) (id : Nat) (h : Inv s) : Inv (statusRemoveDev s id) := by
  rw [statusRemoveDev_eq]
  split
  · next hlt =>
    obtain ⟨a, ha, _⟩ := dev_found s id hlt
    constructor
    · exact (nodup_swapRemove kD s _ a ha h.1).2
    · intro d hd
      exact h.2 d (mem_of_mem_swapRemove s _ a ha d hd)
  · exact h

theorem inv_rmIf (s : StatusSt) (dev id : Nat) (h : Inv s) : Inv (statusRemoveIf s dev id) := by
  rw [statusRemoveIf_eq]
  split
  · exact inv_modify s dev _ (fun x hx => by rw [removeIf_pkt]; exact hx)
      (fun x hx => nodup_removeIf x id hx) h
  · exact h

theorem inv_statusStep (s : StatusSt) (op : StOp) (h : Inv s) : Inv (statusStep s op) := by
  cases op with
  | update p => exact inv_update s p h
  | rmDev id => exact inv_rmDev s id h
  | rmIf dev id => exact inv_rmIf s dev id h
  | clear => exact ⟨List.nodup_nil, fun d hd => by cases hd⟩

/-! #### abstraction -/

theorem absSt_modify (s : StatusSt) (id : Nat) (g : DevSt → DevSt)
    (hk : ∀ x : DevSt, x.pkt.deviceId = id → (g x).pkt.deviceId = id) (a : DevSt)
    (ha : s.find? (fun d => d.pkt.deviceId == id) = some a) :
    absSt (s.modify (indexOfDev s id) g) = setMap (absSt s) id (some ((g a).pkt, absIfs (g a).ifs)) :=
  absL_modify kD vD s id g hk a ha

theorem abs_update (s : StatusSt) (p : Packet) :
    absSt (statusUpdate s p) = specStep (absSt s) (.update p) := by
  by_cases hlt : indexOfDev s p.deviceId < s.length
  · obtain ⟨a, _, _, _, hfind, habs⟩ := dev_found s p.deviceId hlt
    rw [statusUpdate_found s p hlt, absSt_modify s p.deviceId _ (update_key p) a hfind]
    simp only [specStep, habs]
    rw [update_pkt, update_ifs]
    by_cases h2 : p.pty = tyIf
    · have h1 : p.pty ≠ tyCm := fun h => tyIf_ne_tyCm (h2.symm.trans h)
      simp only [if_pos h2, if_neg h1, absIfs_updateIfs]
    · by_cases h1 : p.pty = tyCm
      · simp only [if_pos h1, if_neg h2]
      · simp only [if_neg h1, if_neg h2]
        exact setMap_self _ _ _ habs
  · obtain ⟨_, hnone, habs, _⟩ := dev_notfound s p.deviceId hlt
    rw [statusUpdate_new s p hlt]
    simp only [specStep, habs]
    split
    · exact absL_append kD vD s p.deviceId ⟨p, []⟩ rfl hnone
    · rfl

theorem abs_rmDev (s : StatusSt) (id : Nat) (h : Inv s) :
    absSt (statusRemoveDev s id) = specStep (absSt s) (.rmDev id) := by
  rw [statusRemoveDev_eq]
  simp only [specStep]
  split
  · next hlt =>
    obtain ⟨a, ha, hka, _⟩ := dev_found s id hlt
    have := absL_swapRemove kD vD s _ a ha h.1
    rw [show kD a = id from hka] at this
    exact this
  · next hlt =>
    obtain ⟨_, _, habs, _⟩ := dev_notfound s id hlt
    exact (setMap_self _ _ _ habs).symm

theorem abs_rmIf (s : StatusSt) (dev id : Nat) (h : Inv s) :
    absSt (statusRemoveIf s dev id) = specStep (absSt s) (.rmIf dev id) := by
  rw [statusRemoveIf_eq]
  split
  · next hlt =>
    obtain ⟨a, _, _, ham, hfind, habs⟩ := dev_found s dev hlt
    rw [absSt_modify s dev _ (fun x hx => by rw [removeIf_pkt]; exact hx) a hfind]
    simp only [specStep, habs]
    rw [removeIf_pkt, absIfs_removeIf a id (h.2 a ham)]
  · next hlt =>
    obtain ⟨_, _, habs, _⟩ := dev_notfound s dev hlt
    simp only [specStep, habs]

theorem abs_statusStep (s : StatusSt) (op : StOp) (h : Inv s) :
    absSt (statusStep s op) = specStep (absSt s) op := by
  cases op with
  | update p => exact abs_update s p
  | rmDev id => exact abs_rmDev s id h
  | rmIf dev id => exact abs_rmIf s dev id h
  | clear => rfl

/-- refinement from any state satisfying the invariant -/
theorem refines_from (ops : List StOp) : ∀ s : StatusSt, Inv s →
    absSt (statusRun s ops) = specRun (absSt s) ops ∧ Inv (statusRun s ops) := by
  induction ops with
  | nil => intro s h; exact ⟨rfl, h⟩
  | cons op ops ih =>
    intro s h
    have := ih (statusStep s op) (inv_statusStep s op h)
    rw [abs_statusStep s op h] at this
    exact this

/-! #### interface entries are keyed by their packet's id -/

def AllKeyOk (s : StatusSt) : Prop := ∀ d ∈ s, KeyOk d.ifs

theorem allKeyOk_modify (s : StatusSt) (i : Nat) (g : DevSt → DevSt)
    (hg : ∀ x : DevSt, KeyOk x.ifs → KeyOk (g x).ifs) (h : AllKeyOk s) : AllKeyOk (s.modify i g) := by
  intro d hd
  rcases mem_modify g s i d hd with hd | ⟨a, ha, rfl⟩
  · exact h d hd
  · exact hg a (h a (List.mem_of_getElem? ha))

theorem allKeyOk_statusStep (s : StatusSt) (op : StOp) (h : AllKeyOk s) : AllKeyOk (statusStep s op) := by
  cases op with
  | update p =>
    show AllKeyOk (statusUpdate s p)
    by_cases hlt : indexOfDev s p.deviceId < s.length
    · rw [statusUpdate_found s p hlt]
      exact allKeyOk_modify s _ _ (fun x hx => keyOk_update x p hx) h
    · rw [statusUpdate_new s p hlt]
      split
      · intro d hd
        rcases List.mem_append.1 hd with hd | hd
        · exact h d hd
        · simp only [List.mem_singleton] at hd
          rw [hd]; intro x hx; cases hx
      · exact h
  | rmDev id =>
    show AllKeyOk (statusRemoveDev s id)
    rw [statusRemoveDev_eq]
    split
    · next hlt =>
      obtain ⟨a, ha, _⟩ := dev_found s id hlt
      intro d hd
      exact h d (mem_of_mem_swapRemove s _ a ha d hd)
    · exact h
  | rmIf dev id =>
    show AllKeyOk (statusRemoveIf s dev id)
    rw [statusRemoveIf_eq]
    split
    · exact allKeyOk_modify s _ _ (fun x hx => keyOk_removeIf x id hx) h
    · exact h
  | clear => intro d hd; cases hd

theorem allKeyOk_run (ops : List StOp) : ∀ s : StatusSt, AllKeyOk s → AllKeyOk (statusRun s ops) := by
  induction ops with
  | nil => intro s h; exact h
  | cons op ops ih => intro s h; exact ih _ (allKeyOk_statusStep s op h)

end AsamCmp.C16
