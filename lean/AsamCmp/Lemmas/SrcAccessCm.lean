/-
  Source-level C03, capture-module status: `initStringView` / `removeTrailingNulls` on the memory `pre ++ b ++ post`,
  and the block bounds that `cmValid` provides.
-/
import AsamCmp.Lemmas.SrcAccess
namespace AsamCmp.SrcTie
open AsamCmp AsamCmp.Src AsamCmp.SrcGen

theorem beAt_two_lt (b : Bytes) (pos : Nat) (h : pos + 2 ≤ b.length) : beAt b pos 2 < 65536 := by
  rw [beAt_two b pos h]; have := byteAt_lt b pos; have := byteAt_lt b (pos + 1); omega

/-- a 16-bit value used as a signed pointer offset (`int` promotion) is non-negative -/
theorem nonneg_u16 (x : Nat) (h : x < 65536) : nonneg 32 x = some x := by
  unfold nonneg; rw [if_pos]; omega

/-- `initStringView(ptr, str)` at offset `pos` of the object: `str` becomes the `l` bytes behind the 16-bit length `l`,
    `ptr` moves behind them — the model's `cmBlock b pos = (pos + 2, l, pos + 2 + l)` -/
theorem initStringView_src (pre b post : Bytes) (pos : Nat) (sv : Nat × Nat) (h : pos + 2 ≤ b.length) :
    CaptureModulePayload_initStringView (pre ++ b ++ post) (pre.length + pos) sv
      = some (pre.length + (pos + 2 + beAt b pos 2), (pre.length + (pos + 2), beAt b pos 2)) := by
  have hl := beAt_two_lt b pos h
  simp only [CaptureModulePayload_initStringView]
  src_norm
  simp (disch := omega) only [nonneg_u16, some_bind, Nat.add_assoc]

theorem u8_bne_zero (x : UInt8) : (x.toNat != 0 % 256) = (x != 0) := by
  have e : x.toNat = 0 ↔ x = 0 := by
    constructor
    · intro h0; exact UInt8.toNat_inj.mp (by rw [h0]; rfl)
    · intro h0; rw [h0]; rfl
  rw [Bool.eq_iff_iff]
  simp only [bne_iff_ne, ne_eq, Nat.reduceMod]
  exact not_congr e

theorem takeWhile_length_le {α : Type} (p : α → Bool) (l : List α) : (l.takeWhile p).length ≤ l.length := by
  induction l with
  | nil => simp
  | cons x xs ih => simp only [List.takeWhile_cons]; split <;> simp <;> omega

/-- `removeTrailingNulls(str)` on a view inside the object: the view is cut at its first NUL — the model's `trimNul` -/
theorem removeTrailingNulls_src (pre b post : Bytes) (off len : Nat) (hb : b.length < 2 ^ 64)
    (h : off + len ≤ b.length) :
    CaptureModulePayload_removeTrailingNulls (pre ++ b ++ post) (pre.length + off, len)
      = some (pre.length + off, ((slice b off len).takeWhile (· != 0)).length) := by
  have hk : ((slice b off len).takeWhile (· != 0)).length ≤ len := by
    have := takeWhile_length_le (· != 0) (slice b off len)
    rw [slice_length b off len h] at this; exact this
  have hm : pre.length + off + len ≤ (pre ++ b ++ post).length := by simp only [List.length_append]; omega
  have hf : (fun x : UInt8 => x.toNat != 0 % 256) = (· != 0) := funext u8_bne_zero
  simp only [CaptureModulePayload_removeTrailingNulls, svFind, svRemoveSuffix, if_pos hm, slice_mid pre b post off len h, hf]
  src_norm
  generalize ((slice b off len).takeWhile (· != 0)).length = k at hk ⊢
  by_cases hlt : k < len
  · have hne : ¬ k = 18446744073709551615 := by omega
    have hsub : len - (len - k) = k := by omega
    simp (disch := omega) only [hlt, hne, if_true, not_false_eq_true, usub_eq, Nat.sub_le, hsub]
  · simp only [hlt, if_false, not_true_eq_false]
    congr 2; omega

/-- what one round of the validator's `blocksOk` says about the block at `pos` -/
theorem blocksOk_step (b : Bytes) (n pos : Nat) (hpos : pos ≤ b.length) (h : blocksOk (n + 1) (b.drop pos) = true) :
    pos + 2 + beAt b pos 2 ≤ b.length ∧ blocksOk n (b.drop (pos + 2 + beAt b pos 2)) = true := by
  have hl : (b.drop pos).length = b.length - pos := List.length_drop
  have hl2 : (List.drop 2 (List.drop pos b)).length = b.length - (pos + 2) := by
    simp only [List.length_drop]; omega
  have hd : ∀ k, List.drop k (List.drop 2 (List.drop pos b)) = List.drop (pos + 2 + k) b := by
    intro k; simp only [List.drop_drop]
  have he : beDec (List.take 2 (List.drop pos b)) = beAt b pos 2 := rfl
  unfold blocksOk at h
  dsimp only at h
  rw [hl, hl2, hd, he] at h
  by_cases h2 : b.length - pos < 2
  · rw [if_pos h2] at h; exact absurd h (by decide)
  · rw [if_neg h2] at h
    by_cases h3 : b.length - (pos + 2) < beAt b pos 2
    · rw [if_pos h3] at h; exact absurd h (by decide)
    · rw [if_neg h3] at h
      exact ⟨by omega, h⟩

/-- the same with names for the block's length and end (keeps the five nested positions small) -/
theorem blocksOk_block (b : Bytes) (n pos : Nat) (hpos : pos ≤ b.length) (h : blocksOk (n + 1) (b.drop pos) = true) :
    ∃ l p, beAt b pos 2 = l ∧ pos + 2 + l = p ∧ l < 65536 ∧ p ≤ b.length ∧ blocksOk n (b.drop p) = true := by
  obtain ⟨h1, h2⟩ := blocksOk_step b n pos hpos h
  exact ⟨_, _, rfl, rfl, beAt_two_lt b pos (by omega), h1, h2⟩

end AsamCmp.SrcTie
