/-
  Map specification, abstraction function and representation invariant of property C16 (see
  `AsamCmp/Props/C16.lean` for the statements).  Moved here verbatim from `Props/C16.lean` so that
  the helper lemmas of `AsamCmp/Lemmas/Status.lean` can use them.
-/
import AsamCmp.Status
namespace AsamCmp.C16
open AsamCmp

/-! ### the specification: a map device id ↦ (latest capture-module packet, interface id ↦ latest packet) -/

abbrev IfMap := Nat → Option Packet
abbrev Abs := Nat → Option (Packet × IfMap)

def setMap {β} (m : Nat → Option β) (k : Nat) (v : Option β) : Nat → Option β := fun x => if x = k then v else m x

def specStep (a : Abs) : StOp → Abs
  | .update p =>
    match a p.deviceId with
    | some (cm, ifs) =>
      if p.pty = tyIf then setMap a p.deviceId (some (cm, setMap ifs p.payloadIfId (some p)))
      else if p.pty = tyCm then setMap a p.deviceId (some (p, ifs))
      else a
    | none => if p.pty = tyCm then setMap a p.deviceId (some (p, fun _ => none)) else a
  | .rmDev id => setMap a id none
  | .rmIf dev id =>
    match a dev with
    | some (cm, ifs) => setMap a dev (some (cm, setMap ifs id none))
    | none => a
  | .clear => fun _ => none

def specRun (a : Abs) (ops : List StOp) : Abs := ops.foldl specStep a

/-! ### abstraction of the vectors -/

def absIfs (l : List IfSt) : IfMap := fun id => (l.find? (fun i => i.id == id)).map (·.pkt)

def absSt (s : StatusSt) : Abs :=
  fun dev => (s.find? (fun d => d.pkt.deviceId == dev)).map fun d => (d.pkt, absIfs d.ifs)

/-- representation invariant: one entry per device id, one entry per interface id of a device -/
def Inv (s : StatusSt) : Prop :=
  (s.map (·.pkt.deviceId)).Nodup ∧ ∀ d ∈ s, (d.ifs.map (·.id)).Nodup

end AsamCmp.C16
