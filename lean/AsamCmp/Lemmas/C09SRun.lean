/-
  Helper lemmas for Props/C09S.lean: a second invariant of the `putPacket` fold, about WHICH packet of
  the batch every message belongs to and WHICH packet's version the frame carrying it has (the first
  packet of the maximal run of equal message types the message's packet lies in), and that no emitted
  frame is empty.  Independent of the counters (those are `Inv` of Lemmas/EncHist.lean) and of `Ctx`.
-/
import AsamCmp.EncHist
import AsamCmp.Lemmas.EncHist
namespace AsamCmp.C09S
open AsamCmp

/-- start of the maximal run of consecutive packets of equal message type that ends at index `i` -/
def runStart (batch : List Packet) : Nat → Nat
  | 0 => 0
  | i + 1 => if batch[i]?.map Packet.mt = batch[i + 1]?.map Packet.mt then runStart batch i else i + 1

/-- a fold over a list zipped with its indices, by induction on the number of elements processed -/
theorem foldl_range_zip {σ α : Type} (f : σ → Nat × α → σ) (P : Nat → σ → Prop) (l : List α)
    (step : ∀ k s a, l[k]? = some a → P k s → P (k + 1) (f s (k, a))) :
    ∀ s0, P 0 s0 → P l.length (((List.range l.length).zip l).foldl f s0) := by
  have gen : ∀ (rest : List α) (off : Nat), (∀ i, rest[i]? = l[off + i]?) → off + rest.length = l.length →
      ∀ s, P off s → P l.length (((List.range' off rest.length).zip rest).foldl f s) := by
    intro rest
    induction rest with
    | nil =>
      intro off _ hlen s hP
      simp only [List.length_nil, Nat.add_zero] at hlen
      subst hlen
      exact hP
    | cons a rest ih =>
      intro off hget hlen s hP
      simp only [List.length_cons] at hlen ⊢
      rw [List.range'_succ, List.zip_cons_cons, List.foldl_cons]
      have h0 : l[off]? = some a := by
        have := hget 0
        simpa using this.symm
      apply ih (off + 1)
      · intro i
        have := hget (i + 1)
        rw [List.getElem?_cons_succ] at this
        rw [this]
        congr 1
        omega
      · omega
      · exact step off s a h0 hP
  intro s0 h0
  rw [List.range_eq_range']
  exact gen l 0 (fun i => by rw [Nat.zero_add]) (by omega) s0 h0

/-- what C09S says of one message `m` of a frame `f`: it is labelled with the packet at its index,
    the frame has that packet's message type and the version of the first packet of its run -/
structure MsgOk (batch : List Packet) (f : EFrame) (m : EMsg) : Prop where
  hpkt : batch[m.idx]? = some m.pkt
  hmt : m.pkt.mt = f.mt
  hver : ∃ q, batch[runStart batch m.idx]? = some q ∧ f.ver = q.version % 256

def FrOk (batch : List Packet) (f : EFrame) : Prop := ∀ m ∈ f.msgs, MsgOk batch f m

def ClosedOk (batch : List Packet) (s : Enc) : Prop := ∀ f ∈ s.closed, f.msgs ≠ [] ∧ FrOk batch f

/-- the state while packet `p` (run start `q`) is being put -/
structure Mid (batch : List Packet) (p q : Packet) (s : Enc) : Prop where
  closed : ClosedOk batch s
  cur : ∃ f, s.cur = some f ∧ FrOk batch f ∧ f.ver = q.version % 256 ∧ f.mt = p.mt
  tmpl : s.tmpl = some (q.version % 256, p.mt)
  mt : s.curMt = p.mt

/-- the state between two `putPacket` calls, `k` packets done -/
def Btw (batch : List Packet) (k : Nat) (s : Enc) : Prop :=
  (k = 0 ∧ s.cur = none ∧ ClosedOk batch s) ∨
  (∃ k' p q, k = k' + 1 ∧ batch[k']? = some p ∧ batch[runStart batch k']? = some q ∧ Mid batch p q s)

variable {batch : List Packet} {s : Enc}

theorem closeLast_closed (h : ClosedOk batch s) (hc : ∀ f, s.cur = some f → FrOk batch f) :
    ClosedOk batch s.closeLast := by
  unfold Enc.closeLast
  split
  · exact h
  · next f hf =>
    split
    · intro f' hf'
      exact h f' hf'
    · next hne =>
      intro f' hf'
      simp only [List.mem_append, List.mem_singleton] at hf'
      rcases hf' with hf' | hf'
      · exact h f' hf'
      · subst hf'
        refine ⟨?_, hc _ hf⟩
        intro he
        rw [he] at hne
        exact hne rfl

theorem addNew_mid {p q : Packet} (h : ClosedOk batch s) (hc : ∀ f, s.cur = some f → FrOk batch f)
    (ht : s.tmpl.getD (p.version % 256, p.mt) = (q.version % 256, p.mt)) (hm : s.curMt = p.mt) :
    Mid batch p q (s.addNew p) := by
  have h' := closeLast_closed h hc
  refine ⟨h', ?_, ?_, ?_⟩
  · refine ⟨_, rfl, ?_, ?_, ?_⟩
    · intro m hm'
      exact absurd hm' List.not_mem_nil
    · show (s.closeLast.tmpl.getD (p.version % 256, p.mt)).1 = _
      rw [Enc.closeLast_tmpl, ht]
    · show (s.closeLast.tmpl.getD (p.version % 256, p.mt)).2 = _
      rw [Enc.closeLast_tmpl, ht]
  · rw [Enc.addNew_tmpl, ht]
  · rw [Enc.addNew_curMt, hm]

theorem Mid.curOk {p q : Packet} (h : Mid batch p q s) : ∀ f, s.cur = some f → FrOk batch f := by
  intro f hf
  obtain ⟨f', hf', hok, _⟩ := h.cur
  rw [hf'] at hf
  cases hf
  exact hok

theorem Mid.addNew {p q : Packet} (h : Mid batch p q s) : Mid batch p q (s.addNew p) := by
  apply addNew_mid h.closed h.curOk _ h.mt
  rw [h.tmpl]; rfl

theorem Mid.add {p q : Packet} (h : Mid batch p q s) (m : EMsg) (hp : m.pkt = p)
    (hk : batch[m.idx]? = some p) (hq : batch[runStart batch m.idx]? = some q) :
    Mid batch p q (s.add m) := by
  obtain ⟨f, hf, hok, hv, hmt⟩ := h.cur
  have e : s.add m = { s with cur := some { f with msgs := f.msgs ++ [m] } } := by
    unfold Enc.add; rw [hf]
  rw [e]
  refine ⟨h.closed, ⟨_, rfl, ?_, hv, hmt⟩, h.tmpl, h.mt⟩
  intro m' hm'
  simp only [List.mem_append, List.mem_singleton] at hm'
  rcases hm' with hm' | hm'
  · obtain ⟨a, b, c⟩ := hok m' hm'
    exact ⟨a, b, c⟩
  · subst hm'
    exact ⟨by rw [hk, hp], by rw [hp]; exact hmt.symm, ⟨q, hq, hv⟩⟩

theorem segMsgs_idx (idx : Nat) (p : Packet) (b : Bool) (cs : List Bytes) :
    ∀ m ∈ segMsgs idx p b cs, m.idx = idx := by
  induction cs generalizing b with
  | nil => intro m hm; simp [segMsgs] at hm
  | cons c cs ih =>
    intro m hm
    cases b with
    | true =>
      simp only [segMsgs, List.mem_cons] at hm
      rcases hm with hm | hm
      · subst hm; rfl
      · exact ih false m hm
    | false =>
      cases cs with
      | nil =>
        simp only [segMsgs, List.mem_singleton] at hm
        subst hm; rfl
      | cons c' cs' =>
        simp only [segMsgs, List.mem_cons] at hm
        rcases hm with hm | hm
        · subst hm; rfl
        · exact ih false m (by simpa [segMsgs] using hm)

theorem putSegs_mid {p q : Packet} {k : Nat} (hk : batch[k]? = some p) (hq : batch[runStart batch k]? = some q)
    (ms : List EMsg) :
    ∀ s, Mid batch p q s → (∀ m ∈ ms, m.pkt = p ∧ m.idx = k) → Mid batch p q (putSegs s p ms) := by
  induction ms with
  | nil => intro s h _; exact h
  | cons m ms ih =>
    intro s h hms
    simp only [putSegs]
    obtain ⟨h1, h2⟩ := hms m (List.mem_cons_self ..)
    exact ih _ (h.add m h1 (by rw [h2]; exact hk) (by rw [h2]; exact hq)).addNew
      (fun m' hm' => hms m' (List.mem_cons_of_mem _ hm'))

theorem runStart_zero (batch : List Packet) : runStart batch 0 = 0 := rfl

theorem putPacket_btw (c : Ctx) (k : Nat) (p : Packet) (hk : batch[k]? = some p) (h : Btw batch k s) :
    Btw batch (k + 1) (putPacket c s (k, p)) := by
  -- the packet the run of `p` starts with
  have h1 : ∃ q, batch[runStart batch k]? = some q ∧
      Mid batch p q (if s.cur.isNone || s.curMt != p.mt then
              ({ s with curMt := p.mt, tmpl := none } : Enc).addNew p else s) := by
    rcases h with ⟨hk0, hcur, hcl⟩ | ⟨k', p', q', hk', hp', hq', hmid⟩
    · subst hk0
      refine ⟨p, by rw [runStart_zero]; exact hk, ?_⟩
      have hc : (s.cur.isNone || s.curMt != p.mt) = true := by rw [hcur]; rfl
      rw [hc]
      simp only [if_true]
      apply addNew_mid (s := { s with curMt := p.mt, tmpl := none })
      · exact hcl
      · intro f hf
        change s.cur = some f at hf
        rw [hcur] at hf; cases hf
      · rfl
      · rfl
    · subst hk'
      obtain ⟨f, hf, hfok, hfv, hfm⟩ := hmid.cur
      by_cases hm : s.curMt = p.mt
      · -- same run
        have hrs : runStart batch (k' + 1) = runStart batch k' := by
          show (if batch[k']?.map Packet.mt = batch[k' + 1]?.map Packet.mt then runStart batch k' else k' + 1) = _
          rw [hp', hk, Option.map_some, Option.map_some, ← hmid.mt, hm, if_pos rfl]
        refine ⟨q', by rw [hrs]; exact hq', ?_⟩
        have hc : (s.cur.isNone || s.curMt != p.mt) = false := by
          rw [hf, hm]; simp
        rw [hc]
        simp only [Bool.false_eq_true, if_false]
        refine ⟨hmid.closed, ⟨f, hf, hfok, hfv, ?_⟩, ?_, hm⟩
        · rw [hfm, ← hmid.mt, hm]
        · rw [hmid.tmpl, ← hmid.mt, hm]
      · -- a new run starts at `k' + 1`
        have hrs : runStart batch (k' + 1) = k' + 1 := by
          show (if batch[k']?.map Packet.mt = batch[k' + 1]?.map Packet.mt then runStart batch k' else k' + 1) = _
          rw [hp', hk, Option.map_some, Option.map_some, if_neg]
          intro he
          simp only [Option.some.injEq] at he
          exact hm (hmid.mt.trans he)
        refine ⟨p, by rw [hrs]; exact hk, ?_⟩
        have hc : (s.cur.isNone || s.curMt != p.mt) = true := by
          simp [hm]
        rw [hc]
        simp only [if_true]
        apply addNew_mid (s := { s with curMt := p.mt, tmpl := none })
        · exact hmid.closed
        · exact hmid.curOk
        · rfl
        · rfl
  obtain ⟨q, hq, h1⟩ := h1
  refine Or.inr ⟨k, p, q, rfl, hk, hq, ?_⟩
  unfold putPacket
  simp only
  generalize (if s.cur.isNone || s.curMt != p.mt then
              ({ s with curMt := p.mt, tmpl := none } : Enc).addNew p else s) = s1 at h1 ⊢
  have h2 : Mid batch p q (if s1.left c < 16 + p.payloadLength then s1.addNew p else s1) := by
    split
    · exact h1.addNew
    · exact h1
  generalize (if s1.left c < 16 + p.payloadLength then s1.addNew p else s1) = s2 at h2 ⊢
  split
  · exact h2
  · split
    · exact h2.add _ rfl hk hq
    · exact putSegs_mid hk hq _ _ h2 (fun m hm => ⟨segMsgs_pkt _ _ _ _ m hm, segMsgs_idx _ _ _ _ m hm⟩)

/-- the frames of one `encode` call, from ANY encoder state and for ANY configuration: none is empty and
    every message satisfies `MsgOk` -/
theorem encode_closedOk (e : Enc) (batch : List Packet) (c : Ctx) :
    ∀ f ∈ (e.encode batch c).2, f.msgs ≠ [] ∧ FrOk batch f := by
  rw [encode_eq]
  show ClosedOk batch (e.encState batch c)
  unfold Enc.encState
  have hb : Btw batch batch.length
      (((List.range batch.length).zip batch).foldl (putPacket c)
        { e with closed := [], cur := none, tmpl := none }) := by
    apply foldl_range_zip (putPacket c) (Btw batch) batch
    · intro k s a hk h
      exact putPacket_btw c k a hk h
    · refine Or.inl ⟨rfl, rfl, ?_⟩
      intro f hf
      simp at hf
  rcases hb with ⟨_, hcur, hcl⟩ | ⟨_, _, _, _, _, _, hmid⟩
  · rw [Enc.closeLast_none hcur]; exact hcl
  · exact closeLast_closed hmid.closed hmid.curOk

/-! ### `runStart` is what its docstring says -/

theorem runStart_le (batch : List Packet) (i : Nat) : runStart batch i ≤ i := by
  induction i with
  | zero => exact Nat.le_refl _
  | succ i ih =>
    show (if _ then runStart batch i else i + 1) ≤ i + 1
    split
    · exact Nat.le_succ_of_le ih
    · exact Nat.le_refl _

/-- every packet between the run start and `i` has the message type of packet `i` -/
theorem runStart_same (batch : List Packet) (i j : Nat) (h1 : runStart batch i ≤ j) (h2 : j ≤ i) :
    batch[j]?.map Packet.mt = batch[i]?.map Packet.mt := by
  induction i with
  | zero =>
    have : j = 0 := by omega
    rw [this]
  | succ i ih =>
    by_cases hj : j = i + 1
    · rw [hj]
    · have hstep : runStart batch (i + 1) =
          if batch[i]?.map Packet.mt = batch[i + 1]?.map Packet.mt then runStart batch i else i + 1 := rfl
      by_cases he : batch[i]?.map Packet.mt = batch[i + 1]?.map Packet.mt
      · rw [hstep, if_pos he] at h1
        rw [ih h1 (by omega), he]
      · rw [hstep, if_neg he] at h1
        omega

/-- the run is maximal: it starts at index 0 or the packet before it has another message type -/
theorem runStart_max (batch : List Packet) (i : Nat) :
    runStart batch i = 0 ∨
    batch[runStart batch i - 1]?.map Packet.mt ≠ batch[runStart batch i]?.map Packet.mt := by
  induction i with
  | zero => exact Or.inl rfl
  | succ i ih =>
    have hstep : runStart batch (i + 1) =
        if batch[i]?.map Packet.mt = batch[i + 1]?.map Packet.mt then runStart batch i else i + 1 := rfl
    by_cases he : batch[i]?.map Packet.mt = batch[i + 1]?.map Packet.mt
    · rw [hstep, if_pos he]; exact ih
    · rw [hstep, if_neg he]
      exact Or.inr (by simpa using he)

end AsamCmp.C09S
