/-
  Source-level encoder, part 3: the `while (currentPayloadPos < payloadLength)` loop of `putPacket` (translated as recursion on
  fuel, `Encoder_putPacket_loop1`) against the model's `putLoop`, then `putPacket`, `init`, `clearEncodingMetadata`,
  `getEncodedData`.

  One iteration from a state with at least 17 free bytes copies `n ≥ 1` payload bytes, so both loops end after at most
  `payloadLength - pos` further iterations and neither result depends on the fuel beyond that.  The case of exactly 16 free
  bytes at the loop head (an empty segment would be written) does not arise: the loop invariant excludes it.
-/
import AsamCmp.Lemmas.SrcEncMethods
set_option linter.unusedSimpArgs false
namespace AsamCmp.SrcEnc
open AsamCmp AsamCmp.Src AsamCmp.SrcGen

/-! ### one iteration of the model's loop, in pieces -/

/-- `if (bytesLeft < sizeof(MessageHeader)) addNewCMPFrame(packet)` -/
def pre (p : Packet) (l : EncLL) : EncLL := if l.bytesLeft < 16 then l.addNewCMPFrame p else l

/-- `bytesToAdd` -/
def stepN (p : Packet) (l : EncLL) (pos : Nat) : Nat := Nat.min (l.bytesLeft - 16) (p.payloadLength - pos)

/-- the `memcpy` of the payload slice and `bytesLeft -= bytesToAdd` -/
def putData (l : EncLL) (d : Bytes) (n : Nat) : EncLL :=
  let s :=
    match l.frames.getLast? with
    | none => l
    | some f => l.setLast (writeAt f (f.length - l.bytesLeft) d)
  { s with bytesLeft := s.bytesLeft - n }

/-- the body of the loop behind the first `if` -/
def step1 (p : Packet) (isSeg : Bool) (l : EncLL) (pos segInd : Nat) : EncLL :=
  let n := stepN p l pos
  let flag := EncLL.segFlag isSeg segInd n p.payloadLength pos
  let s := putData (l.addNewDataHeader p n flag) (slice p.data pos n) n
  if flag = 12 then s.addNewCMPFrame p else s

theorem putLoop_succ (p : Packet) (isSeg : Bool) (fuel : Nat) (l : EncLL) (pos segInd : Nat) :
    EncLL.putLoop p isSeg (fuel + 1) l pos segInd =
      if ¬ pos < p.payloadLength then l
      else EncLL.putLoop p isSeg fuel (step1 p isSeg (pre p l) pos segInd) (pos + stepN p (pre p l) pos) (segInd + 1) := rfl

theorem putLoop_done (p : Packet) (isSeg : Bool) (fuel : Nat) (l : EncLL) (pos segInd : Nat)
    (h : ¬ pos < p.payloadLength) : EncLL.putLoop p isSeg fuel l pos segInd = l := by
  cases fuel with
  | zero => rfl
  | succ n => rw [putLoop_succ, if_pos h]


/-! ### the invariant through one iteration -/

theorem pre_open (p : Packet) (l : EncLL) (h : Open l) (h16 : l.bytesLeft ≠ 16) :
    Open (pre p l) ∧ 17 ≤ (pre p l).bytesLeft := by
  have h1 := h.cfg.max_ge
  unfold pre
  by_cases hb : l.bytesLeft < 16
  · obtain ⟨ho, e, _⟩ := addNewCMPFrame_open l p h.cfg
    rw [if_pos hb]
    exact ⟨ho, by rw [e]; omega⟩
  · rw [if_neg hb]
    exact ⟨h, by omega⟩

theorem stepN_le (p : Packet) (l : EncLL) (pos : Nat) :
    stepN p l pos ≤ l.bytesLeft - 16 ∧ stepN p l pos ≤ p.payloadLength - pos ∧
      (stepN p l pos = l.bytesLeft - 16 ∨ stepN p l pos = p.payloadLength - pos) := by
  unfold stepN
  show min (l.bytesLeft - 16) (p.payloadLength - pos) ≤ _ ∧ min (l.bytesLeft - 16) (p.payloadLength - pos) ≤ _ ∧
    (min (l.bytesLeft - 16) (p.payloadLength - pos) = _ ∨ min (l.bytesLeft - 16) (p.payloadLength - pos) = _)
  omega

theorem putData_open (l : EncLL) (d : Bytes) (n : Nat) (h : Open l) (hn : n ≤ l.bytesLeft) (hd : d.length = n) :
    Open (putData l d n) ∧ (putData l d n).bytesLeft = l.bytesLeft - n ∧ (putData l d n).max = l.max := by
  obtain ⟨hc, hne, h6, h7⟩ := h
  unfold putData
  rw [getLast?_of_ne hne]
  simp only [EncLL.setLast]
  refine ⟨⟨⟨hc.max_ge, hc.max_lt, hc.min_le, hc.tmpl⟩, concat_ne _ _, ?_, ?_⟩, ?_⟩
  · simp only [lastD_concat]
    rw [C11.writeAt_length]
    · exact h6
    · omega
  · show l.bytesLeft - n ≤ l.max - 8
    omega
  · trivial

theorem step1_open (p : Packet) (isSeg : Bool) (l : EncLL) (pos segInd : Nat) (h : Open l) (hb : 17 ≤ l.bytesLeft)
    (hp : pos < p.payloadLength) :
    Open (step1 p isSeg l pos segInd) ∧ 1 ≤ stepN p l pos ∧ pos + stepN p l pos ≤ p.payloadLength ∧
      (pos + stepN p l pos < p.payloadLength → (step1 p isSeg l pos segInd).bytesLeft ≠ 16) := by
  have h1 := h.cfg.max_ge
  have hd := plen_le p
  obtain ⟨n1, n2, n3⟩ := stepN_le p l pos
  unfold step1
  generalize stepN p l pos = n at n1 n2 n3 ⊢
  simp only
  generalize EncLL.segFlag isSeg segInd n p.payloadLength pos = flag
  obtain ⟨o2, b2, m2⟩ := addNewDataHeader_open l p n flag h (by omega)
  have hs : (slice p.data pos n).length = n := C11.slice_length (by omega)
  obtain ⟨o3, b3, m3⟩ := putData_open (l.addNewDataHeader p n flag) (slice p.data pos n) n o2 (by omega) hs
  generalize putData (l.addNewDataHeader p n flag) (slice p.data pos n) n = l3 at o3 b3 m3 ⊢
  by_cases hf : flag = 12
  · obtain ⟨o4, b4, _⟩ := addNewCMPFrame_open l3 p o3.cfg
    rw [if_pos hf]
    exact ⟨o4, by omega, by omega, fun _ => by rw [b4]; omega⟩
  · rw [if_neg hf]
    exact ⟨o3, by omega, by omega, fun _ => by omega⟩


/-! ### one iteration of the translated loop -/

/-- the state after the `memcpy` of the payload slice and `bytesLeft -= bytesToAdd` -/
theorem putData_st (l : EncLL) (d : Bytes) (n : Nat) (hne : l.frames ≠ []) :
    ({ f_minBytesPerMessage := l.min, f_maxBytesPerMessage := l.max, f_deviceId := l.dev, f_streamId := l.stream,
       f_cmpFrameTemplate := l.tmpl, f_bytesLeft := l.bytesLeft - n, f_sequenceCounter := l.seqc, f_messageType := l.mt,
       f_cmpFrames := Src.setLast l.frames (writeAt (lastD l.frames) ((lastD l.frames).length - l.bytesLeft) d) }
      : Encoder_St) = stOf (putData l d n) := by
  unfold putData
  rw [getLast?_of_ne hne]
  rfl

/-- from a state with at least 17 free bytes: header, payload slice, counters, possibly a new frame -/
theorem loop_step_src (p : Packet) (isSeg : Bool) (fuel : Nat) (l : EncLL) (pos segInd : Nat) (h : Open l)
    (hb : 17 ≤ l.bytesLeft) (hp : pos < p.payloadLength) (hs : segInd < 65536) :
    Encoder_putPacket_loop1 (fuel + 1) (stOf l) (pkOf p) pos isSeg segInd =
      Encoder_putPacket_loop1 fuel (stOf (step1 p isSeg l pos segInd)) (pkOf p) (pos + stepN p l pos) isSeg (segInd + 1) := by
  have h1 := h.cfg.max_ge
  have h2 := h.cfg.max_lt
  have hl := plen_lt p
  have hd := plen_le p
  obtain ⟨n1, n2, n3⟩ := stepN_le p l pos
  have h6 := h.last.1
  have h7 := h.last.2
  have hnlt : ¬ l.bytesLeft < 16 := by omega
  rw [Encoder_putPacket_loop1]
  unfold step1
  unfold stepN at n1 n2 n3 ⊢
  st_norm [hp, hnlt, decide_true, decide_eq_true_eq]
  generalize (l.bytesLeft - 16).min (p.payloadLength - pos) = n at n1 n2 n3 ⊢
  have hn : n % 65536 = n := Nat.mod_eq_of_lt (by omega)
  st_norm [hn, buildSegmentationFlag_src]
  generalize EncLL.segFlag isSeg segInd n p.payloadLength pos = flag
  obtain ⟨o2, b2, m2⟩ := addNewDataHeader_open l p n flag h (by omega)
  st_norm [addNewDataHeader_src l p n flag h (by omega)]
  generalize l.addNewDataHeader p n flag = l2 at o2 b2 m2 ⊢
  have h6' := o2.last.1
  have h7' := o2.last.2
  have hdrop : n ≤ (p.data.drop pos).length := by rw [List.length_drop]; omega
  obtain ⟨o3, b3, m3⟩ := putData_open l2 (slice p.data pos n) n o2 (by omega) (C11.slice_length (by omega))
  st_norm [nonEmpty_of_ne o2.ne, Nat.zero_add, SrcTie.wrBytes_eq, SrcTie.drop_take_eq_slice, sadd_one,
    putData_st l2 _ n o2.ne]
  generalize putData l2 (slice p.data pos n) n = l3 at o3 b3 m3 ⊢
  by_cases hf : flag = 12
  · st_norm [hf, addNewCMPFrame_src l3 p o3.inv]
  · st_norm [hf]


/-- with fewer than 16 free bytes the iteration first opens a new frame and then is the iteration from that state -/
theorem loop_pre_src (p : Packet) (isSeg : Bool) (fuel : Nat) (l : EncLL) (pos segInd : Nat) (h : Open l)
    (hb : l.bytesLeft < 16) (hp : pos < p.payloadLength) :
    Encoder_putPacket_loop1 (fuel + 1) (stOf l) (pkOf p) pos isSeg segInd =
      Encoder_putPacket_loop1 (fuel + 1) (stOf (l.addNewCMPFrame p)) (pkOf p) pos isSeg segInd := by
  have h1 := h.cfg.max_ge
  obtain ⟨_, e, _⟩ := addNewCMPFrame_open l p h.cfg
  have hnlt : ¬ (l.addNewCMPFrame p).bytesLeft < 16 := by rw [e]; omega
  rw [Encoder_putPacket_loop1, Encoder_putPacket_loop1]
  st_norm [hp, hb, hnlt, decide_true, decide_false, decide_eq_true_eq, addNewCMPFrame_src l p h.inv]

theorem loop_done_src (p : Packet) (isSeg : Bool) (fuel : Nat) (s : Encoder_St) (pos segInd : Nat)
    (hp : ¬ pos < p.payloadLength) :
    Encoder_putPacket_loop1 (fuel + 1) s (pkOf p) pos isSeg segInd = some (s, pos, segInd) := by
  rw [Encoder_putPacket_loop1]
  st_norm [hp, decide_false, decide_eq_true_eq]

/-- the translated loop is defined and is the model's loop, for any two amounts of fuel above the remaining payload -/
theorem loop_src (p : Packet) (isSeg : Bool) :
    ∀ (k fuel fuel' : Nat) (l : EncLL) (pos segInd : Nat), Open l → (pos < p.payloadLength → l.bytesLeft ≠ 16) →
      p.payloadLength - pos ≤ k → k < fuel → k < fuel' → segInd ≤ pos →
      Open (EncLL.putLoop p isSeg fuel' l pos segInd) ∧
      ∃ a b, Encoder_putPacket_loop1 fuel (stOf l) (pkOf p) pos isSeg segInd =
        some (stOf (EncLL.putLoop p isSeg fuel' l pos segInd), a, b) := by
  have hl := plen_lt p
  intro k
  induction k with
  | zero =>
    intro fuel fuel' l pos segInd ho _ hk hf hf' _
    have hp : ¬ pos < p.payloadLength := by omega
    obtain ⟨f, rfl⟩ : ∃ f, fuel = f + 1 := ⟨fuel - 1, by omega⟩
    rw [putLoop_done p isSeg fuel' l pos segInd hp, loop_done_src p isSeg f _ pos segInd hp]
    exact ⟨ho, _, _, rfl⟩
  | succ k ih =>
    intro fuel fuel' l pos segInd ho h16 hk hf hf' hs
    obtain ⟨f, rfl⟩ : ∃ f, fuel = f + 1 := ⟨fuel - 1, by omega⟩
    obtain ⟨f', rfl⟩ : ∃ f, fuel' = f + 1 := ⟨fuel' - 1, by omega⟩
    by_cases hp : pos < p.payloadLength
    · obtain ⟨o1, b1⟩ := pre_open p l ho (h16 hp)
      obtain ⟨o2, n1, n2, n3⟩ := step1_open p isSeg (pre p l) pos segInd o1 b1 hp
      have e1 : Encoder_putPacket_loop1 (f + 1) (stOf l) (pkOf p) pos isSeg segInd =
          Encoder_putPacket_loop1 (f + 1) (stOf (pre p l)) (pkOf p) pos isSeg segInd := by
        unfold pre
        by_cases hb : l.bytesLeft < 16
        · rw [if_pos hb, loop_pre_src p isSeg f l pos segInd ho hb hp]
        · rw [if_neg hb]
      rw [e1, loop_step_src p isSeg f (pre p l) pos segInd o1 b1 hp (by omega), putLoop_succ, if_neg (by omega)]
      exact ih f f' _ _ _ o2 n3 (by omega) (by omega) (by omega) (by omega)
    · rw [putLoop_done p isSeg _ l pos segInd hp, loop_done_src p isSeg f _ pos segInd hp]
      exact ⟨ho, _, _, rfl⟩

end AsamCmp.SrcEnc
