/-
  Helper lemmas about the decoder model (Layer A walk, Layer B automaton) used by the
  property files C18, C17 and C05.
-/
import AsamCmp.Decoder
namespace AsamCmp

/-! ### `DecState.set` / `step` -/

theorem DecState.set_same (s : DecState) (e : Ep) (v : Option Pending) : (s.set e v) e = v := by
  simp [DecState.set]

theorem DecState.set_other (s : DecState) (e x : Ep) (v : Option Pending) (h : x ≠ e) :
    (s.set e v) x = s x := by
  simp [DecState.set, h]

theorem step_fst_same (s : DecState) (f : PFrame) : (step s f).1 f.ep = (localStep (s f.ep) f).1 := by
  simp [step, DecState.set]

theorem step_fst_other (s : DecState) (f : PFrame) (e : Ep) (h : f.ep ≠ e) : (step s f).1 e = s e := by
  simp [step, DecState.set, Ne.symm h]

theorem step_snd (s : DecState) (f : PFrame) : (step s f).2 = (localStep (s f.ep) f).2 := rfl

/-! ### tags of delivered packets -/

theorem walk_tagged (ep : Ep) (ver mt : Nat) (r : Bytes) :
    ∀ p ∈ (walk ep ver mt r).1, (p.deviceId, p.streamId) = ep := by
  fun_induction walk ep ver mt r with
  | case1 r h0 => simp
  | case2 r h0 h1 => simp
  | case3 r h0 h1 len h2 => simp
  | case4 r h0 h1 len h2 p rest ih =>
    intro x hx
    simp only [List.mem_cons] at hx
    rcases hx with hx | hx
    · subst hx; simp [p, tagPacket]
    · exact ih x hx

theorem localStep_out (q : Option Pending) (f : PFrame) :
    ∀ p ∈ (localStep q f).2, p ∈ f.unseg ∨ (p.deviceId, p.streamId) = f.ep := by
  intro p hp
  unfold localStep at hp
  split at hp
  · exact Or.inl hp
  · exact Or.inl hp
  · dsimp only at hp
    split at hp
    · exact Or.inl hp
    · split at hp
      · exact Or.inl hp
      · split at hp
        · split at hp
          · simp only [List.mem_append, List.mem_singleton] at hp
            rcases hp with hp | hp
            · exact Or.inl hp
            · subst hp; right; simp [tagPacket]
          · exact Or.inl hp
        · exact Or.inl hp

/-- a segment terminator found by `walk` holds at least a message header -/
theorem walk_seg_length (ep : Ep) (ver mt : Nat) (r : Bytes) :
    ∀ m, (walk ep ver mt r).2 = .seg m → 16 ≤ m.length := by
  fun_induction walk ep ver mt r with
  | case1 r h0 => intro m h; cases h
  | case2 r h0 h1 => intro m h; cases h
  | case3 r h0 h1 len h2 =>
    intro m h
    simp only [Term.seg.injEq] at h
    subst h
    simp only [msgValid, Bool.not_eq_true, Bool.not_eq_false', Bool.and_eq_true, decide_eq_true_eq] at h1
    simp only [List.length_take]
    omega
  | case4 r h0 h1 len h2 p rest ih => exact ih

/-! ### `fixLen` -/

theorem fixLen_length (buf : Bytes) (h : 16 ≤ buf.length) : (fixLen buf).length = buf.length := by
  simp [fixLen, writeAt]; omega

theorem byteAt_append_left (a b : Bytes) (i : Nat) (h : i < a.length) :
    byteAt (a ++ b) i = byteAt a i := by
  simp only [byteAt, List.getD_eq_getElem?_getD, List.getElem?_append_left h]

theorem segTypeOf_append (a b : Bytes) (h : 12 < a.length) : segTypeOf (a ++ b) = segTypeOf a := by
  simp only [segTypeOf, byteAt_append_left a b 12 h]

/-- the length written by `fixLen` into a 16-byte header followed by `n` bytes -/
def lenField (n : Nat) : Nat := ((16 + n) % 65536 + 65536 - 16) % 65536

theorem lenField_small (n : Nat) (h : n ≤ 65535) : lenField n = n := by
  unfold lenField; omega

/-- `fixLen` on a 16-byte header `W` followed by `B` rewrites bytes 14–15 of `W` only -/
theorem fixLen_append (W B : Bytes) (hW : W.length = 16) :
    fixLen (W ++ B) = W.take 14 ++ beEnc 2 (lenField B.length) ++ B := by
  have h1 : (W ++ B).take 14 = W.take 14 := List.take_append_of_le_length (by omega)
  have h2 : (W ++ B).drop 16 = B := List.drop_left' hW
  simp only [fixLen, writeAt, beEnc_length, h1, h2, List.length_append, hW, lenField]

/-- appending a segment body to a pending buffer `W ++ B` whose header `W` has 16 bytes -/
theorem fixLen_step (W B h b : Bytes) (hW : W.length = 16) (hh : h.length = 16) :
    fixLen ((W ++ B) ++ (h ++ b).drop 16) =
      W.take 14 ++ beEnc 2 (lenField (B ++ b).length) ++ (B ++ b) := by
  have : (h ++ b).drop 16 = b := List.drop_left' hh
  rw [this, List.append_assoc, fixLen_append W (B ++ b) hW]

/-! ### reading a message whose 16-byte header ends in a 2-byte length field -/

theorem writeAt_hdr (h v : Bytes) (hh : h.length = 16) (hv : v.length = 2) :
    writeAt h 14 v = h.take 14 ++ v := by
  have : h.drop 16 = [] := List.drop_eq_nil_of_le (by omega)
  simp [writeAt, hv, this]

theorem byteAt_hdr (h v B : Bytes) (i : Nat) (hi : i < 14) (hh : h.length = 16) :
    byteAt (h.take 14 ++ v ++ B) i = byteAt h i := by
  rw [List.append_assoc, byteAt_append_left _ _ _ (by simp [hh]; omega)]
  simp only [byteAt, List.getD_eq_getElem?_getD, List.getElem?_take, hi, if_true]

theorem beAt_hdr (h B : Bytes) (n : Nat) (hh : h.length = 16) :
    beAt (h.take 14 ++ beEnc 2 n ++ B) 14 2 = n % 65536 := by
  have h14 : (h.take 14).length = 14 := by simp [hh]
  unfold beAt slice
  rw [List.append_assoc, List.drop_left' h14, List.take_left' (beEnc_length 2 n), beDec_beEnc]

theorem slice_hdr (h B : Bytes) (n : Nat) (hh : h.length = 16) :
    slice (h.take 14 ++ beEnc 2 n ++ B) 16 B.length = B := by
  have h16 : (h.take 14 ++ beEnc 2 n).length = 16 := by simp [hh]
  unfold slice
  rw [List.drop_left' h16, List.take_length]

/-! ### the state of one endpoint is a fold of `localStep` over that endpoint's frames -/

/-- state component of the single-endpoint automaton run over a list of frames -/
def lrun (p : Option Pending) (fs : List PFrame) : Option Pending :=
  fs.foldl (fun p f => (localStep p f).1) p

theorem run_fst_at (e : Ep) : ∀ (fs : List PFrame) (s : DecState),
    (run s fs).1 e = lrun (s e) (fs.filter (fun f => f.ep = e)) := by
  intro fs
  induction fs with
  | nil => intro s; rfl
  | cons f fs ih =>
    intro s
    simp only [run]
    rw [ih]
    by_cases hf : f.ep = e
    · have hfilt : (f :: fs).filter (fun f => f.ep = e) = f :: fs.filter (fun f => f.ep = e) := by
        simp [hf]
      rw [hfilt]
      subst hf
      simp only [lrun, List.foldl_cons, step_fst_same]
    · have hfilt : (f :: fs).filter (fun f => f.ep = e) = fs.filter (fun f => f.ep = e) := by
        simp [hf]
      rw [hfilt, step_fst_other _ _ _ hf]

end AsamCmp
