/-
  Source-level TECMP path, part 4: the TECMP model (`Tecmp.lean`) brought into the shape in which the translated source computes
  it — one list of payload objects (`handleR`), one packet per object (`convF`).  Nothing here unfolds a generated definition.
-/
import AsamCmp.Lemmas.SrcTecmpConv
set_option linter.unusedSimpArgs false
set_option linter.unusedVariables false
namespace AsamCmp.SrcTec
open AsamCmp AsamCmp.Src AsamCmp.SrcGen AsamCmp.SrcTie

/-! ### the first 28 bytes of the buffer, as the local `CmpHeader` the decoder copies them into -/

theorem slice_take (b : Bytes) (n o w : Nat) (h : o + w ≤ n) : slice (b.take n) o w = slice b o w := by
  unfold slice
  rw [List.drop_take, List.take_take]
  congr 1; omega

theorem beAt_take (b : Bytes) (n o w : Nat) (h : o + w ≤ n) : beAt (b.take n) o w = beAt b o w := by
  unfold beAt; rw [slice_take b n o w h]

theorem beAt_drop (b : Bytes) (k o w : Nat) : beAt (b.drop k) o w = beAt b (k + o) w := by
  unfold beAt slice
  rw [List.drop_drop]

theorem byteAt_take (b : Bytes) (n i : Nat) (h : i < n) : byteAt (b.take n) i = byteAt b i := by
  simp [byteAt, List.getD_eq_getElem?_getD, List.getElem?_take, h]

theorem tpkt_take (b : Bytes) (i : Nat) (pl : Option (Nat × Bytes)) : tpkt (b.take 28) i pl = tpkt b i pl := by
  unfold tpkt
  rw [byteAt_take b 28 1 (by omega), beAt_take b 28 16 8 (by omega)]

theorem tRepr_tecmpPacket (b : Bytes) (i ty : Nat) (o : Bytes) :
    tRepr (tecmpPacket b i ⟨ty, o⟩) = tpkt b i (some (ty, o)) := rfl

/-! ### the three single-packet kinds -/

theorem tecmpCm_shape (b p : Bytes) :
    tecmpCm b p = if p.length < 18 ∨ p.length - 12 < beAt p 4 2 then [] else [tecmpPacket b (beAt b 12 4) ⟨769, cmObjOf p⟩] := by
  unfold tecmpCm
  by_cases h18 : p.length < 18
  · simp only [h18, if_true, true_or]
  · by_cases hv : p.length - 12 < beAt p 4 2
    · simp only [h18, hv, if_false, if_true, or_true]
    · simp only [h18, hv, if_false, or_self]
      rfl

theorem tecmpLin_shape (b p : Bytes) :
    tecmpLin b p = if p.length < 2 ∨ p.length - 2 < byteAt p 1 then [] else [tecmpPacket b (beAt b 12 4) ⟨259, linObjOf p⟩] := by
  unfold tecmpLin
  by_cases h2 : p.length < 2
  · simp only [h2, if_true, true_or]
  · by_cases hd : p.length - 2 < byteAt p 1
    · simp only [h2, hd, if_false, if_true, or_true]
    · simp only [h2, hd, if_false, or_self]
      rfl

theorem tecmpCan_shape (b p : Bytes) :
    tecmpCan b p = if p.length < 5 ∨ p.length - 5 < byteAt p 4 then []
      else [tecmpPacket b (beAt b 12 4) ⟨(canPl p).1, (canPl p).2⟩] := by
  unfold tecmpCan canPl
  by_cases h5 : p.length < 5
  · simp only [h5, if_true, true_or]
  · by_cases hd : p.length - 5 < byteAt p 4
    · simp only [h5, hd, if_false, if_true, or_true]
    · simp only [h5, hd, if_false, or_self]
      by_cases hfd : byteAt p 4 > 8
      · simp only [hfd, if_true]; rfl
      · simp only [hfd, if_false]; rfl

/-! ### bus status: one object per entry -/

theorem slice_slice (p : Bytes) (off i w : Nat) (h : i + w ≤ 12) : slice (slice p off 12) i w = slice p (off + i) w := by
  unfold slice
  rw [List.drop_take, List.take_take, List.drop_drop]
  congr 1; omega

theorem busObj_beAt (p : Bytes) (off i : Nat) (h12 : 12 ≤ p.length) (ho : off + 12 ≤ p.length) (hi : i + 4 ≤ 12) :
    beAt (p.take 12 ++ slice p off 12 ++ zeros 4) (12 + i) 4 = beAt p (off + i) 4 := by
  have hl : (p.take 12).length = 12 := by simp only [List.length_take]; omega
  have hs : (slice p off 12).length = 12 := slice_length p off 12 ho
  unfold beAt
  have := slice_mid (p.take 12) (slice p off 12) (zeros 4) i 4 (by omega)
  rw [hl] at this
  rw [this, slice_slice p off i 4 hi]

/-- the packet the converter makes of one payload object, by message / data type of the header -/
def convF (b : Bytes) (x : Option TECMP_Payload_St) : TPacket_St :=
  match x with
  | none => default
  | some y =>
    if byteAt b 5 = 1 then tpkt b (beAt b 12 4) (some (769, cmObjOf y.f_payloadData))
    else if byteAt b 5 = 2 then tpkt b (beAt y.f_payloadData 12 4) (some (770, ifObjOf y.f_payloadData))
    else if beAt b 6 2 = 4 then tpkt b (beAt b 12 4) (some (259, linObjOf y.f_payloadData))
    else tpkt b (beAt b 12 4) (some (canPl y.f_payloadData))

theorem busEntries_shape (b p : Bytes) (v : Nat) (hmt : byteAt b 5 = 2) (h12 : 12 ≤ p.length) :
    ∀ n off, (tecmpBusEntries b p v n off).map (fun q => some (tRepr q)) = (busPl p v n off).map fun x => some (convF b x) := by
  intro n
  induction n with
  | zero => intro off; rfl
  | succ n ih =>
    intro off
    unfold tecmpBusEntries busPl
    by_cases ho : off + (12 + v) ≤ p.length
    · have ho12 : off + 12 ≤ p.length := by omega
      simp only [ho, if_true, List.map_cons, ih (off + (12 + v))]
      congr 2
      have e0 := busObj_beAt p off 0 h12 ho12 (by omega)
      have e4 := busObj_beAt p off 4 h12 ho12 (by omega)
      have e8 := busObj_beAt p off 8 h12 ho12 (by omega)
      simp only [Nat.add_zero, Nat.reduceAdd] at e0 e4 e8
      simp only [convF, busObj, hmt, Nat.reduceEqDiff, if_false, if_true, ifObjOf, e0, e4, e8]
      rfl
    · simp only [ho, if_false, List.map_nil]

theorem tecmpBus_shape (b p : Bytes) (hmt : byteAt b 5 = 2) :
    (tecmpBus b p).map (fun q => some (tRepr q)) = (busR p).map fun x => some (convF b x) := by
  unfold tecmpBus busR
  by_cases h : p.length < 12
  · simp only [h, if_true, List.map_nil]
  · simp only [h, if_false]
    exact busEntries_shape b p _ hmt (by omega) _ _

end AsamCmp.SrcTec
