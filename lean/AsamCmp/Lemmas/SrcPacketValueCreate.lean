/-
  Packet value mode, part 2: the payload constructors `Packet::create` reaches, `Packet::create` itself and the wire constructor
  `Packet(msgType, data, size)`, translated from the source (GeneratedSrcObj.lean), on a memory `pre ++ d ++ post`.
-/
import AsamCmp.Lemmas.SrcPacketValue
import AsamCmp.Props.SrcTie
import AsamCmp.Lemmas.Builders
set_option linter.unusedSimpArgs false
set_option linter.unusedVariables false
namespace AsamCmp.SrcPv
open AsamCmp AsamCmp.Src AsamCmp.SrcGen AsamCmp.SrcTie

/-! ### the constructors of the payload classes: all end in `Payload(type, data, size)` -/

theorem pl_ctor_typed (ty : Nat) (h : ty ≠ 0) (pre d post : Bytes) :
    Payload_ctor_PayloadType_ptr_u64_pv (pre ++ d ++ post) ty pre.length d.length = some (plRepr ⟨ty, d⟩) := by
  rw [pl_ctor, if_neg h]

theorem pl_ctor_invalid (pre d post : Bytes) :
    Payload_ctor_PayloadType_ptr_u64_pv (pre ++ d ++ post) 0 pre.length d.length = some (plRepr ⟨0, zeros d.length⟩) := by
  rw [pl_ctor, if_pos rfl]

theorem can_ctor (pre d post : Bytes) :
    CanPayload_ctor_ptr_u64_pv (pre ++ d ++ post) pre.length d.length = some (plRepr ⟨tyCan, d⟩) := by
  unfold CanPayload_ctor_ptr_u64_pv CanPayloadBase_ctor_PayloadType_ptr_u64_pv
  simp only [pt_ctor32, bind, some_bind, pure, pl_ctor_typed 257 (by decide), tyCan]

theorem canFd_ctor (pre d post : Bytes) :
    CanFdPayload_ctor_ptr_u64_pv (pre ++ d ++ post) pre.length d.length = some (plRepr ⟨tyCanFd, d⟩) := by
  unfold CanFdPayload_ctor_ptr_u64_pv CanPayloadBase_ctor_PayloadType_ptr_u64_pv
  simp only [pt_ctor32, bind, some_bind, pure, pl_ctor_typed 258 (by decide), tyCanFd]

theorem lin_ctor (pre d post : Bytes) :
    LinPayload_ctor_ptr_u64_pv (pre ++ d ++ post) pre.length d.length = some (plRepr ⟨tyLin, d⟩) := by
  unfold LinPayload_ctor_ptr_u64_pv
  simp only [pt_ctor32, bind, some_bind, pure, pl_ctor_typed 259 (by decide), tyLin]

theorem analog_ctor (pre d post : Bytes) :
    AnalogPayload_ctor_ptr_u64_pv (pre ++ d ++ post) pre.length d.length = some (plRepr ⟨tyAnalog, d⟩) := by
  unfold AnalogPayload_ctor_ptr_u64_pv
  simp only [pt_ctor32, bind, some_bind, pure, pl_ctor_typed 263 (by decide), tyAnalog]

theorem eth_ctor (pre d post : Bytes) :
    EthernetPayload_ctor_ptr_u64_pv (pre ++ d ++ post) pre.length d.length = some (plRepr ⟨tyEth, d⟩) := by
  unfold EthernetPayload_ctor_ptr_u64_pv
  simp only [pt_ctor32, bind, some_bind, pure, pl_ctor_typed 264 (by decide), tyEth]

theorem cm_ctor (pre d post : Bytes) :
    CaptureModulePayload_ctor_ptr_u64_pv (pre ++ d ++ post) pre.length d.length = some (plRepr ⟨tyCm, d⟩) := by
  unfold CaptureModulePayload_ctor_ptr_u64_pv
  simp only [pt_ctor32, bind, some_bind, pure, pl_ctor_typed 769 (by decide), tyCm]

theorem if_ctor (pre d post : Bytes) :
    InterfacePayload_ctor_ptr_u64_pv (pre ++ d ++ post) pre.length d.length = some (plRepr ⟨tyIf, d⟩) := by
  unfold InterfacePayload_ctor_ptr_u64_pv
  simp only [pt_ctor32, bind, some_bind, pure, pl_ctor_typed 770 (by decide), tyIf]

/-! ### `Packet::create` -/

/-- the model's `create` on a typed code -/
theorem create_typed (ty : Nat) (v : Bytes → Bool) (d : Bytes) (hv : validatorOf ty = some v) :
    create ty d = if v d then ⟨ty, d⟩ else ⟨0, zeros d.length⟩ := by
  unfold create; rw [hv]

theorem create_generic (ty : Nat) (d : Bytes) (hv : validatorOf ty = none) :
    create ty d = if ty = 0 then ⟨0, zeros d.length⟩ else ⟨ty, d⟩ := by
  unfold create; rw [hv]

/-- one `case` of the switch: validator, then the typed constructor or the fall-through to `PayloadType::invalid` -/
theorem create_case (s : PacketV_St) (b : Bool) (x y : Payload) :
    (if b = true then some (s, some (plRepr x)) else some (s, some (plRepr y))) =
      some (s, some (plRepr (if b = true then x else y))) := by
  cases b <;> rfl

theorem create_eq (s : PacketV_St) (ty : Nat) (pre d post : Bytes) (hmem : (pre ++ d ++ post).length < 2 ^ 64) :
    Packet_create_pv s (pre ++ d ++ post) ty pre.length d.length = some (s, some (plRepr (create ty d))) := by
  unfold Packet_create_pv
  simp only [pt_getType, pt_ctor32, bind, some_bind, pure, beq_iff_eq, pl_ctor_invalid]
  by_cases h1 : ty = 257
  · subst h1
    simp only [↓reduceIte, can_validator_src pre d post hmem, some_bind, can_ctor, create_case,
      create_typed 257 canValid d rfl, tyCan]
  by_cases h2 : ty = 258
  · subst h2
    simp only [↓reduceIte, can_validator_src pre d post hmem, some_bind, canFd_ctor, create_case,
      create_typed 258 canValid d rfl, tyCanFd, Nat.reduceEqDiff]
  by_cases h3 : ty = 259
  · subst h3
    simp only [↓reduceIte, lin_validator_src pre d post hmem, some_bind, lin_ctor, create_case,
      create_typed 259 linValid d rfl, tyLin, Nat.reduceEqDiff]
  by_cases h4 : ty = 263
  · subst h4
    simp only [↓reduceIte, analog_validator_src pre d post hmem, some_bind, analog_ctor, create_case,
      create_typed 263 analogValid d rfl, tyAnalog, Nat.reduceEqDiff]
  by_cases h5 : ty = 264
  · subst h5
    simp only [↓reduceIte, eth_validator_src pre d post hmem, some_bind, eth_ctor, create_case,
      create_typed 264 ethValid d rfl, tyEth, Nat.reduceEqDiff]
  by_cases h6 : ty = 769
  · subst h6
    simp only [↓reduceIte, cm_validator_src pre d post hmem, some_bind, cm_ctor, create_case,
      create_typed 769 cmValid d rfl, tyCm, Nat.reduceEqDiff]
  by_cases h7 : ty = 770
  · subst h7
    simp only [↓reduceIte, if_validator_src pre d post hmem, some_bind, if_ctor, create_case,
      create_typed 770 ifValid d rfl, tyIf, Nat.reduceEqDiff]
  have hv : validatorOf ty = none := by
    simp only [validatorOf, tyCan, tyCanFd, tyLin, tyAnalog, tyEth, tyCm, tyIf, h1, h2, h3, h4, h5, h6, h7, if_false]
  simp only [h1, h2, h3, h4, h5, h6, h7, if_false, pl_ctor, some_bind, create_generic ty d hv]

/-! ### the message-header readers the wire constructor uses -/

theorem mh_ts (h : Bytes) (hl : 16 ≤ h.length) : MessageHeader_getTimestamp h 0 = some (beAt h 0 8) := by
  unfold MessageHeader_getTimestamp
  simp (disch := omega) only [rd_eq, swap64_leAt, bind, some_bind, pure]

theorem mh_if (h : Bytes) (hl : 16 ≤ h.length) : MessageHeader_getInterfaceId h 0 = some (beAt h 8 4) := by
  unfold MessageHeader_getInterfaceId
  simp (disch := omega) only [rd_eq, swap32_leAt, bind, some_bind, pure, Nat.zero_add]

theorem mh_vendor (h : Bytes) (hl : 16 ≤ h.length) : MessageHeader_getVendorId h 0 = some (beAt h 10 2) := by
  unfold MessageHeader_getVendorId
  simp (disch := omega) only [rd_eq, swap16_leAt, bind, some_bind, pure, Nat.zero_add, Nat.reduceAdd]

theorem mh_flags (h : Bytes) (hl : 16 ≤ h.length) : MessageHeader_getCommonFlags h 0 = some (byteAt h 12) := by
  unfold MessageHeader_getCommonFlags
  simp (disch := omega) only [rd_eq, leAt_one, bind, some_bind, pure, Nat.zero_add]

theorem mh_ptype (pre m post : Bytes) (h16 : 16 ≤ m.length) :
    MessageHeader_getPayloadType (pre ++ m ++ post) pre.length = some (byteAt m 13) := by
  unfold MessageHeader_getPayloadType
  simp (disch := omega) only [rd_mid, leAt_one, bind, some_bind, pure]

/-- `Packet::setMessageHeader(msgType, header)` on the 16 header bytes (a by-value copy) -/
theorem setMessageHeader_eq (s : PacketV_St) (mt : Nat) (h : Bytes) (hl : 16 ≤ h.length) :
    Packet_setMessageHeader_pv s mt h =
      some ({ s with f_timestamp := beAt h 0 8,
                     f_interfaceId := if mt = 1 then beAt h 8 4 else s.f_interfaceId,
                     f_vendorId := if mt = 3 ∨ mt = 255 then beAt h 10 2 else s.f_vendorId,
                     f_commonFlags := byteAt h 12 }, ()) := by
  unfold Packet_setMessageHeader_pv
  simp only [mh_ts h hl, mh_if h hl, mh_vendor h hl, mh_flags h hl, Packet_setTimestamp_pv, Packet_setInterfaceId_pv,
    Packet_setVendorId_pv, Packet_setCommonFlags_pv, bind, some_bind, pure, beq_iff_eq, Bool.or_eq_true]
  by_cases h1 : mt = 1
  · subst h1; simp only [↓reduceIte, Nat.reduceEqDiff, or_self]
  · by_cases h3 : mt = 3 ∨ mt = 255
    · simp only [h1, h3, ↓reduceIte]
    · by_cases h2 : mt = 2
      · simp only [h1, h3, h2, ↓reduceIte, Nat.reduceEqDiff, or_self]
      · simp only [h1, h3, h2, ↓reduceIte]

/-! ### `Packet(msgType, data, size)` -/

/-- the message `m` at address `pre.length`: its payload bytes sit behind `pre` and the 16 header bytes -/
theorem mem_split (pre m post : Bytes) (len : Nat) (h : 16 + len ≤ m.length) :
    pre ++ m ++ post = (pre ++ m.take 16) ++ slice m 16 len ++ (m.drop (16 + len) ++ post) := by
  have e : m = m.take 16 ++ (slice m 16 len ++ m.drop (16 + len)) := by
    unfold slice
    rw [← List.drop_drop, List.take_append_drop, List.take_append_drop]
  conv => lhs; rw [e]
  simp only [List.append_assoc]

theorem takeExact_mid (pre m post : Bytes) (h16 : 16 ≤ m.length) :
    takeExact ((pre ++ m ++ post).drop pre.length) 16 = some (m.take 16) := by
  rw [SrcDec.drop_mid]
  unfold takeExact
  rw [if_pos (by simp; omega), List.take_append_of_le_length h16]

theorem wire_ctor_eq (mt : Nat) (pre m post : Bytes) (size : Nat) (hmt : mt < 256) (h16 : 16 ≤ m.length)
    (hlen : 16 + beAt m 14 2 ≤ m.length) (hmem : (pre ++ m ++ post).length < 2 ^ 64) :
    Packet_ctor_u8_ptr_u64_pv (pre ++ m ++ post) mt pre.length size = some (repr (Packet.ofMsg mt m)) := by
  have hh : 16 ≤ (m.take 16).length := by simp; omega
  have hsl : (slice m 16 (beAt m 14 2)).length = beAt m 14 2 := slice_length m 16 _ hlen
  have hpl : (pre ++ m.take 16).length = pre.length + 16 := by simp; omega
  have hcr := create_eq
    { f_payload := none, f_version := 1, f_deviceId := 0, f_streamId := 0, f_sequenceCounter := 0,
      f_timestamp := beAt (m.take 16) 0 8,
      f_interfaceId := if mt = 1 then beAt (m.take 16) 8 4 else 0,
      f_vendorId := if mt = 3 ∨ mt = 255 then beAt (m.take 16) 10 2 else 0,
      f_commonFlags := byteAt (m.take 16) 12, f_segmentType := 0 }
    (mt * 256 + byteAt m 13) (pre ++ m.take 16) (slice m 16 (beAt m 14 2)) (m.drop (16 + beAt m 14 2) ++ post)
    (by rw [← mem_split pre m post _ hlen]; exact hmem)
  rw [← mem_split pre m post _ hlen, hpl, hsl] at hcr
  have ht : ∀ off w, off + w ≤ 16 → beAt (m.take 16) off w = beAt m off w :=
    fun off w h => C13.beAt_of_take _ m 16 off w (by rw [List.take_take, Nat.min_self]) h
  have hb : byteAt (m.take 16) 12 = byteAt m 12 :=
    C13.byteAt_of_take _ m 16 12 (by rw [List.take_take, Nat.min_self]) (by omega)
  unfold Packet_ctor_u8_ptr_u64_pv
  simp only [bind, some_bind, pure, takeExact_mid pre m post h16, setMessageHeader_eq _ mt _ hh,
    mh_ptype pre m post h16, pt_ctor8 mt _ hmt (byteAt_lt m 13), SrcDec.payloadLength_mid pre m post h16, hcr]
  simp only [repr, Packet.ofMsg, Option.map_some, ht 0 8 (by omega), ht 8 4 (by omega), ht 10 2 (by omega), hb]

end AsamCmp.SrcPv
