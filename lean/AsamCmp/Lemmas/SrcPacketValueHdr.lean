/-
  Packet value mode, part 4: `Packet::getRawCmpHeader` / `getRawMessageHeader`, translated WITH their calls of the getters that go
  through the owned payload (`Packet_getRawCmpHeader_pv` / `Packet_getRawMessageHeader_pv`), reduced to the parameterised
  translations (`…_obj`, opaque getter values as arguments) that `Props/SrcPacket.lean` is about.
-/
import AsamCmp.Lemmas.SrcPacketValueEq
import AsamCmp.Props.SrcPacket
set_option linter.unusedSimpArgs false
set_option linter.unusedVariables false
namespace AsamCmp.SrcPv
open AsamCmp AsamCmp.Src AsamCmp.SrcGen AsamCmp.SrcTie

theorem fits_reg (p : Packet) (h : p.Fits) : SrcEnc.PktReg p := by
  obtain ⟨h1, h2, h3, h4, h5, h6, h7, h8, _, _⟩ := h
  exact ⟨h1, h2, h3, h4, h5, h6, h7, h8⟩

/-- the getter-calling translation is the parameterised one at the values of the translated getters -/
theorem rawCmp_bridge (p : Packet) (pl : Payload) (hp : p.payload = some pl) :
    Packet_getRawCmpHeader_pv (repr p) =
      (Packet_getRawCmpHeader_obj (SrcEnc.pktSt p) p.mt).map (fun r => (repr p, r.2)) := by
  unfold Packet_getRawCmpHeader_pv Packet_getRawCmpHeader_obj
  simp only [pk_getVersion, pk_getDeviceId, pk_getStreamId, pk_getSeq, pk_getMt p pl hp, Packet_getVersion_obj,
    Packet_getDeviceId_obj, Packet_getStreamId_obj, Packet_getSequenceCounter_obj, bind, some_bind, pure,
    Option.map_bind, Option.map_some, Function.comp_def]
  simp only [SrcEnc.pktSt, repr]

theorem rawMsg_bridge (p : Packet) (pl : Payload) (hp : p.payload = some pl) :
    Packet_getRawMessageHeader_pv (repr p) =
      (Packet_getRawMessageHeader_obj (SrcEnc.pktSt p) p.mt p.rawType p.payloadLength).map (fun r => (repr p, r.2)) := by
  unfold Packet_getRawMessageHeader_pv Packet_getRawMessageHeader_obj
  simp only [pk_getTs, pk_getIf, pk_getVendor, pk_getFlags, pk_getMt p pl hp, pk_getPt p pl hp, pk_getLen,
    Packet_getTimestamp_obj, Packet_getInterfaceId_obj, Packet_getVendorId_obj, Packet_getCommonFlags_obj, bind,
    some_bind, pure, Option.map_bind, Option.map_some, Function.comp_def, apply_ite (Option.map _)]
  simp only [SrcEnc.pktSt, repr]

theorem rawCmp_pv (p : Packet) (pl : Payload) (hp : p.payload = some pl) (h : p.Fits) :
    Packet_getRawCmpHeader_pv (repr p) = some (repr p, frameHeader p.version p.deviceId p.mt p.streamId p.seq) := by
  rw [rawCmp_bridge p pl hp, SrcEnc.rawCmpHeader_src p (fits_reg p h)]; rfl

theorem rawMsg_pv (p : Packet) (pl : Payload) (hp : p.payload = some pl) (h : p.Fits) :
    Packet_getRawMessageHeader_pv (repr p) =
      some (repr p, msgHeader p (p.flags &&& 0x0C) p.payloadLength) := by
  rw [rawMsg_bridge p pl hp, SrcEnc.rawMsgHeader_src p (fits_reg p h)]; rfl

theorem bind_none_right {α β : Type} (x : Option α) : x.bind (fun _ => (none : Option β)) = none := by
  cases x <;> rfl

/-- without payload both serialisers are undefined (they call `getMessageType()`) -/
theorem raw_null (p : Packet) (hp : p.payload = none) :
    Packet_getRawCmpHeader_pv (repr p) = none ∧ Packet_getRawMessageHeader_pv (repr p) = none := by
  have hm := (pk_null p hp).1
  constructor
  · unfold Packet_getRawCmpHeader_pv
    simp only [pk_getVersion, pk_getDeviceId, hm, bind, some_bind, none_bind, pure, bind_none_right]
  · unfold Packet_getRawMessageHeader_pv
    simp only [pk_getTs, hm, bind, some_bind, none_bind, pure, bind_none_right]

end AsamCmp.SrcPv
