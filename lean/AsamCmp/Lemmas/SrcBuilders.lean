/-
  Source-level C13: helpers for the translated payload builders (`Props/SrcBuilders.lean`).

  The object's memory is kept in the normal form `writeAt R p W` (one write of the concatenation `W` of everything written so
  far, `R` the resized vector): a `memcpy` / member write directly behind the bytes written so far extends `W`.
-/
import AsamCmp.Lemmas.SrcAccess
import AsamCmp.Builders
set_option linter.unusedSimpArgs false
namespace AsamCmp.SrcTie
open AsamCmp AsamCmp.Src AsamCmp.SrcGen

/-! ### lists: `writeAt`, `resize` -/

theorem writeAt_length (l : Bytes) (p : Nat) (w : Bytes) (h : p + w.length ≤ l.length) :
    (writeAt l p w).length = l.length := by
  simp only [writeAt, List.length_append, List.length_take, List.length_drop]; omega

/-- a write directly behind a write -/
theorem writeAt_writeAt_adj (l : Bytes) (p q : Nat) (u v : Bytes) (hq : q = p + u.length)
    (h : q + v.length ≤ l.length) : writeAt (writeAt l p u) q v = writeAt l p (u ++ v) := by
  subst hq
  have hA : (l.take p).length = p := by simp only [List.length_take]; omega
  have hAu : (l.take p ++ u).length = p + u.length := by simp only [List.length_append, hA]
  have e2 : (l.take p ++ u ++ l.drop (p + u.length)).drop (p + u.length + v.length)
      = l.drop (p + u.length + v.length) := by
    rw [List.drop_append, List.drop_of_length_le (by omega), List.nil_append, List.drop_drop, hAu]
    congr 1; omega
  unfold writeAt
  rw [List.take_left' hAu, e2, List.length_append]
  simp only [List.append_assoc, Nat.add_assoc]

/-- a write directly in front of a write -/
theorem writeAt_writeAt_before (l : Bytes) (p q : Nat) (u v : Bytes) (hq : q = p + u.length)
    (h : q + v.length ≤ l.length) : writeAt (writeAt l q v) p u = writeAt l p (u ++ v) := by
  subst hq
  have hA : (l.take (p + u.length)).length = p + u.length := by simp only [List.length_take]; omega
  have e1 : (l.take (p + u.length) ++ v ++ l.drop (p + u.length + v.length)).take p = l.take p := by
    rw [List.append_assoc, List.take_append_of_le_length (by omega), List.take_take]
    congr 1; omega
  have e2 : (l.take (p + u.length) ++ v ++ l.drop (p + u.length + v.length)).drop (p + u.length)
      = v ++ l.drop (p + u.length + v.length) := by
    rw [List.append_assoc, List.drop_left' hA]
  unfold writeAt
  rw [e1, e2, List.length_append]
  simp only [List.append_assoc, Nat.add_assoc]

/-- a write that ends at the end of the memory -/
theorem writeAt_to_end (l : Bytes) (p : Nat) (w : Bytes) (h : p + w.length = l.length) :
    writeAt l p w = l.take p ++ w := by
  unfold writeAt
  rw [List.drop_of_length_le (by omega), List.append_nil]

/-- shrinking the vector to the end of what was written -/
theorem resize_writeAt (l : Bytes) (p k : Nat) (w : Bytes) (hk : k = p + w.length) (h : k ≤ l.length) :
    resize (writeAt l p w) k = l.take p ++ w := by
  subst hk
  have hA : (l.take p).length = p := by simp only [List.length_take]; omega
  have hl := writeAt_length l p w h
  unfold resize
  rw [if_pos (by omega)]
  unfold writeAt
  exact List.take_left' (by simp only [List.length_append, hA])

theorem take_resize (m : Bytes) (k n : Nat) (h : k ≤ n) : (resize m n).take k = resize m k := by
  unfold resize
  by_cases h1 : n ≤ m.length
  · rw [if_pos h1, if_pos (by omega), List.take_take]; congr 1; omega
  · rw [if_neg h1]
    by_cases h2 : k ≤ m.length
    · rw [if_pos h2, List.take_append_of_le_length h2]
    · rw [if_neg h2, List.take_append, List.take_of_length_le (by omega), List.take_replicate]
      congr 2; omega

theorem take_resize_self (m : Bytes) (k : Nat) : (resize m k).take k = resize m k :=
  take_resize m k k (Nat.le_refl k)

theorem setTail_eq_resize (hdr : Nat) (m d : Bytes) : setTail hdr m d = resize m hdr ++ d := by
  unfold setTail; rw [take_resize_self]

theorem setTail_length (hdr : Nat) (m d : Bytes) : (setTail hdr m d).length = hdr + d.length := by
  rw [setTail_eq_resize, List.length_append, resize_length]

theorem zeros_length (n : Nat) : (zeros n).length = n := by simp [zeros]

theorem take_all (l : Bytes) (n : Nat) (h : l.length ≤ n) : l.take n = l := List.take_of_length_le h

/-! ### memory writes -/

theorem wrBytes_eq (m : Bytes) (a : Nat) (src : Bytes) (n : Nat) (h1 : n ≤ src.length) (h2 : a + n ≤ m.length) :
    wrBytes m a src n = some (writeAt m a (src.take n)) := by
  unfold wrBytes; rw [if_pos ⟨h1, h2⟩]

theorem wr_eq (m : Bytes) (a w v : Nat) (h : a + w ≤ m.length) : wr m a w v = some (writeAt m a (leEnc w v)) := by
  unfold wr; rw [if_pos h]

theorem leEnc_length (w v : Nat) : (leEnc w v).length = w := by
  induction w generalizing v with
  | zero => rfl
  | succ w ih => simp [leEnc, ih]

theorem u8_ofNat_mod (v : Nat) : UInt8.ofNat (v % 256) = UInt8.ofNat v := by
  apply UInt8.toNat_inj.mp; simp

theorem leEnc_one (v : Nat) : leEnc 1 v = [UInt8.ofNat v] := by
  simp only [leEnc, u8_ofNat_mod]

/-- storing a byte-swapped 16-bit value is the big-endian encoding -/
theorem leEnc_swap16 (v : Nat) : leEnc 2 (v / 256 % 256 + v % 256 * 256) = beEnc 2 v := by
  have e1 : (v / 256 % 256 + v % 256 * 256) % 256 = v / 256 % 256 := by omega
  have e2 : (v / 256 % 256 + v % 256 * 256) / 256 % 256 = v % 256 := by omega
  simp only [leEnc, beEnc, e1, e2, List.nil_append, List.cons_append]

theorem leEnc_swap16' (v : Nat) (h : v < 65536) : leEnc 2 (v / 256 + v % 256 * 256) = beEnc 2 v := by
  rw [← leEnc_swap16 v, Nat.mod_eq_of_lt (by omega : v / 256 < 256)]

/-! ### `int` arithmetic on small non-negative values -/

theorem toInt_small (x : Nat) (h : x < 2 ^ 31) : toInt 32 x = (x : Int) := by
  unfold toInt; rw [if_pos h]

theorem ofInt_small (x : Nat) (h : x < 2 ^ 31) : ofInt 32 (x : Int) = some x := by
  unfold ofInt
  have h1 : -((2 ^ (32 - 1) : Nat) : Int) ≤ (x : Int) ∧ (x : Int) < ((2 ^ (32 - 1) : Nat) : Int) := by
    constructor <;> omega
  rw [if_pos h1]
  have h2 : (x : Int) % ((2 ^ 32 : Nat) : Int) = (x : Int) := by omega
  rw [h2, Int.toNat_natCast]

theorem sle_small (x y : Nat) (hx : x < 2 ^ 31) (hy : y < 2 ^ 31) : sle 32 x y = decide (x ≤ y) := by
  unfold sle; rw [toInt_small x hx, toInt_small y hy]
  simp only [Int.ofNat_le]

theorem sadd_small (x y : Nat) (h : x + y < 2 ^ 31) : sadd 32 x y = some (x + y) := by
  unfold sadd; rw [toInt_small x (by omega), toInt_small y (by omega), ← Int.natCast_add, ofInt_small _ h]

theorem smod_small (x y : Nat) (hx : x < 2 ^ 31) (hy : y < 2 ^ 31) (h0 : y ≠ 0) : smod 32 x y = some (x % y) := by
  unfold smod
  rw [if_neg h0, toInt_small x hx, toInt_small y hy, ← Int.ofNat_tmod, ofInt_small]
  exact Nat.lt_of_le_of_lt (Nat.mod_le x y) hx

theorem nonneg_small (x : Nat) (h : x < 2 ^ 31) : nonneg 32 x = some x := by
  unfold nonneg; rw [if_pos h]

theorem psub_zero (p : Nat) : psub p 0 = some p := by
  unfold psub; rw [if_pos (Nat.zero_le p)]; rfl

/-! ### `CanPayloadBase::encodeDlc` -/

theorem encodeDlc_src (this n : Nat) (h : n < 256) : CanPayloadBase_encodeDlc this n = some (dlcOf n) := by
  unfold CanPayloadBase_encodeDlc dlcOf
  rw [sle_small n 8 (by omega) (by omega), sle_small n 12 (by omega) (by omega), sle_small n 16 (by omega) (by omega),
    sle_small n 20 (by omega) (by omega), sle_small n 24 (by omega) (by omega), sle_small n 32 (by omega) (by omega),
    sle_small n 48 (by omega) (by omega)]
  simp only [pure, decide_eq_true_eq, beq_iff_eq, ite_some]

/-! ### `Payload::setData<Header>` -/

/-- Every instantiation `F` of the template `Payload::setData<Header>` (their generated names carry an overload counter, so
    `F` is found by unification and its body checked by `rfl`): resize to header + data, copy the data behind the header. -/
theorem payload_setData_spec (F : Bytes → Nat → Bytes → Nat → Option Bytes) (hdr : Nat)
    (hF : ∀ m this_ x_data a_size, F m this_ x_data a_size = (do
      let m := resize m (uadd 64 hdr a_size)
      let m ← wrBytes m (0 + hdr) x_data a_size
      pure m))
    (m : Bytes) (this : Nat) (x : Bytes) (n : Nat) (hn : n ≤ x.length) (h64 : hdr + n < 2 ^ 64) :
    F m this x n = some (setTail hdr m (x.take n)) := by
  have hl : (x.take n).length = n := by simp only [List.length_take]; omega
  rw [hF, uadd_eq hdr n h64]
  simp only [Nat.zero_add]
  rw [wrBytes_eq _ _ _ _ hn (by rw [resize_length]; omega)]
  try simp only [bind, pure, some_bind]
  rw [writeAt_to_end _ _ _ (by rw [resize_length, hl]), take_resize m hdr (hdr + n) (by omega), setTail_eq_resize]

/-! ### `cmString` -/

theorem cmString_length' (s : Bytes) : (cmString s).length = 2 + (s.length + 1 + (s.length + 1) % 2) := by
  simp only [cmString, List.length_append, beEnc_length, zeros_length]; omega

theorem cmString_even (s : Bytes) (h : (s.length + 1) % 2 = 0) :
    cmString s = beEnc 2 (s.length + 1) ++ (s ++ [0]) := by
  have e : s.length + 1 - s.length = 1 := by omega
  simp only [cmString, h, Nat.add_zero, e, zeros, List.replicate_succ, List.replicate_zero, List.append_assoc]

theorem cmString_odd (s : Bytes) (h : (s.length + 1) % 2 = 1) :
    cmString s = beEnc 2 (s.length + 1 + 1) ++ (s ++ [0, 0]) := by
  have e : s.length + 1 + 1 - s.length = 2 := by omega
  simp only [cmString, h, e, zeros, List.replicate_succ, List.replicate_zero, List.append_assoc]

/-! ### tactics -/

/-- side conditions about lengths and positions (the trailing `fail` keeps error recovery off in the alternatives) -/
syntax "len_omega" : tactic
macro_rules
  | `(tactic| len_omega) =>
    `(tactic| first
      | omega
      | (simp (disch := len_omega) only [List.length_append, List.length_take, List.length_cons, List.length_nil,
          List.length_replicate, beEnc_length, leEnc_length, resize_length, zeros_length, setTail_length,
          cmString_length', writeAt_length] <;> omega)
      | fail "len_omega")

/-- normal form of a builder body: every write becomes a `writeAt`, adjacent writes are merged; extra rewrite rules in
    brackets -/
syntax "bld_norm" " [" Lean.Parser.Tactic.simpLemma,* "]" : tactic
macro_rules
  | `(tactic| bld_norm [$ls,*]) =>
    `(tactic| simp (disch := len_omega) only [bind, pure, some_bind, Option.bind_assoc, wr_eq, wrBytes_eq,
        writeAt_writeAt_adj, writeAt_writeAt_before, leEnc_one, leEnc_swap16, leEnc_swap16', swap16_bytes, uadd_eq,
        usub_eq, take_all, List.take_length, List.cons_append, List.nil_append, List.append_assoc, Nat.zero_add,
        Nat.mod_eq_of_lt, $ls,*])

/-- `bld_norm`, resolving on the way the calls whose value is known by unfolding (`…_getHeader_v2 0 m.length this`) -/
syntax "bld_calls" " [" Lean.Parser.Tactic.simpLemma,* "]" : tactic
macro_rules
  | `(tactic| bld_calls [$ls,*]) =>
    `(tactic| ((try bld_norm [$ls,*]);
               repeat (guard_target =~ Option.bind _ _ = _; refine bind_of_eq rfl ?_; bld_norm [$ls,*])))

/-! ### `CaptureModulePayload::fillWithString` -/

/-- one string block: `fillWithString` at position `p` of a memory with room for it writes `cmString s` there (16-bit
    length — text + NUL, rounded up to even —, the text, one or two NULs) and returns the position behind it -/
theorem fillWithString_spec (m s : Bytes) (this p : Nat) (hs : s.length < 65534)
    (hp : p + (cmString s).length ≤ m.length) :
    CaptureModulePayload_fillWithString m this p s = some (writeAt m p (cmString s), p + (cmString s).length) := by
  rw [cmString_length'] at hp ⊢
  simp (disch := omega) only [CaptureModulePayload_fillWithString, Nat.mod_eq_of_lt, sadd_small, smod_small, bind, pure,
    some_bind]
  by_cases hpar : (s.length + 1) % 2 = 0
  · have e : s.length + 1 - s.length = 1 := by omega
    simp only [hpar, Nat.reduceBNe, Bool.false_eq_true, eq_self, ↓reduceIte]
    bld_norm [e, cmString_even s hpar, List.take_succ_cons, List.take_zero]
    congr 2; omega
  · have h1 : (s.length + 1) % 2 = 1 := by omega
    have e : s.length + 1 + 1 - s.length = 2 := by omega
    simp only [h1, Nat.reduceBNe, Bool.false_eq_true, eq_self, ↓reduceIte]
    bld_norm [e, cmString_odd s h1, List.take_succ_cons, List.take_zero]
    congr 2; omega

end AsamCmp.SrcTie
