/-
  Source-level TECMP path, part 5: `GetHeader`, and the two halves of the main theorem — every payload object `HandlePayload`
  returns is converted to the model's packet (`convert_all`), and the model's packet list is the image of those objects
  (`tecmpDecode_shape`).
-/
import AsamCmp.Lemmas.SrcTecmpModel
set_option linter.unusedSimpArgs false
set_option linter.unusedVariables false
namespace AsamCmp.SrcTec
open AsamCmp AsamCmp.Src AsamCmp.SrcGen AsamCmp.SrcTie

/-- a default-initialised `TECMP::CmpHeader` (message type 0xFF, data type word FF 00: invalid) -/
def hdrDefault : Bytes := [0, 0, 0, 0, 0, 255, 255, 0, 0, 0, 0, 0, 0, 0, 0, 0, 0, 0, 0, 0, 0, 0, 0, 0, 0, 0, 0, 0]

theorem hdrDefault_invalid : TECMP_CmpHeader_isValid hdrDefault 0 = some false := by decide

/-- the header is rejected: too short, declared payload length 0, or declared payload not inside the buffer -/
def hdrRej (b : Bytes) : Prop := b.length < 28 ∨ beAt b 24 2 = 0 ∨ b.length < 28 + beAt b 24 2

instance (b : Bytes) : Decidable (hdrRej b) := by unfold hdrRej; infer_instance

theorem getHeader_spec (pre b post : Bytes) (hmem : (pre ++ b ++ post).length < 2 ^ 64) :
    TECMP_Decoder_GetHeader_obj (pre ++ b ++ post) pre.length b.length =
      some (if hdrRej b then (hdrDefault, 0) else (b.take 28, pre.length + 28)) := by
  have hb := mem_lt pre b post hmem
  unfold TECMP_Decoder_GetHeader_obj hdrRej
  by_cases h28 : b.length < 28
  · simp only [h28, decide_true, if_true, pure, true_or]; rfl
  · have hx : ((pre ++ b ++ post).drop pre.length).take 28 = b.take 28 := by
      rw [List.append_assoc, List.drop_left, List.take_append_of_le_length (by omega)]
    have hl : (b.take 28).length = 28 := by simp only [List.length_take]; omega
    have hw : wrBytes ([0, 0, 0, 0, 0, 255, 255, 0, 0, 0, 0, 0, 0, 0, 0, 0, 0, 0, 0, 0, 0, 0, 0, 0, 0, 0, 0, 0] : Bytes) 0
        ((pre ++ b ++ post).drop pre.length) 28 = some (b.take 28) := by
      rw [wrBytes_eq _ _ _ _ (by simp only [List.append_assoc, List.drop_left, List.length_append]; omega) (by decide), hx]
      unfold writeAt; rw [hl]; simp
    have hpl : TECMP_CmpHeader_getPayloadLength (b.take 28) 0 = some (beAt b 24 2) := by
      rw [(tecmp_header_src (b.take 28) (by omega)).2.1, beAt_take b 28 24 2 (by omega)]
    have hlt : beAt b 24 2 < 65536 := C03.beAt_lt b 24 2
    simp only [h28, decide_false, Bool.false_eq_true, if_false, hw, hpl, bind, pure, some_bind, false_or,
      uadd_eq 28 (beAt b 24 2) (by omega)]
    by_cases h0 : beAt b 24 2 = 0
    · simp only [h0, bne_self_eq_false, Bool.not_false, if_true, true_or]; rfl
    · have hn : (beAt b 24 2 != 0) = true := by simpa using h0
      simp only [hn, Bool.not_true, Bool.false_eq_true, if_false, h0, false_or]
      by_cases hfit : b.length < 28 + beAt b 24 2
      · simp only [hfit, decide_true, if_true]; rfl
      · simp only [hfit, decide_false, Bool.false_eq_true, if_false]

/-! ### every payload object is converted to the model's packet -/

theorem mem_busPl (p : Bytes) (v : Nat) : ∀ n off x, x ∈ busPl p v n off → ∃ o, x = some (busObj p o) ∧ o + 12 ≤ p.length := by
  intro n
  induction n with
  | zero => intro off x h; simp [busPl] at h
  | succ n ih =>
    intro off x h
    unfold busPl at h
    by_cases ho : off + (12 + v) ≤ p.length
    · rw [if_pos ho, List.mem_cons] at h
      rcases h with h | h
      · exact ⟨off, h, by omega⟩
      · exact ih _ _ h
    · rw [if_neg ho] at h; simp at h

theorem convert_all (b : Bytes) (h28 : 28 ≤ b.length) (h64 : (b.drop 28).length < 2 ^ 64) :
    ∀ x ∈ handleR (b.take 28) (b.drop 28), TECMP_Converter_ConvertPacket_obj (b.take 28) x = some (some (convF b x)) := by
  have hH : 28 ≤ (b.take 28).length := by simp only [List.length_take]; omega
  have e5 : byteAt (b.take 28) 5 = byteAt b 5 := byteAt_take b 28 5 (by omega)
  have e6 : beAt (b.take 28) 6 2 = beAt b 6 2 := beAt_take b 28 6 2 (by omega)
  have e12 : beAt (b.take 28) 12 4 = beAt b 12 4 := beAt_take b 28 12 4 (by omega)
  intro x hx
  unfold handleR at hx
  rw [e5] at hx
  by_cases h1 : byteAt b 5 = 1
  · rw [if_pos h1] at hx
    unfold cmR at hx
    by_cases h18 : (b.drop 28).length < 18 ∨ (b.drop 28).length - 12 < beAt (b.drop 28) 4 2
    · rw [if_pos h18] at hx; simp at hx
    · rw [if_neg h18] at hx
      simp only [List.mem_singleton] at hx
      subst hx
      rw [convertPacket_cm _ _ _ hH (by rw [e5]; exact h1) (by omega), tpkt_take, e12]
      simp only [convF, h1, if_true]
  · rw [if_neg h1] at hx
    by_cases h3 : byteAt b 5 = 3
    · rw [if_pos h3] at hx
      unfold dataR at hx
      rw [e6] at hx
      by_cases hcan : beAt b 6 2 = 2 ∨ beAt b 6 2 = 3
      · rw [if_pos hcan] at hx
        unfold parseR at hx
        by_cases hp : (b.drop 28).length < 5 ∨ (b.drop 28).length - 5 < byteAt (b.drop 28) 4
        · rw [if_pos hp] at hx; simp at hx
        · rw [if_neg hp] at hx
          simp only [List.mem_singleton] at hx
          subst hx
          rw [convertPacket_can _ _ _ hH (by rw [e5]; exact h3) (by rw [e6]; exact hcan) h64 (by omega) (by omega), tpkt_take, e12]
          have h4 : ¬ beAt b 6 2 = 4 := by omega
          simp only [convF, h3, h4, Nat.reduceEqDiff, if_false]
      · rw [if_neg hcan] at hx
        by_cases hlin : beAt b 6 2 = 4
        · rw [if_pos hlin] at hx
          unfold parseR at hx
          by_cases hp : (b.drop 28).length < 2 ∨ (b.drop 28).length - 2 < byteAt (b.drop 28) 1
          · rw [if_pos hp] at hx; simp at hx
          · rw [if_neg hp] at hx
            simp only [List.mem_singleton] at hx
            subst hx
            rw [convertPacket_lin _ _ _ hH (by rw [e5]; exact h3) (by rw [e6]; exact hlin) h64 (by omega) (by omega), tpkt_take, e12]
            simp only [convF, h3, hlin, Nat.reduceEqDiff, if_false, if_true]
        · rw [if_neg hlin] at hx; simp at hx
    · rw [if_neg h3] at hx
      by_cases h2 : byteAt b 5 = 2
      · rw [if_pos h2] at hx
        unfold busR at hx
        by_cases h12 : (b.drop 28).length < 12
        · rw [if_pos h12] at hx; simp at hx
        · rw [if_neg h12] at hx
          obtain ⟨o, rfl, ho⟩ := mem_busPl _ _ _ _ _ hx
          have hl : 24 ≤ (busObj (b.drop 28) o).f_payloadData.length := by
            have := slice_length (b.drop 28) o 12 ho
            simp only [busObj, List.length_append, List.length_take, this, zeros_length]; omega
          rw [show busObj (b.drop 28) o = ⟨(busObj (b.drop 28) o).f_payloadData, 512⟩ from rfl,
            convertPacket_if _ _ _ hH (by rw [e5]; exact h2) hl, tpkt_take]
          simp only [convF, h2, Nat.reduceEqDiff, if_false, if_true]
      · rw [if_neg h2] at hx; simp at hx

/-! ### the model's packets are the image of the payload objects -/

theorem tecmpDecode_rej (b : Bytes) (h : hdrRej b) : tecmpDecode b = [] := by
  unfold hdrRej at h
  unfold tecmpDecode
  by_cases h28 : b.length < 28
  · simp only [h28, if_true]
  · by_cases h0 : beAt b 24 2 = 0
    · simp only [h28, h0, if_false, if_true]
    · have : b.length < 28 + beAt b 24 2 := by omega
      simp only [h28, h0, this, if_false, if_true]

theorem tecmpDecode_invalid (b : Bytes) (h : byteAt b 5 = 0xFF ∨ (byteAt b 6 = 0xFF ∧ byteAt b 7 = 0)) : tecmpDecode b = [] := by
  unfold tecmpDecode
  simp only [h, if_true, ite_self]

theorem tecmpDecode_shape (b : Bytes) (hacc : ¬ hdrRej b)
    (hv : ¬ (byteAt b 5 = 0xFF ∨ (byteAt b 6 = 0xFF ∧ byteAt b 7 = 0))) :
    (tecmpDecode b).map (fun q => some (tRepr q)) =
      (handleR (b.take 28) (b.drop 28)).map fun x => some (convF b x) := by
  unfold hdrRej at hacc
  have h28 : ¬ b.length < 28 := by omega
  have h0 : ¬ beAt b 24 2 = 0 := by omega
  have hfit : ¬ b.length < 28 + beAt b 24 2 := by omega
  have e5 : byteAt (b.take 28) 5 = byteAt b 5 := byteAt_take b 28 5 (by omega)
  have e6 : beAt (b.take 28) 6 2 = beAt b 6 2 := beAt_take b 28 6 2 (by omega)
  unfold tecmpDecode handleR
  simp only [h28, h0, hfit, hv, if_false, e5]
  by_cases h1 : byteAt b 5 = 1
  · simp only [h1, if_true, tecmpCm_shape, cmR]
    by_cases h18 : (b.drop 28).length < 18 ∨ (b.drop 28).length - 12 < beAt (b.drop 28) 4 2
    · simp only [h18, if_true, List.map_nil]
    · simp only [h18, if_false, List.map_cons, List.map_nil, tRepr_tecmpPacket, convF, h1, if_true]
  · simp only [h1, if_false]
    by_cases h3 : byteAt b 5 = 3
    · simp only [h3, if_true, dataR, e6]
      by_cases hcan : beAt b 6 2 = 2 ∨ beAt b 6 2 = 3
      · have h4 : ¬ beAt b 6 2 = 4 := by omega
        simp only [hcan, if_true, tecmpCan_shape, parseR]
        by_cases hp : (b.drop 28).length < 5 ∨ (b.drop 28).length - 5 < byteAt (b.drop 28) 4
        · simp only [hp, if_true, List.map_nil]
        · simp only [hp, if_false, List.map_cons, List.map_nil, tRepr_tecmpPacket, convF, h3, h4, Nat.reduceEqDiff]
      · simp only [hcan, if_false]
        by_cases hlin : beAt b 6 2 = 4
        · simp only [hlin, if_true, tecmpLin_shape, parseR]
          by_cases hp : (b.drop 28).length < 2 ∨ (b.drop 28).length - 2 < byteAt (b.drop 28) 1
          · simp only [hp, if_true, List.map_nil]
          · simp only [hp, if_false, List.map_cons, List.map_nil, tRepr_tecmpPacket, convF, h3, hlin, Nat.reduceEqDiff, if_true]
        · simp only [hlin, if_false, List.map_nil]
    · simp only [h3, if_false]
      by_cases h2 : byteAt b 5 = 2
      · simp only [h2, if_true]
        exact tecmpBus_shape b _ h2
      · simp only [h2, if_false, List.map_nil]

end AsamCmp.SrcTec
