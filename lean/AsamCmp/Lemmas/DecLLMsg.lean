/-
  Message-level facts for the refinement of the low-level decoder model: one step of `walk`,
  the size the loop advances by, `localStep` with a consumed prefix, `addSegment` against the
  model's acceptance condition.
-/
import AsamCmp.DecoderLL
import AsamCmp.Lemmas.LayerB
import AsamCmp.Lemmas.Access
import AsamCmp.Lemmas.DecodeM
import AsamCmp.Lemmas.Builders
import AsamCmp.Lemmas.DecLLTable
namespace AsamCmp.C17b
open AsamCmp

/-! ### one step of the message walk -/

theorem walk_nil' (k : Ep) (ver mt : Nat) : walk k ver mt [] = ([], .done) := by
  rw [walk]; simp

theorem msgValid_ne_nil (r : Bytes) (h : msgValid r = true) : r.length ≠ 0 := by
  have := C02.msgValid_bound r h
  omega

theorem walk_invalid' (k : Ep) (ver mt : Nat) (r : Bytes) (h0 : r.length ≠ 0) (hv : msgValid r = false) :
    walk k ver mt r = ([], .invalid) := by
  rw [walk]; simp [h0, hv]

theorem walk_seg' (k : Ep) (ver mt : Nat) (r : Bytes) (hv : msgValid r = true)
    (hs : byteAt r 12 &&& 0x0C ≠ 0) :
    walk k ver mt r = ([], .seg (r.take (16 + beAt r 14 2))) := by
  rw [walk]; simp [msgValid_ne_nil r hv, hv, hs]

theorem walk_unseg' (k : Ep) (ver mt : Nat) (r : Bytes) (hv : msgValid r = true)
    (hs : byteAt r 12 &&& 0x0C = 0) :
    walk k ver mt r =
      (tagPacket k ver (Packet.ofMsg mt r) :: (walk k ver mt (r.drop (16 + beAt r 14 2))).1,
       (walk k ver mt (r.drop (16 + beAt r 14 2))).2) := by
  rw [walk]; simp [msgValid_ne_nil r hv, hv, hs]

/-! ### the size of a delivered unsegmented message -/

theorem create_length (ty : Nat) (d : Bytes) : (create ty d).data.length = d.length := by
  unfold create
  split
  · split <;> simp [zeros]
  · split <;> simp [zeros]

theorem ofMsg_payloadLength (k : Ep) (ver mt : Nat) (r : Bytes) (hv : msgValid r = true) :
    (tagPacket k ver (Packet.ofMsg mt r)).payloadLength = beAt r 14 2 := by
  have hb := C02.msgValid_bound r hv
  have hlt := C03.beAt_two_lt r 14
  have hsl : (slice r 16 (beAt r 14 2)).length = beAt r 14 2 := by
    simp only [slice, List.length_take, List.length_drop]; omega
  simp only [Packet.payloadLength, tagPacket, Packet.ofMsg, create_length, hsl]
  omega

/-! ### `localStep` -/

theorem localStep_cons (P : Option Pending) (k : Ep) (ver mt seq : Nat) (p : Packet) (u : List Packet)
    (term : Term) :
    localStep P ⟨k, ver, mt, seq, p :: u, term⟩ =
      ((localStep none ⟨k, ver, mt, seq, u, term⟩).1, p :: (localStep none ⟨k, ver, mt, seq, u, term⟩).2) := by
  cases term with
  | done => rfl
  | invalid => rfl
  | seg m =>
    simp only [localStep]
    by_cases h4 : segTypeOf m = 4
    · simp [h4]
    · simp [h4]

theorem localStep_none_done (k : Ep) (ver mt seq : Nat) :
    localStep none ⟨k, ver, mt, seq, [], .done⟩ = (none, []) := rfl

/-! ### the segment the walk cuts out -/

theorem segTypeOf_take (r : Bytes) (n : Nat) : segTypeOf (r.take (16 + n)) = byteAt r 12 &&& 0x0C := by
  unfold segTypeOf
  rw [C13.byteAt_of_take (r.take (16 + n)) r (16 + n) 12 (by rw [List.take_take, Nat.min_self]) (by omega)]

theorem take_drop_slice (r : Bytes) (n : Nat) : (r.take (16 + n)).drop 16 = slice r 16 n := by
  unfold slice
  rw [List.drop_take]
  congr 1
  omega

/-! ### `isValidSegmentType` -/

theorem validLL_eq (cur t : Nat) (h : cur = 4 ∨ cur = 8) : isValidSegmentTypeLL cur t = validNext cur t := by
  rcases h with rfl | rfl <;> simp [isValidSegmentTypeLL, validNext]

/-- `addSegment` on a stored entry is the model's acceptance test and append -/
theorem addSegment_spec (sp : SegPkt) (r : Bytes) (ver mt seq : Nat) (hg : GoodEntry sp)
    (hv : msgValid r = true) :
    sp.addSegment r ver mt seq =
      if sp.ver = ver ∧ sp.mt = mt ∧ seq = (sp.seq + 1) % 65536 ∧
          validNext sp.segType (byteAt r 12 &&& 0x0C) = true then
        ({ sp with payload := fixLen (sp.payload ++ slice r 16 (beAt r 14 2)),
                   seq := (sp.seq + 1) % 65536, segType := byteAt r 12 &&& 0x0C }, true)
      else (sp, false) := by
  have hb := C02.msgValid_bound r hv
  unfold SegPkt.addSegment
  by_cases h1 : sp.ver = ver ∧ sp.mt = mt ∧ seq = (sp.seq + 1) % 65536
  · obtain ⟨ha, hb', hc⟩ := h1
    have hn : ¬ (sp.ver ≠ ver ∨ sp.mt ≠ mt ∨ seq ≠ (sp.seq + 1) % 65536) := by
      simp [ha, hb', hc]
    rw [if_neg hn]
    dsimp only
    rw [if_neg (by omega), validLL_eq _ _ hg.1]
    by_cases h2 : validNext sp.segType (byteAt r 12 &&& 0x0C) = true
    · simp [h2, ha, hb', ← hc, fixLen]
    · simp [h2]
  · have hn : sp.ver ≠ ver ∨ sp.mt ≠ mt ∨ seq ≠ (sp.seq + 1) % 65536 := by
      by_cases ha : sp.ver = ver
      · by_cases hb' : sp.mt = mt
        · right; right; intro hc; exact h1 ⟨ha, hb', hc⟩
        · right; left; exact hb'
      · left; exact ha
    rw [if_pos hn, if_neg (fun h => h1 ⟨h.1, h.2.1, h.2.2.1⟩)]

/-- the default entry `operator[]` inserts is rejected by `addSegment` of any real frame -/
theorem addSegment_default (r : Bytes) (ver mt seq : Nat) (hver : ver ≠ 0) :
    ({} : SegPkt).addSegment r ver mt seq = ({}, false) := by
  unfold SegPkt.addSegment
  rw [if_pos (Or.inl (fun h => hver h.symm))]

end AsamCmp.C17b
