/-
  Source-level C03: helpers for the translated accessors of the payload classes (`Props/SrcAccess.lean`).
-/
import AsamCmp.Lemmas.SrcValid
import AsamCmp.Access
namespace AsamCmp.SrcTie
open AsamCmp AsamCmp.Src AsamCmp.SrcGen

theorem udiv_pos (w x y : Nat) (h : y ≠ 0) : udiv w x y = some (x / y) := by
  unfold udiv; rw [if_neg h]

/-- a byte used as a signed index / pointer offset (`int` promotion) is non-negative -/
theorem nonneg_byteAt (b : Bytes) (i : Nat) : nonneg 32 (byteAt b i) = some (byteAt b i) := by
  unfold nonneg; rw [if_pos]; have := byteAt_lt b i; omega

/-- Calls whose value is known by unfolding alone (the `getHeader` overloads `…_getHeader_v`, `…_v2`: the suffix is the
    translator's overload counter and may change) are resolved by unification, without naming them: as long as the goal is
    `x.bind f = _`, prove `x = some _` by `rfl` and renormalise (`src_norm`, re-association of `bind`, and the extra
    rewrite rules given in brackets, side conditions by `omega`). -/
syntax "src_calls" " [" Lean.Parser.Tactic.simpLemma,* "]" : tactic
macro_rules
  | `(tactic| src_calls [$ls,*]) =>
    `(tactic| ((repeat (first | src_norm | simp only [Option.bind_assoc] | simp (disch := omega) only [$ls,*]));
               repeat (guard_target =~ Option.bind _ _ = _; refine bind_of_eq rfl ?_;
                       repeat (first | src_norm | simp only [Option.bind_assoc] | simp (disch := omega) only [$ls,*]))))

/-- a pointer `c ? q : nullptr` into the object at `pd ≠ 0`, as the offset of a view (`srcView` unfolded) -/
theorem off_ptr (pd q : Nat) (c : Prop) [Decidable c] (hpd : 0 < pd) (hq : pd ≤ q) :
    (if (if ¬c then q else 0) = 0 then (none : Option Nat) else some ((if ¬c then q else 0) - pd))
      = if c then none else some (q - pd) := by
  by_cases hc : c
  · simp only [hc, not_true_eq_false, if_false, if_true]
  · have hq0 : ¬ q = 0 := by omega
    simp only [hc, not_false_eq_true, if_true, if_false, hq0]

theorem ptr_sub (pd k : Nat) : pd + k - pd = k := Nat.add_sub_cancel_left pd k

/-- the model's checked read inside the payload -/
theorem model_rd (b : Bytes) (pos w : Nat) (h : pos + w ≤ b.length) : AsamCmp.rd b pos w = some (beAt b pos w) := by
  unfold AsamCmp.rd; rw [if_pos h]

theorem ite_some {α : Type} (c : Prop) [Decidable c] (x y : α) :
    (if c then some x else some y) = some (if c then x else y) := by
  split <;> rfl

/-! ### analog: sample type and sample count -/

theorem analog_dt_src (pre b post : Bytes) (this : Nat) (h2 : 2 ≤ b.length) :
    AnalogPayload_getSampleDt (pre ++ b ++ post) pre.length b.length this = some ((byteAt b 1 &&& 3) * 256) := by
  simp only [AnalogPayload_getSampleDt, AnalogPayload_Header_getSampleDt]
  src_calls []
  simp only [analog_dt, Nat.zero_add]

set_option linter.unusedVariables false in  -- `hb` is used by `omega` (the discharger)
theorem analog_cnt_src (pre b post : Bytes) (this : Nat) (hb : b.length < 2 ^ 64) (h16 : 16 ≤ b.length) :
    AnalogPayload_getSamplesCount (pre ++ b ++ post) pre.length b.length this
      = some ((b.length - 16) / if byteAt b 1 &&& 3 = 0 then 2 else 4) := by
  have h3 : byteAt b 1 &&& 3 ≤ 3 := Nat.and_le_right
  simp only [AnalogPayload_getSamplesCount, Payload_getLength, AnalogPayload_Header_getSampleDt]
  src_calls [udiv_pos]
  simp only [analog_dt, Nat.zero_add]
  by_cases hz : byteAt b 1 &&& 3 = 0
  · simp only [hz, Nat.zero_mul, if_true]
  · have hz' : ¬ (byteAt b 1 &&& 3) * 256 = 0 := by omega
    simp only [hz, hz', if_false]

/-! ### interface status: the stream-id count, the vendor-data length pointer and the vendor-data length -/

theorem if_count_src (pre b post : Bytes) (this : Nat) (h38 : 38 ≤ b.length) :
    InterfacePayload_getStreamIdsCount (pre ++ b ++ post) pre.length b.length this = some (beAt b 36 2) := by
  simp only [InterfacePayload_getStreamIdsCount, InterfacePayload_getStreamIdCountPtr, InterfacePayload_toUint16]
  src_norm

/-- `getVendorDataLengthPtr`: behind the stream ids, whose count is padded to even (`if (count % 2) ++count`) -/
theorem if_vlptr_src (pre b post : Bytes) (this : Nat) (hb : b.length < 2 ^ 64) (h38 : 38 ≤ b.length) :
    InterfacePayload_getVendorDataLengthPtr (pre ++ b ++ post) pre.length b.length this
      = some (pre.length + (38 + (beAt b 36 2 + beAt b 36 2 % 2))) := by
  have hc : beAt b 36 2 < 65536 := by
    rw [beAt_two b 36 (by omega)]; have := byteAt_lt b 36; have := byteAt_lt b (36 + 1); omega
  simp only [InterfacePayload_getVendorDataLengthPtr, InterfacePayload_getStreamIdCountPtr, InterfacePayload_toUint16]
  src_norm
  split <;> (congr 1; omega)

theorem if_vl_src (pre b post : Bytes) (this : Nat) (hb : b.length < 2 ^ 64) (h38 : 38 ≤ b.length)
    (hfit : beAt b 36 2 + beAt b 36 2 % 2 + 2 ≤ b.length - 38) :
    InterfacePayload_getVendorDataLength (pre ++ b ++ post) pre.length b.length this
      = some (beAt b (38 + (beAt b 36 2 + beAt b 36 2 % 2)) 2) := by
  simp only [InterfacePayload_getVendorDataLength, if_vlptr_src pre b post this hb h38, InterfacePayload_toUint16]
  src_norm

end AsamCmp.SrcTie
