/-
  Source-level decoder, part 2: the frame-header readers and the message-level callees of
  `Decoder::decode` on a message `r` at address `pre.length` of `pre ++ r ++ post`, the produced packets.
-/
import AsamCmp.Lemmas.SrcDecoderTable
import AsamCmp.Lemmas.Builders
namespace AsamCmp.SrcDec
open AsamCmp AsamCmp.Src AsamCmp.SrcGen AsamCmp.SrcTie AsamCmp.C17b

-- the normalisation lists are kept uniform across the generated getters, whatever shape the translator gives them
set_option linter.unusedSimpArgs false

/-! ### `header + 1` -/

theorem nonneg_one : nonneg 32 1 = some 1 := nonneg_small 1 (by decide)

/-! ### the five frame-header readers -/

theorem getVersion_mid (pre b post : Bytes) (h8 : 8 ≤ b.length) :
    CmpHeader_getVersion (pre ++ b ++ post) pre.length = some (byteAt b 0) := by
  unfold CmpHeader_getVersion
  simp only [bind, pure, rd_mid0 pre b post 1 (by omega), some_bind, leAt_one]

theorem getMessageType_mid (pre b post : Bytes) (h8 : 8 ≤ b.length) :
    CmpHeader_getMessageType (pre ++ b ++ post) pre.length = some (byteAt b 4) := by
  unfold CmpHeader_getMessageType
  simp only [bind, pure, rd_mid pre b post 4 1 (by omega), some_bind, leAt_one]

theorem getStreamId_mid (pre b post : Bytes) (h8 : 8 ≤ b.length) :
    CmpHeader_getStreamId (pre ++ b ++ post) pre.length = some (byteAt b 5) := by
  unfold CmpHeader_getStreamId
  simp only [bind, pure, rd_mid pre b post 5 1 (by omega), some_bind, leAt_one]

theorem getDeviceId_mid (pre b post : Bytes) (h8 : 8 ≤ b.length) :
    CmpHeader_getDeviceId (pre ++ b ++ post) pre.length = some (beAt b 2 2) := by
  unfold CmpHeader_getDeviceId
  simp only [bind, pure, rd_mid pre b post 2 2 (by omega), some_bind, swap16_leAt b 2 (by omega)]

theorem getSequenceCounter_mid (pre b post : Bytes) (h8 : 8 ≤ b.length) :
    CmpHeader_getSequenceCounter (pre ++ b ++ post) pre.length = some (beAt b 6 2) := by
  unfold CmpHeader_getSequenceCounter
  simp only [bind, pure, rd_mid pre b post 6 2 (by omega), some_bind, swap16_leAt b 6 (by omega)]

/-! ### segment tests -/

theorem isSegmented_mid (pre r post : Bytes) (sz : Nat) (h16 : 16 ≤ r.length) :
    Decoder_isSegmentedPacket (pre ++ r ++ post) pre.length sz = some ((byteAt r 12 &&& 0x0C) != 0) := by
  unfold Decoder_isSegmentedPacket
  simp only [bind, pure, segType_mid pre r post h16, some_bind]

theorem isFirstSegment_mid (pre r post : Bytes) (sz : Nat) (h16 : 16 ≤ r.length) :
    Decoder_isFirstSegment (pre ++ r ++ post) pre.length sz = some ((byteAt r 12 &&& 0x0C) == 4) := by
  unfold Decoder_isFirstSegment
  simp only [bind, pure, segType_mid pre r post h16, some_bind]

/-! ### produced packets -/

/-- a produced packet read as a packet of the model (this is `toPacket`) -/
def toPkt (o : PktOut) : Packet :=
  { Packet.ofMsg o.mt o.msg with version := o.version, deviceId := o.deviceId, streamId := o.streamId }

theorem mkPacket_mid (mt : Nat) (pre r post : Bytes) (hb : 16 + beAt r 14 2 ≤ r.length) :
    mkPacket mt ((pre ++ r ++ post).drop pre.length) = some { mt := mt, msg := r.take (16 + beAt r 14 2) } := by
  unfold mkPacket
  rw [drop_mid, beAt_app r post 14 2 (by omega), if_pos (by rw [List.length_append]; omega),
    List.take_append_of_le_length hb]

/-- the packet constructor looks at the header and the declared bytes only -/
theorem ofMsg_take (mt : Nat) (r : Bytes) :
    Packet.ofMsg mt (r.take (16 + beAt r 14 2)) = Packet.ofMsg mt r := by
  have ht : (r.take (16 + beAt r 14 2)).take (16 + beAt r 14 2) = r.take (16 + beAt r 14 2) := by
    rw [List.take_take, Nat.min_self]
  have hb : ∀ off w, off + w ≤ 16 → beAt (r.take (16 + beAt r 14 2)) off w = beAt r off w :=
    fun off w h => C13.beAt_of_take _ r (16 + beAt r 14 2) off w ht (by omega)
  have hy : ∀ i, i < 16 → byteAt (r.take (16 + beAt r 14 2)) i = byteAt r i :=
    fun i h => C13.byteAt_of_take _ r (16 + beAt r 14 2) i ht (by omega)
  have hs : slice (r.take (16 + beAt r 14 2)) 16 (beAt r 14 2) = slice r 16 (beAt r 14 2) := by
    have := take_drop_slice r (beAt r 14 2)
    unfold slice at this ⊢
    rw [this, List.take_take, Nat.min_self]
  unfold Packet.ofMsg
  rw [hb 14 2 (by omega), hb 0 8 (by omega), hb 8 4 (by omega), hb 10 2 (by omega), hy 12 (by omega),
    hy 13 (by omega), hs]

theorem pktLen_take (mt ver dev stream : Nat) (r : Bytes) :
    pktPayloadLength
      ({ mt := mt, msg := r.take (16 + beAt r 14 2), version := ver, deviceId := dev, streamId := stream } : PktOut) =
      beAt r 14 2 := by
  unfold pktPayloadLength
  exact C13.beAt_of_take _ r (16 + beAt r 14 2) 14 2 (by rw [List.take_take, Nat.min_self]) (by omega)

theorem toPkt_unseg (mt ver dev stream : Nat) (r : Bytes) :
    toPkt { mt := mt, msg := r.take (16 + beAt r 14 2), version := ver, deviceId := dev, streamId := stream } =
      tagPacket (dev, stream) ver (Packet.ofMsg mt r) := by
  unfold toPkt tagPacket
  simp only [ofMsg_take]

/-- `getPacket` on an entry whose stored header declares a length that fits -/
theorem getPacket_src (sp : SegPkt) (h16 : 16 ≤ sp.payload.length)
    (hfit : 16 + beAt sp.payload 14 2 ≤ sp.payload.length) :
    Decoder_SegmentedPacket_getPacket_obj (spSt sp) =
      some (spSt sp, { mt := sp.mt, msg := sp.payload.take (16 + beAt sp.payload 14 2), version := sp.ver }) := by
  unfold Decoder_SegmentedPacket_getPacket_obj mkPacket
  simp only [spSt, List.drop_zero, bind, pure]
  rw [if_pos ⟨h16, hfit⟩, some_bind]

theorem toPkt_assembled (sp : SegPkt) (dev stream : Nat) :
    toPkt ({ mt := sp.mt, msg := sp.payload.take (16 + beAt sp.payload 14 2), version := sp.ver,
             deviceId := dev, streamId := stream } : PktOut) =
      { tagPacket (dev, stream) sp.ver sp.getPacket with version := sp.ver } := by
  unfold toPkt tagPacket SegPkt.getPacket
  simp only [ofMsg_take]

end AsamCmp.SrcDec
