/-
  The message loop of the low-level decoder model against `walk` + `localStep`.
-/
import AsamCmp.Lemmas.DecLLMsg
namespace AsamCmp.C17b
open AsamCmp

/-- the non-first-segment branch of the loop body -/
def segBlock (k : Ep) (r : Bytes) (ver mt seq : Nat) (t : Table) (acc : List Packet) : Table × List Packet :=
  let (t, sp) := t.index k
  let (sp', ok) := sp.addSegment r ver mt seq
  if !ok then (t.erase k, acc)
  else
    let t := t.set k sp'
    let (t, sp2) := t.index k
    if sp2.segType = 12 then
      let p := tagPacket k sp2.ver sp2.getPacket
      (t.erase k, acc ++ [{ p with version := sp2.ver }])
    else (t, acc)

theorem loop_zero_cur (b : Bytes) (dev stream ver mt seq fuel : Nat) (t : Table) (pos : Nat) (acc : List Packet) :
    decodeLoopLL b dev stream ver mt seq fuel t pos 0 acc = (t, acc) := by
  cases fuel with
  | zero => rfl
  | succ fuel => unfold decodeLoopLL; rfl

theorem loop_succ (b : Bytes) (dev stream ver mt seq fuel : Nat) (t : Table) (pos cur : Nat)
    (acc : List Packet) (hc : cur ≠ 0) :
    decodeLoopLL b dev stream ver mt seq (fuel + 1) t pos cur acc =
      if !msgValid (slice b pos cur) then (t.erase (dev, stream), acc)
      else if (byteAt (slice b pos cur) 12 &&& 0x0C) = 0 then
        decodeLoopLL b dev stream ver mt seq fuel (t.erase (dev, stream))
          (pos + ((tagPacket (dev, stream) ver (Packet.ofMsg mt (slice b pos cur))).payloadLength + 16))
          (cur - ((tagPacket (dev, stream) ver (Packet.ofMsg mt (slice b pos cur))).payloadLength + 16))
          (acc ++ [tagPacket (dev, stream) ver (Packet.ofMsg mt (slice b pos cur))])
      else if (byteAt (slice b pos cur) 12 &&& 0x0C) = 4 then
        (t.set (dev, stream) (SegPkt.first (slice b pos cur) ver mt seq), acc)
      else segBlock (dev, stream) (slice b pos cur) ver mt seq t acc := by
  rw [decodeLoopLL, if_neg hc]
  rfl

/-! ### the non-first-segment branch -/

theorem localStep_seg_nonfirst (P : Option Pending) (k : Ep) (ver mt seq : Nat) (m : Bytes)
    (h4 : segTypeOf m ≠ 4) :
    localStep P ⟨k, ver, mt, seq, [], .seg m⟩ =
      match P with
      | none => (none, [])
      | some q =>
        if q.ver = ver ∧ q.mt = mt ∧ seq = (q.seq + 1) % 65536 ∧ validNext q.last (segTypeOf m) = true then
          (if segTypeOf m = 12 then
            (none, [tagPacket k q.ver (Packet.ofMsg q.mt (fixLen (q.buf ++ m.drop 16)))])
           else (some { q with buf := fixLen (q.buf ++ m.drop 16), last := segTypeOf m,
                               seq := (q.seq + 1) % 65536 }, []))
        else (none, []) := by
  cases P with
  | none => simp [localStep, h4]
  | some q =>
    simp only [localStep, h4, if_false, List.isEmpty_nil, if_true, List.nil_append]

theorem segBlock_spec (k : Ep) (r : Bytes) (ver mt seq : Nat) (t : Table) (acc : List Packet)
    (hok : Ok t) (hv : msgValid r = true) (hver : ver ≠ 0) (h4 : byteAt r 12 &&& 0x0C ≠ 4) :
    (segBlock k r ver mt seq t acc).2 =
      acc ++ (localStep (t.abs k) ⟨k, ver, mt, seq, [], .seg (r.take (16 + beAt r 14 2))⟩).2 ∧
    (segBlock k r ver mt seq t acc).1.abs =
      t.abs.set k (localStep (t.abs k) ⟨k, ver, mt, seq, [], .seg (r.take (16 + beAt r 14 2))⟩).1 ∧
    Ok (segBlock k r ver mt seq t acc).1 := by
  have hst := segTypeOf_take r (beAt r 14 2)
  rw [localStep_seg_nonfirst _ _ _ _ _ _ (by rw [hst]; exact h4), abs_apply, hst, take_drop_slice]
  cases hf : t.find k with
  | none =>
    have hb : segBlock k r ver mt seq t acc = (t.erase k, acc) := by
      unfold segBlock
      rw [index_none t k hf]
      dsimp only
      rw [addSegment_default r ver mt seq hver]
      simp only [Bool.not_false, if_true, erase_set]
    rw [hb]
    exact ⟨by simp, abs_erase t k, ok_erase t k hok⟩
  | some sp =>
    have hg := ok_find t k sp hok hf
    have hidx := index_some t k sp hf
    have hadd := addSegment_spec sp r ver mt seq hg hv
    simp only [Option.map_some, absP]
    by_cases hc : sp.ver = ver ∧ sp.mt = mt ∧ seq = (sp.seq + 1) % 65536 ∧
        validNext sp.segType (byteAt r 12 &&& 0x0C) = true
    · rw [if_pos hc] at hadd
      rw [if_pos hc]
      by_cases h12 : byteAt r 12 &&& 0x0C = 12
      · have hb : segBlock k r ver mt seq t acc = (t.erase k, acc ++
            [tagPacket k sp.ver (Packet.ofMsg sp.mt (fixLen (sp.payload ++ slice r 16 (beAt r 14 2))))]) := by
          unfold segBlock
          rw [hidx]
          dsimp only
          rw [hadd]
          dsimp only
          rw [index_some _ k _ (find_set_same t k _)]
          simp only [Bool.not_true, h12, if_true, erase_set]
          rfl
        rw [hb, if_pos h12]
        exact ⟨rfl, abs_erase t k, ok_erase t k hok⟩
      · have hb : segBlock k r ver mt seq t acc = (t.set k { sp with
            payload := fixLen (sp.payload ++ slice r 16 (beAt r 14 2)),
            seq := (sp.seq + 1) % 65536, segType := byteAt r 12 &&& 0x0C }, acc) := by
          unfold segBlock
          rw [hidx]
          dsimp only
          rw [hadd]
          dsimp only
          rw [index_some _ k _ (find_set_same t k _)]
          simp only [Bool.not_true, h12, if_false]
          rfl
        rw [hb, if_neg h12]
        refine ⟨by simp, ?_, ?_⟩
        · rw [abs_set]; rfl
        · apply ok_set t k _ hok
          have hvn := hc.2.2.2
          have hlen : 16 ≤ (fixLen (sp.payload ++ slice r 16 (beAt r 14 2))).length := by
            rw [fixLen_length] <;> simp <;> have := hg.2 <;> omega
          refine ⟨?_, hlen⟩
          show byteAt r 12 &&& 0x0C = 4 ∨ byteAt r 12 &&& 0x0C = 8
          right
          rcases hg.1 with h | h <;> simp [validNext, h] at hvn <;> omega
    · rw [if_neg hc] at hadd
      rw [if_neg hc]
      have hb : segBlock k r ver mt seq t acc = (t.erase k, acc) := by
        unfold segBlock
        rw [hidx]
        dsimp only
        rw [hadd]
        simp only [Bool.not_false, if_true]
      rw [hb]
      exact ⟨by simp, abs_erase t k, ok_erase t k hok⟩

/-! ### the loop against `walk` + `localStep` -/

theorem localStep_first (P : Option Pending) (k : Ep) (ver mt seq : Nat) (m : Bytes) (h4 : segTypeOf m = 4) :
    localStep P ⟨k, ver, mt, seq, [], .seg m⟩ = (some ⟨m, 4, ver, mt, seq⟩, []) := by
  simp [localStep, h4]

theorem loop_spec (b : Bytes) (dev stream ver mt seq : Nat) (hver : ver ≠ 0) :
    ∀ (fuel : Nat) (t : Table) (pos : Nat) (acc : List Packet) (r : Bytes),
      b.drop pos = r → r ≠ [] → r.length / 16 + 1 ≤ fuel → Ok t →
      (decodeLoopLL b dev stream ver mt seq fuel t pos r.length acc).2 =
        acc ++ (localStep (t.abs (dev, stream)) ⟨(dev, stream), ver, mt, seq,
          (walk (dev, stream) ver mt r).1, (walk (dev, stream) ver mt r).2⟩).2 ∧
      (decodeLoopLL b dev stream ver mt seq fuel t pos r.length acc).1.abs =
        t.abs.set (dev, stream) (localStep (t.abs (dev, stream)) ⟨(dev, stream), ver, mt, seq,
          (walk (dev, stream) ver mt r).1, (walk (dev, stream) ver mt r).2⟩).1 ∧
      Ok (decodeLoopLL b dev stream ver mt seq fuel t pos r.length acc).1 := by
  intro fuel
  induction fuel with
  | zero => intro t pos acc r _ _ hf _; omega
  | succ fuel ih =>
    intro t pos acc r hr hne hfuel hok
    have hlen0 : r.length ≠ 0 := fun h => hne (List.eq_nil_of_length_eq_zero h)
    have hslice : slice b pos r.length = r := by
      unfold slice; rw [hr, List.take_length]
    rw [loop_succ _ _ _ _ _ _ _ _ _ _ _ hlen0, hslice]
    by_cases hv : msgValid r = true
    · have hb := C02.msgValid_bound r hv
      rw [if_neg (by simp [hv])]
      by_cases h0 : byteAt r 12 &&& 0x0C = 0
      · -- an unsegmented message: delivered, entry erased, the loop goes on behind it
        rw [if_pos h0, walk_unseg' _ _ _ r hv h0, localStep_cons, ofMsg_payloadLength _ _ _ r hv]
        have hdrop : b.drop (pos + (beAt r 14 2 + 16)) = r.drop (16 + beAt r 14 2) := by
          rw [← hr, List.drop_drop]; congr 1; omega
        have hrl : r.length - (beAt r 14 2 + 16) = (r.drop (16 + beAt r 14 2)).length := by
          rw [List.length_drop]; omega
        rw [hrl]
        have hnone : (t.erase (dev, stream)).abs (dev, stream) = none := by
          rw [abs_apply, find_erase_same]; rfl
        by_cases hrest : r.drop (16 + beAt r 14 2) = []
        · rw [hrest, List.length_nil, loop_zero_cur, walk_nil', localStep_none_done]
          exact ⟨rfl, abs_erase t _, ok_erase t _ hok⟩
        · have hih := ih (t.erase (dev, stream)) (pos + (beAt r 14 2 + 16))
            (acc ++ [tagPacket (dev, stream) ver (Packet.ofMsg mt r)]) (r.drop (16 + beAt r 14 2)) hdrop hrest
            (by rw [List.length_drop]; omega) (ok_erase t _ hok)
          rw [hnone] at hih
          obtain ⟨h1, h2, h3⟩ := hih
          refine ⟨?_, ?_, h3⟩
          · rw [h1, List.append_assoc]; rfl
          · rw [h2, abs_erase, set_set]
      · rw [if_neg h0, walk_seg' _ _ _ r hv h0]
        by_cases h4 : byteAt r 12 &&& 0x0C = 4
        · -- a first segment: the entry is (re)assigned
          rw [if_pos h4, localStep_first _ _ _ _ _ _ (by rw [segTypeOf_take]; exact h4)]
          have hmin : Nat.min r.length (16 + beAt r 14 2) = 16 + beAt r 14 2 := Nat.min_eq_right hb
          refine ⟨by simp, ?_, ?_⟩
          · rw [abs_set]
            simp only [absP, SegPkt.first, hmin]
          · apply ok_set t _ _ hok
            refine ⟨Or.inl rfl, ?_⟩
            simp only [SegPkt.first, hmin, List.length_take]
            omega
        · rw [if_neg h4]
          exact segBlock_spec _ r ver mt seq t acc hok hv hver h4
    · -- an invalid message ends the walk and releases the entry
      have hv' : msgValid r = false := by simpa using hv
      rw [if_pos (by simp [hv']), walk_invalid' _ _ _ r hlen0 hv']
      exact ⟨by simp [localStep], by rw [abs_erase]; rfl, ok_erase t _ hok⟩

/-! ### one call of `decode` -/

theorem decodeLL_spec (t : Table) (buf : Option Bytes) (h : Ok t) :
    Ok (decodeLL t buf).1 ∧
    (decodeLL t buf).1.abs = (decode t.abs buf).1 ∧
    (decodeLL t buf).2 = (decode t.abs buf).2 := by
  cases buf with
  | none => exact ⟨h, rfl, rfl⟩
  | some b =>
    unfold decodeLL decode decodeWith
    by_cases h8 : b.length < 8
    · simp only [h8, if_true]; exact ⟨h, by trivial, by trivial⟩
    · by_cases h0 : byteAt b 0 = 0
      · simp only [h8, h0, if_true, if_false]; exact ⟨h, by trivial, by trivial⟩
      · simp only [h8, h0, if_false]
        by_cases hc : b.length - 8 = 0
        · have hnil : b.drop 8 = [] := List.drop_eq_nil_of_le (by omega)
          simp only [hc, if_true, loop_zero_cur, step, parseFrame, hnil, walk_nil']
          exact ⟨ok_erase t _ h, abs_erase t _, rfl⟩
        · simp only [hc, if_false]
          have hlen : (b.drop 8).length = b.length - 8 := by simp
          have hne : b.drop 8 ≠ [] := fun hn => hc (by rw [← hlen, hn]; rfl)
          have hspec := loop_spec b (beAt b 2 2) (byteAt b 5) (byteAt b 0) (byteAt b 4) (beAt b 6 2) h0
            ((b.length - 8) / 16 + 2) t 8 [] (b.drop 8) rfl hne (by rw [hlen]; omega) h
          rw [hlen] at hspec
          obtain ⟨h1, h2, h3⟩ := hspec
          refine ⟨h3, ?_, ?_⟩
          · rw [h2]; rfl
          · rw [h1]; rfl

end AsamCmp.C17b
