/-
  Helper lemmas for C09 / C10: the invariant of the `putPacket` fold (sequence counters,
  identity, message types, template/version) and the simulation between the folds started
  from an arbitrary encoder and from a fresh one.
-/
import AsamCmp.EncHist
namespace AsamCmp

/-! ## basic facts on `closeLast` / `addNew` / `add` -/

namespace Enc

theorem closeLast_cur (s : Enc) : s.closeLast.cur = none := by
  unfold closeLast
  split
  · assumption
  · split <;> rfl

theorem closeLast_tmpl (s : Enc) : s.closeLast.tmpl = s.tmpl := by
  unfold closeLast
  split
  · rfl
  · split <;> rfl

theorem closeLast_curMt (s : Enc) : s.closeLast.curMt = s.curMt := by
  unfold closeLast
  split
  · rfl
  · split <;> rfl

theorem closeLast_dev (s : Enc) : s.closeLast.dev = s.dev := by
  unfold closeLast
  split
  · rfl
  · split <;> rfl

theorem closeLast_stream (s : Enc) : s.closeLast.stream = s.stream := by
  unfold closeLast
  split
  · rfl
  · split <;> rfl

theorem addNew_curMt (s : Enc) (p : Packet) : (s.addNew p).curMt = s.curMt := by
  simp only [addNew, closeLast_curMt]

end Enc

/-! ## C09: invariant of the fold -/

/-- what C09 says of one frame, except its counter -/
structure FrameOkH (dev stream : Nat) (V : Nat → Prop) (f : EFrame) : Prop where
  hdev : f.dev = dev
  hstream : f.stream = stream
  hver : V f.ver
  hmt : ∀ m ∈ f.msgs, m.pkt.mt = f.mt

/-- counters and frames; does not mention `tmpl` / `curMt` -/
structure Inv (q0 dev stream : Nat) (V : Nat → Prop) (s : Enc) : Prop where
  hdev : s.dev = dev
  hstream : s.stream = stream
  seqc : s.seqc = (q0 + s.closed.length + (if s.cur.isSome then 1 else 0)) % 65536
  cseq : ∀ i (h : i < s.closed.length), s.closed[i].seq = (q0 + i + 1) % 65536
  cfr : ∀ f ∈ s.closed, FrameOkH dev stream V f
  cur : ∀ f, s.cur = some f → f.seq = (q0 + s.closed.length + 1) % 65536 ∧ FrameOkH dev stream V f

/-- the template, if set, has an allowed version and the current message type -/
def TV (V : Nat → Prop) (s : Enc) : Prop := ∀ t, s.tmpl = some t → V t.1 ∧ t.2 = s.curMt

/-- the open frame was made from the template -/
def TC (s : Enc) : Prop := ∀ f, s.cur = some f → s.tmpl = some (f.ver, f.mt)

variable {q0 d st : Nat} {V : Nat → Prop} {s : Enc}

theorem closeLast_inv (h : Inv q0 d st V s) : Inv q0 d st V s.closeLast := by
  unfold Enc.closeLast
  split
  · exact h
  · next f hf =>
    obtain ⟨hseq, hok⟩ := h.cur f hf
    have hq := h.seqc
    simp only [hf, Option.isSome_some, if_true] at hq
    split
    · refine ⟨h.hdev, h.hstream, ?_, h.cseq, h.cfr, ?_⟩
      · simp only [Option.isSome_none]
        rw [hq]
        simp
        omega
      · intro f' hf'
        simp at hf'
    · refine ⟨h.hdev, h.hstream, ?_, ?_, ?_, ?_⟩
      · simp only [Option.isSome_none, List.length_append, List.length_singleton]
        rw [hq]
        simp [Nat.add_assoc]
      · intro i hi
        simp only [List.length_append, List.length_singleton] at hi
        rw [List.getElem_append]
        split
        · next hlt => exact h.cseq i hlt
        · next hge =>
          have : i = s.closed.length := by omega
          subst this
          simpa using hseq
      · intro f' hf'
        simp only [List.mem_append, List.mem_singleton] at hf'
        rcases hf' with hf' | hf'
        · exact h.cfr f' hf'
        · exact hf' ▸ hok
      · intro f' hf'
        simp at hf'

theorem addNew_inv (h : Inv q0 d st V s) (p : Packet)
    (hv : V (s.tmpl.getD (p.version % 256, p.mt)).1) : Inv q0 d st V (s.addNew p) := by
  have h' := closeLast_inv h
  have hc := Enc.closeLast_cur s
  have ht := Enc.closeLast_tmpl s
  have hq := h'.seqc
  simp only [hc, Option.isSome_none] at hq
  refine ⟨h'.hdev, h'.hstream, ?_, h'.cseq, h'.cfr, ?_⟩
  · simp only [Enc.addNew, Option.isSome_some, if_true]
    rw [hq]
    simp
  · intro f hf
    simp only [Enc.addNew, Option.some.injEq] at hf
    subst hf
    refine ⟨?_, h'.hdev, h'.hstream, ?_, ?_⟩
    · simp only [hq]
      simp [Enc.addNew]
    · simpa only [ht] using hv
    · intro m hm
      simp at hm

theorem add_inv (h : Inv q0 d st V s) (m : EMsg)
    (hm : ∀ f, s.cur = some f → m.pkt.mt = f.mt) : Inv q0 d st V (s.add m) := by
  unfold Enc.add
  split
  · exact h
  · next f hf =>
    obtain ⟨hseq, hok⟩ := h.cur f hf
    have hq := h.seqc
    simp only [hf, Option.isSome_some, if_true] at hq
    refine ⟨h.hdev, h.hstream, ?_, h.cseq, h.cfr, ?_⟩
    · simpa using hq
    · intro f' hf'
      simp only [Option.some.injEq] at hf'
      subst hf'
      refine ⟨hseq, hok.hdev, hok.hstream, hok.hver, ?_⟩
      intro m' hm'
      simp only [List.mem_append, List.mem_singleton] at hm'
      rcases hm' with hm' | hm'
      · exact hok.hmt m' hm'
      · subst hm'
        exact hm f hf

namespace Enc

theorem add_tmpl (s : Enc) (m : EMsg) : (s.add m).tmpl = s.tmpl := by
  unfold add; split <;> rfl

theorem add_curMt (s : Enc) (m : EMsg) : (s.add m).curMt = s.curMt := by
  unfold add; split <;> rfl

theorem addNew_tmpl (s : Enc) (p : Packet) :
    (s.addNew p).tmpl = some (s.tmpl.getD (p.version % 256, p.mt)) := by
  simp only [addNew, closeLast_tmpl]

end Enc

/-- the fold invariant, while packet `p` is being put -/
structure GoodH (q0 d st : Nat) (V : Nat → Prop) (p : Packet) (s : Enc) : Prop where
  inv : Inv q0 d st V s
  tv : TV V s
  tc : TC s
  mt : s.curMt = p.mt

theorem addNew_good {p : Packet} (h : Inv q0 d st V s) (htv : TV V s) (hmt : s.curMt = p.mt)
    (hv : V (p.version % 256)) : GoodH q0 d st V p (s.addNew p) := by
  have hgd : V (s.tmpl.getD (p.version % 256, p.mt)).1 ∧
      (s.tmpl.getD (p.version % 256, p.mt)).2 = s.curMt := by
    cases ht : s.tmpl with
    | none => exact ⟨hv, hmt.symm⟩
    | some t => exact htv t ht
  refine ⟨addNew_inv h p hgd.1, ?_, ?_, ?_⟩
  · intro t ht
    rw [Enc.addNew_tmpl] at ht
    simp only [Option.some.injEq] at ht
    subst ht
    rw [Enc.addNew_curMt]
    exact hgd
  · intro f hf
    rw [Enc.addNew_tmpl]
    simp only [Enc.addNew, Option.some.injEq, Enc.closeLast_tmpl] at hf
    subst hf
    rfl
  · rw [Enc.addNew_curMt]; exact hmt

theorem add_good {p : Packet} (h : GoodH q0 d st V p s) (m : EMsg) (hm : m.pkt = p) :
    GoodH q0 d st V p (s.add m) := by
  refine ⟨add_inv h.inv m ?_, ?_, ?_, ?_⟩
  · intro f hf
    have := (h.tv _ (h.tc f hf)).2
    simp only at this
    rw [hm, this, h.mt]
  · intro t ht
    rw [Enc.add_tmpl] at ht
    rw [Enc.add_curMt]
    exact h.tv t ht
  · intro f hf
    rw [Enc.add_tmpl]
    unfold Enc.add at hf
    split at hf
    · next hn => rw [hn] at hf; cases hf
    · next f0 hf0 =>
      simp only [Option.some.injEq] at hf
      subst hf
      exact h.tc f0 hf0
  · rw [Enc.add_curMt]; exact h.mt

theorem addNew_good' {p : Packet} (h : GoodH q0 d st V p s) (hv : V (p.version % 256)) :
    GoodH q0 d st V p (s.addNew p) :=
  addNew_good h.inv h.tv h.mt hv

theorem segMsgs_pkt (idx : Nat) (p : Packet) (b : Bool) (cs : List Bytes) :
    ∀ m ∈ segMsgs idx p b cs, m.pkt = p := by
  induction cs generalizing b with
  | nil => intro m hm; simp [segMsgs] at hm
  | cons c cs ih =>
    intro m hm
    cases b with
    | true =>
      simp only [segMsgs, List.mem_cons] at hm
      rcases hm with hm | hm
      · subst hm; rfl
      · exact ih false m hm
    | false =>
      cases cs with
      | nil =>
        simp only [segMsgs, List.mem_singleton] at hm
        subst hm; rfl
      | cons c' cs' =>
        simp only [segMsgs, List.mem_cons] at hm
        rcases hm with hm | hm
        · subst hm; rfl
        · exact ih false m (by simpa [segMsgs] using hm)

theorem putSegs_good {p : Packet} (hv : V (p.version % 256)) (ms : List EMsg) :
    ∀ s, GoodH q0 d st V p s → (∀ m ∈ ms, m.pkt = p) → GoodH q0 d st V p (putSegs s p ms) := by
  induction ms with
  | nil => intro s h _; exact h
  | cons m ms ih =>
    intro s h hms
    simp only [putSegs]
    exact ih _ (addNew_good' (add_good h m (hms m (List.mem_cons_self ..))) hv)
      (fun m' hm' => hms m' (List.mem_cons_of_mem _ hm'))

theorem putPacket_good (c : Ctx) (ip : Nat × Packet) (h : Inv q0 d st V s) (htv : TV V s) (htc : TC s)
    (hv : V (ip.2.version % 256)) :
    GoodH q0 d st V ip.2 (putPacket c s ip) := by
  obtain ⟨i, p⟩ := ip
  simp only at hv ⊢
  have h1 : GoodH q0 d st V p (if s.cur.isNone || s.curMt != p.mt then
              ({ s with curMt := p.mt, tmpl := none } : Enc).addNew p else s) := by
    split
    · apply addNew_good (s := { s with curMt := p.mt, tmpl := none })
      · exact ⟨h.hdev, h.hstream, h.seqc, h.cseq, h.cfr, h.cur⟩
      · intro t ht; cases ht
      · rfl
      · exact hv
    · next hc =>
      refine ⟨h, htv, htc, ?_⟩
      have hc' : ¬s.cur = none ∧ s.curMt = p.mt := by simpa using hc
      exact hc'.2
  unfold putPacket
  simp only
  generalize (if s.cur.isNone || s.curMt != p.mt then
              ({ s with curMt := p.mt, tmpl := none } : Enc).addNew p else s) = s1 at h1 ⊢
  have h2 : GoodH q0 d st V p (if s1.left c < 16 + p.payloadLength then s1.addNew p else s1) := by
    split
    · exact addNew_good' h1 hv
    · exact h1
  generalize (if s1.left c < 16 + p.payloadLength then s1.addNew p else s1) = s2 at h2 ⊢
  split
  · exact h2
  · split
    · exact add_good h2 _ rfl
    · exact putSegs_good hv _ _ h2 (segMsgs_pkt _ _ _ _)

theorem foldl_good (c : Ctx) (l : List (Nat × Packet)) :
    ∀ s, Inv q0 d st V s → TV V s → TC s → (∀ ip ∈ l, V (ip.2.version % 256)) →
      Inv q0 d st V (l.foldl (putPacket c) s) := by
  induction l with
  | nil => intro s h _ _ _; exact h
  | cons ip l ih =>
    intro s h htv htc hl
    rw [List.foldl_cons]
    have hg := putPacket_good c ip h htv htc (hl ip (List.mem_cons_self ..))
    exact ih _ hg.inv hg.tv hg.tc (fun ip' h' => hl ip' (List.mem_cons_of_mem _ h'))

/-- the state of `encode` just before the frames are handed out -/
def Enc.encState (e : Enc) (batch : List Packet) (c : Ctx) : Enc :=
  (((List.range batch.length).zip batch).foldl (putPacket c)
    { e with closed := [], cur := none, tmpl := none }).closeLast

theorem encode_eq (e : Enc) (batch : List Packet) (c : Ctx) :
    e.encode batch c =
      ({ e.encState batch c with closed := [], cur := none, tmpl := none }, (e.encState batch c).closed) := rfl

theorem encState_inv (e : Enc) (batch : List Packet) (c : Ctx) (hq : e.seqc < 65536) :
    Inv e.seqc e.dev e.stream (fun x => ∃ p ∈ batch, x = p.version % 256) (e.encState batch c) := by
  unfold Enc.encState
  apply closeLast_inv
  apply foldl_good
  · refine ⟨rfl, rfl, ?_, ?_, ?_, ?_⟩
    · simp; omega
    · intro i hi; simp at hi
    · intro f hf; simp at hf
    · intro f hf; simp at hf
  · intro t ht; simp at ht
  · intro f hf; simp at hf
  · intro ip hip
    exact ⟨ip.2, (List.of_mem_zip hip).2, rfl⟩

/-! ## C10: simulation between the fold from `e` and the fold from the fresh encoder -/

namespace Enc

theorem closeLast_none {s : Enc} (h : s.cur = none) : s.closeLast = s := by
  unfold closeLast; rw [h]

theorem closeLast_empty {s : Enc} {f : EFrame} (h : s.cur = some f) (he : f.msgs.isEmpty = true) :
    s.closeLast = { s with cur := none, seqc := (s.seqc + 65535) % 65536 } := by
  unfold closeLast; rw [h]; simp only [he, if_true]

theorem closeLast_nonempty {s : Enc} {f : EFrame} (h : s.cur = some f) (he : f.msgs.isEmpty = false) :
    s.closeLast = { s with closed := s.closed ++ [f], cur := none } := by
  unfold closeLast; rw [h]; simp [he]

end Enc

/-- add `k` to the counter of one frame -/
def shiftF (k : Nat) (f : EFrame) : EFrame := { f with seq := (f.seq + k) % 65536 }

theorem shiftSeq_eq (k : Nat) (fs : List EFrame) : shiftSeq k fs = fs.map (shiftF k) := rfl

/-- the two runs agree up to the counter offset `k`; nothing is said about `curMt` -/
structure Sim (k : Nat) (s s' : Enc) : Prop where
  hdev : s.dev = s'.dev
  hstream : s.stream = s'.stream
  hseqc : s.seqc % 65536 = (s'.seqc + k) % 65536
  hclosed : s.closed = s'.closed.map (shiftF k)
  hcur : s.cur = s'.cur.map (shiftF k)
  htmpl : s.tmpl = s'.tmpl

variable {k : Nat} {s' : Enc}

theorem closeLast_sim (h : Sim k s s') : Sim k s.closeLast s'.closeLast := by
  have hc := h.hcur
  cases hc' : s'.cur with
  | none =>
    rw [hc'] at hc
    rw [Enc.closeLast_none hc', Enc.closeLast_none hc]
    exact h
  | some f' =>
    rw [hc'] at hc
    simp only [Option.map_some] at hc
    cases he : f'.msgs.isEmpty with
    | true =>
      rw [Enc.closeLast_empty hc' he, Enc.closeLast_empty hc (f := shiftF k f') he]
      refine ⟨h.hdev, h.hstream, ?_, h.hclosed, rfl, h.htmpl⟩
      have := h.hseqc
      simp only
      omega
    | false =>
      rw [Enc.closeLast_nonempty hc' he, Enc.closeLast_nonempty hc (f := shiftF k f') he]
      refine ⟨h.hdev, h.hstream, h.hseqc, ?_, rfl, h.htmpl⟩
      simp only [List.map_append, List.map_cons, List.map_nil, h.hclosed]

theorem addNew_sim (h : Sim k s s') (p : Packet) : Sim k (s.addNew p) (s'.addNew p) := by
  have h' := closeLast_sim h
  have hq := h'.hseqc
  refine ⟨h'.hdev, h'.hstream, ?_, h'.hclosed, ?_, ?_⟩
  · simp only [Enc.addNew]
    omega
  · simp only [Enc.addNew, Option.map_some, shiftF, h'.htmpl, h'.hdev, h'.hstream,
      Option.some.injEq, EFrame.mk.injEq, and_true, true_and]
    omega
  · simp only [Enc.addNew, h'.htmpl]

theorem add_sim (h : Sim k s s') (m : EMsg) : Sim k (s.add m) (s'.add m) := by
  have hc := h.hcur
  unfold Enc.add
  cases hc' : s'.cur with
  | none =>
    rw [hc'] at hc
    simp only [hc]
    exact h
  | some f' =>
    rw [hc'] at hc
    simp only [hc, Option.map_some]
    exact ⟨h.hdev, h.hstream, h.hseqc, h.hclosed, rfl, h.htmpl⟩

theorem left_sim (h : Sim k s s') (c : Ctx) : s.left c = s'.left c := by
  unfold Enc.left
  rw [h.hcur]
  cases s'.cur <;> rfl

theorem putSegs_sim (p : Packet) (ms : List EMsg) :
    ∀ s s', Sim k s s' → Sim k (putSegs s p ms) (putSegs s' p ms) := by
  induction ms with
  | nil => intro s s' h; exact h
  | cons m ms ih =>
    intro s s' h
    simp only [putSegs]
    exact ih _ _ (addNew_sim (add_sim h m) p)

theorem putSegs_curMt (p : Packet) (ms : List EMsg) :
    ∀ s, (putSegs s p ms).curMt = s.curMt := by
  induction ms with
  | nil => intro s; rfl
  | cons m ms ih =>
    intro s
    simp only [putSegs]
    rw [ih, Enc.addNew_curMt, Enc.add_curMt]

/-- `putPacket` behind the message-type check -/
def putRest (c : Ctx) (s1 : Enc) (i : Nat) (p : Packet) : Enc :=
  let len := p.payloadLength
  let need := 16 + len
  let s2 := if s1.left c < need then s1.addNew p else s1
  let segmented := s2.left c < need
  let body := p.data.take len
  if len = 0 then s2
  else if !segmented then s2.add ⟨i, p, 0, body⟩
  else putSegs s2 p (segMsgs i p true (chunks (c.cap - 16) body))

theorem putPacket_eq (c : Ctx) (s : Enc) (ip : Nat × Packet) :
    putPacket c s ip =
      putRest c (if s.cur.isNone || s.curMt != ip.2.mt then
        ({ s with curMt := ip.2.mt, tmpl := none } : Enc).addNew ip.2 else s) ip.1 ip.2 := rfl

theorem putRest_sim (c : Ctx) (i : Nat) (p : Packet) (h : Sim k s s') (hm : s.curMt = s'.curMt) :
    Sim k (putRest c s i p) (putRest c s' i p) ∧
      (putRest c s i p).curMt = (putRest c s' i p).curMt := by
  unfold putRest
  simp only
  have h2 : Sim k (if s.left c < 16 + p.payloadLength then s.addNew p else s)
      (if s'.left c < 16 + p.payloadLength then s'.addNew p else s') ∧
      (if s.left c < 16 + p.payloadLength then s.addNew p else s).curMt =
      (if s'.left c < 16 + p.payloadLength then s'.addNew p else s').curMt := by
    rw [left_sim h c]
    split
    · exact ⟨addNew_sim h p, by rw [Enc.addNew_curMt, Enc.addNew_curMt, hm]⟩
    · exact ⟨h, hm⟩
  generalize (if s.left c < 16 + p.payloadLength then s.addNew p else s) = t at h2 ⊢
  generalize (if s'.left c < 16 + p.payloadLength then s'.addNew p else s') = t' at h2 ⊢
  obtain ⟨h2, hm2⟩ := h2
  rw [left_sim h2 c]
  split
  · exact ⟨h2, hm2⟩
  · split
    · exact ⟨add_sim h2 _, by rw [Enc.add_curMt, Enc.add_curMt, hm2]⟩
    · exact ⟨putSegs_sim _ _ _ _ h2, by rw [putSegs_curMt, putSegs_curMt, hm2]⟩

theorem putPacket_sim (c : Ctx) (ip : Nat × Packet) (h : Sim k s s')
    (hm : s'.cur.isSome → s.curMt = s'.curMt) :
    Sim k (putPacket c s ip) (putPacket c s' ip) ∧
      (putPacket c s ip).curMt = (putPacket c s' ip).curMt := by
  rw [putPacket_eq, putPacket_eq]
  have hA : Sim k (({ s with curMt := ip.2.mt, tmpl := none } : Enc).addNew ip.2)
      (({ s' with curMt := ip.2.mt, tmpl := none } : Enc).addNew ip.2) :=
    addNew_sim (s := { s with curMt := ip.2.mt, tmpl := none })
      (s' := { s' with curMt := ip.2.mt, tmpl := none })
      ⟨h.hdev, h.hstream, h.hseqc, h.hclosed, h.hcur, rfl⟩ _
  have hAm : (({ s with curMt := ip.2.mt, tmpl := none } : Enc).addNew ip.2).curMt =
      (({ s' with curMt := ip.2.mt, tmpl := none } : Enc).addNew ip.2).curMt := by
    rw [Enc.addNew_curMt, Enc.addNew_curMt]
  generalize (({ s with curMt := ip.2.mt, tmpl := none } : Enc).addNew ip.2) = A at hA hAm ⊢
  generalize (({ s' with curMt := ip.2.mt, tmpl := none } : Enc).addNew ip.2) = A' at hA hAm ⊢
  have hc := h.hcur
  cases hc' : s'.cur with
  | none =>
    rw [hc'] at hc
    simp only [hc, Option.map_none, Option.isNone_none, Bool.true_or, if_true]
    exact putRest_sim c _ _ hA hAm
  | some f' =>
    have hm' := hm (by rw [hc']; rfl)
    rw [hc'] at hc
    simp only [hc, Option.map_some, Option.isNone_some, Bool.false_or, hm']
    split
    · exact putRest_sim c _ _ hA hAm
    · exact putRest_sim c _ _ h hm'

theorem foldl_sim (c : Ctx) (l : List (Nat × Packet)) :
    ∀ s s', Sim k s s' → (s'.cur.isSome → s.curMt = s'.curMt) →
      Sim k (l.foldl (putPacket c) s) (l.foldl (putPacket c) s') := by
  induction l with
  | nil => intro s s' h _; exact h
  | cons ip l ih =>
    intro s s' h hm
    rw [List.foldl_cons, List.foldl_cons]
    have := putPacket_sim c ip h hm
    exact ih _ _ this.1 (fun _ => this.2)

theorem encode_shift (e : Enc) (batch : List Packet) (c : Ctx) :
    (e.encode batch c).2 = shiftSeq e.seqc ((Enc.fresh e.dev e.stream).encode batch c).2 := by
  rw [encode_eq, encode_eq, shiftSeq_eq]
  simp only
  unfold Enc.encState
  apply Sim.hclosed
  apply closeLast_sim
  apply foldl_sim
  · refine ⟨rfl, rfl, ?_, rfl, rfl, rfl⟩
    simp [Enc.fresh]
  · intro hs
    simp at hs
