/-
  Simulation between the symbolic and the concrete run of a bit program (Src/BitProg.lean): one lemma per operation,
  then induction over the program.
-/
import AsamCmp.Lemmas.BitProgOps
import AsamCmp.Lemmas.BitProgMem
namespace AsamCmp.Src.Bit
open AsamCmp AsamCmp.Src

/-- the symbolic state `ss` describes the concrete state `st`; `M` is the memory BEFORE the program, the symbolic bits
    `mem i j` refer to the object `slice M this size` in it -/
structure Rel (size : Nat) (M : Bytes) (this : Nat) (args : List Nat) (ss : SSt) (st : St) : Prop where
  len : ss.m.length = size
  len8 : ∀ w ∈ ss.m, w.length = 8
  mem : st.m = writeAt M this (memEval (slice M this size) args ss.m)
  vals : st.vals = ss.vals.map (SWord.eval (slice M this size) args)

section
variable {size : Nat} {M : Bytes} {this : Nat} {args : List Nat} {ss : SSt} {st : St}

theorem Rel.push (r : Rel size M this args ss st) {v : Nat} {w : SWord}
    (h : v = SWord.eval (slice M this size) args w) : Rel size M this args (ss.push w) (st.push v) := by
  refine ⟨r.len, r.len8, r.mem, ?_⟩
  simp only [St.push, SSt.push, List.map_append, r.vals, h, List.map_cons, List.map_nil]

theorem Rel.val (r : Rel size M this args ss st) (i : Nat) :
    st.val i = SWord.eval (slice M this size) args (ss.val i) := by
  unfold St.val SSt.val
  rw [r.vals]
  simp only [List.getD_eq_getElem?_getD, List.getElem?_map]
  cases ss.vals[i]? <;> rfl

theorem Rel.memLen (r : Rel size M this args ss st) (hM : this + size ≤ M.length) : st.m.length = M.length := by
  rw [r.mem]
  exact C11.writeAt_length (by rw [memEval_length, r.len]; exact hM)

end

theorem rd_writeAt {M X : Bytes} {this off w : Nat} (hX : this + X.length ≤ M.length) (h : off + w ≤ X.length) :
    rd (writeAt M this X) (this + off) w = some (leAt X off w) := by
  have key := SrcTie.rd_mid (M.take this) X (M.drop (this + X.length)) off w h
  have hl : (M.take this).length = this := by
    rw [List.length_take]; omega
  rw [hl] at key
  exact key

theorem Rel.init (size : Nat) (M : Bytes) (this : Nat) (args : List Nat) (hM : this + size ≤ M.length) :
    Rel size M this args (SSt.init size) ⟨M, []⟩ := by
  refine ⟨initMem_length size, initMem_len8 size, ?_, rfl⟩
  simp only [SSt.init]
  rw [memEval_initMem _ _ size (C11.slice_length hM), C11.writeAt_slice_self hM]

theorem step_sound (argBits : Nat → Nat × Nat) {size : Nat} {M : Bytes} {this : Nat} {args : List Nat}
    (hM : this + size ≤ M.length) (ha : ArgsOk argBits args) {ss ss' : SSt} {st : St} (o : Op)
    (h : symStep argBits ss o = some ss') (r : Rel size M this args ss st) :
    ∃ st', step this args st o = some st' ∧ Rel size M this args ss' st' := by
  cases o with
  | rd off w =>
    simp only [symStep] at h
    split at h
    · next hle =>
      simp only [Option.some.injEq] at h
      subst h
      have hX : this + (memEval (slice M this size) args ss.m).length ≤ M.length := by
        rw [memEval_length, r.len]; exact hM
      refine ⟨st.push (leAt (memEval (slice M this size) args ss.m) off w), ?_, ?_⟩
      · simp only [step]
        rw [r.mem, rd_writeAt hX (by rw [memEval_length]; exact hle)]
        rfl
      · apply r.push
        unfold leAt slice
        rw [← memEval_drop, ← memEval_take, leDec_memEval]
        intro x hx
        exact r.len8 x (List.mem_of_mem_drop (List.mem_of_mem_take hx))
    · cases h
  | arg k =>
    simp only [symStep, Option.some.injEq] at h
    subst h
    refine ⟨_, rfl, ?_⟩
    apply r.push
    exact (eval_argWord _ args k _ _ (ha k).1 (ha k).2).symm
  | const c =>
    simp only [symStep] at h
    split at h
    · next hc =>
      simp only [Option.some.injEq] at h
      subst h
      refine ⟨_, rfl, ?_⟩
      apply r.push
      rw [eval_constBits, Nat.mod_eq_of_lt hc]
    · cases h
  | band a b =>
    simp only [symStep, Option.map_eq_some_iff] at h
    obtain ⟨w, hw, rfl⟩ := h
    refine ⟨_, rfl, ?_⟩
    apply r.push
    rw [r.val, r.val]
    exact zipBits_and _ _ hw
  | bor a b =>
    simp only [symStep, Option.map_eq_some_iff] at h
    obtain ⟨w, hw, rfl⟩ := h
    refine ⟨_, rfl, ?_⟩
    apply r.push
    rw [r.val, r.val]
    exact zipBits_or _ _ hw
  | bxor a b =>
    simp only [symStep, Option.map_eq_some_iff] at h
    obtain ⟨w, hw, rfl⟩ := h
    refine ⟨_, rfl, ?_⟩
    apply r.push
    rw [r.val, r.val]
    exact zipBits_xor _ _ hw
  | bnot bits a =>
    simp only [symStep, Option.bind_eq_some_iff] at h
    obtain ⟨w, hw, h⟩ := h
    split at h
    · next hz =>
      simp only [Option.some.injEq] at h
      subst h
      refine ⟨_, rfl, ?_⟩
      apply r.push
      rw [r.val]
      exact bnot_sound _ _ hw hz
    · cases h
  | trunc bits a =>
    simp only [symStep, Option.some.injEq] at h
    subst h
    refine ⟨_, rfl, ?_⟩
    apply r.push
    rw [r.val, eval_take]
  | sext fb tb a =>
    simp only [symStep] at h
    split at h
    · next hz =>
      simp only [Option.some.injEq] at h
      subst h
      refine ⟨_, rfl, ?_⟩
      apply r.push
      rw [r.val]
      exact sext_sound _ _ hz.1
    · cases h
  | ushl bits a n =>
    simp only [symStep] at h
    split at h
    · next hn =>
      simp only [Option.some.injEq] at h
      subst h
      refine ⟨_, ?_, r.push rfl⟩
      simp only [step]
      rw [r.val, ushl_sound _ _ _ hn]
      rfl
    · cases h
  | sshl bits a n =>
    simp only [symStep] at h
    split at h
    · next hn =>
      simp only [Option.some.injEq] at h
      subst h
      refine ⟨_, ?_, r.push rfl⟩
      simp only [step]
      rw [r.val, sshl_sound _ _ _ hn.1 hn.2]
      rfl
    · cases h
  | ushr bits a n =>
    simp only [symStep] at h
    split at h
    · next hn =>
      simp only [Option.some.injEq] at h
      subst h
      refine ⟨_, ?_, r.push rfl⟩
      simp only [step]
      rw [r.val, ushr_sound _ _ _ hn]
      rfl
    · cases h
  | sshr bits a n =>
    simp only [symStep] at h
    split at h
    · next hn =>
      simp only [Option.some.injEq] at h
      subst h
      refine ⟨_, ?_, r.push rfl⟩
      simp only [step]
      rw [r.val, sshr_sound _ _ _ hn.1 hn.2]
      rfl
    · cases h
  | wr off w a =>
    simp only [symStep] at h
    split at h
    · next hle =>
      simp only [Option.some.injEq] at h
      subst h
      have hXl : (memEval (slice M this size) args ss.m).length = size := by
        rw [memEval_length, r.len]
      have hX : this + (memEval (slice M this size) args ss.m).length ≤ M.length := by
        rw [hXl]; exact hM
      have hlen := r.memLen hM
      have hsz := r.len
      refine ⟨⟨writeAt st.m (this + off) (leEnc w (st.val a)), st.vals ++ [0]⟩, ?_, ?_, ?_, ?_, ?_⟩
      · simp only [step, wr]
        rw [if_pos (by omega)]
        rfl
      · simp only [List.length_append, List.length_take, List.length_drop, chunks_length]
        omega
      · intro x hx
        simp only [List.mem_append] at hx
        rcases hx with (hx | hx) | hx
        · exact r.len8 x (List.mem_of_mem_take hx)
        · exact chunks_len8 w _ (fit_length _ _) x hx
        · exact r.len8 x (List.mem_of_mem_drop hx)
      · show writeAt st.m (this + off) (leEnc w (st.val a)) = _
        rw [r.mem, writeAt_writeAt_inner hX (by rw [leEnc_length, hXl]; omega), memEval_append, memEval_append,
          memEval_take, memEval_drop, memEval_chunks, ← r.val]
        congr 1
        rw [writeAt_eq_append, leEnc_length]
      · show st.vals ++ [0] = _
        rw [r.vals]
        simp
    · cases h

/-- generalisation of `symRun_sound` to an arbitrary pair of related start states -/
theorem run_sound (argBits : Nat → Nat × Nat) {size : Nat} {M : Bytes} {this : Nat} {args : List Nat}
    (hM : this + size ≤ M.length) (ha : ArgsOk argBits args) (prog : List Op) {ss ss' : SSt} {st : St}
    (h : symRun argBits ss prog = some ss') (r : Rel size M this args ss st) :
    ∃ st', run this args st prog = some st' ∧ Rel size M this args ss' st' := by
  induction prog generalizing ss st with
  | nil =>
    simp only [symRun, Option.some.injEq] at h
    subst h
    exact ⟨st, rfl, r⟩
  | cons o os ih =>
    simp only [symRun, Option.bind_eq_some_iff] at h
    obtain ⟨s1, h1, h2⟩ := h
    obtain ⟨st1, e1, r1⟩ := step_sound argBits hM ha o h1 r
    obtain ⟨st2, e2, r2⟩ := ih h2 r1
    refine ⟨st2, ?_, r2⟩
    simp only [run, e1, Option.bind_some, e2]

end AsamCmp.Src.Bit
