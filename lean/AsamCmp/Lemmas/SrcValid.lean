/-
  Source-level tie, part 4: the facts about individual validators that are not plain normalisation —
  bit masks applied to a little-endian member against the model's big-endian reading, and the loop of
  `CaptureModulePayload::isValidPayload`.
-/
import AsamCmp.Lemmas.SrcNorm
import AsamCmp.Packet
namespace AsamCmp.SrcTie
open AsamCmp AsamCmp.Src AsamCmp.SrcGen

/-! ### masks on a 16-bit member -/

theorem le16_mod (b : Bytes) (i : Nat) : (byteAt b i + 256 * byteAt b (i + 1)) % 256 = byteAt b i := by
  have := byteAt_lt b i; omega

theorem le16_div (b : Bytes) (i : Nat) : (byteAt b i + 256 * byteAt b (i + 1)) / 256 = byteAt b (i + 1) := by
  have := byteAt_lt b i; omega

theorem be16_mod (b : Bytes) (i : Nat) : (byteAt b i * 256 + byteAt b (i + 1)) % 256 = byteAt b (i + 1) := by
  have := byteAt_lt b (i + 1); omega

theorem be16_div (b : Bytes) (i : Nat) : (byteAt b i * 256 + byteAt b (i + 1)) / 256 = byteAt b i := by
  have := byteAt_lt b (i + 1); omega

/-- analog: the `sampleDt` bits (`flags & 0x0300` on the little-endian member) are the two low bits of byte 1 -/
theorem analog_dt (b : Bytes) (i : Nat) : (leAt b i 2 &&& 768) % 65536 = (byteAt b (i + 1) &&& 3) * 256 := by
  have h3 : byteAt b (i + 1) &&& 3 ≤ 3 := Nat.and_le_right
  rw [leAt_two, and_split, le16_mod, le16_div]
  simp only [Nat.reduceMod, Nat.reduceDiv, Nat.and_zero]
  omega

/-- CAN: the error bits, `0xFF03` on the little-endian member, against the model's big-endian `0x03FF` -/
theorem can_flags (b : Bytes) (i : Nat) (h : i + 2 ≤ b.length) :
    leAt b i 2 &&& 65283 = 0 ↔ beAt b i 2 &&& 1023 = 0 := by
  rw [leAt_two, beAt_two b i h, and_split _ 65283, and_split _ 1023, le16_mod, le16_div, be16_mod, be16_div]
  simp only [Nat.reduceMod, Nat.reduceDiv]
  omega

/-- a 16-bit member is zero in either byte order -/
theorem le_zero_iff_be (b : Bytes) (i : Nat) (h : i + 2 ≤ b.length) : leAt b i 2 = 0 ↔ beAt b i 2 = 0 := by
  rw [leAt_two, beAt_two b i h]; omega

/-! ### capture-module status: five length-prefixed blocks -/

/-- the `for` loop of `CaptureModulePayload::isValidPayload`, which the translator unrolls (five rounds):
    `n` more length-prefixed blocks from `v_pos` on -/
def cmLoop (m : Bytes) (a_data a_size : Nat) : Nat → Nat → Option Bool
  | 0, _ => pure true
  | n + 1, v_pos => do
    if (decide ((usub 64 a_size v_pos) < 2)) then
      pure false
    else
      let t1 ← rd m (a_data + v_pos) 1
      let t2 ← ushl 64 t1 8
      let t3 ← rd m (a_data + (uadd 64 v_pos 1)) 1
      let v_length := (t2 ||| t3)
      let v_pos := (uadd 64 v_pos 2)
      if (decide ((usub 64 a_size v_pos) < v_length)) then
        pure false
      else
        cmLoop m a_data a_size n (uadd 64 v_pos v_length)

/-- the translated function IS the loop run five times from offset 26 (definitional: names of temporaries, unused
    `let`s such as the loop counter, and comments do not matter) -/
theorem cm_unroll (m : Bytes) (a_data a_size : Nat) :
    CaptureModulePayload_isValidPayload m a_data a_size
      = if decide (a_size < 26) then pure false else cmLoop m a_data a_size 5 26 := by
  unfold CaptureModulePayload_isValidPayload
  rfl

/-- one round of the loop is one round of `blocksOk`; the position never leaves `b`, so nothing wraps -/
theorem cmLoop_spec (pre b post : Bytes) (hb : b.length < 2 ^ 64) (n pos : Nat) (hpos : pos ≤ b.length) :
    cmLoop (pre ++ b ++ post) pre.length b.length n pos = some (blocksOk n (b.drop pos)) := by
  induction n generalizing pos with
  | zero => rfl
  | succ n ih =>
    unfold cmLoop blocksOk
    have hl : (b.drop pos).length = b.length - pos := List.length_drop
    have hl2 : (List.drop 2 (List.drop pos b)).length = b.length - (pos + 2) := by
      simp only [List.length_drop]; omega
    have hd : ∀ k, List.drop k (List.drop 2 (List.drop pos b)) = List.drop (pos + 2 + k) b := by
      intro k; simp only [List.drop_drop]
    src_norm
    rw [hl, hl2, hd]
    by_cases h2 : b.length - pos < 2
    · simp only [if_pos h2]
    · rw [if_neg h2, if_neg h2, beDec_take_two b pos (by omega)]
      by_cases h3 : b.length - (pos + 2) < byteAt b pos * 256 + byteAt b (pos + 1)
      · simp only [if_pos h3]
      · rw [if_neg h3, if_neg h3]
        exact ih _ (by omega)

end AsamCmp.SrcTie
