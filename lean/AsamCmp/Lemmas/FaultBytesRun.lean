/-
  C06 on bytes, part 1: where the segments of one packet sit in the encoder's frame list.
  Every segment frame belongs to a run of consecutive frames holding, one each and in order, the
  segments `segMsgs idx p true (chunks …)` of one packet of the batch.
-/
import AsamCmp.Lemmas.RoundTrip
import AsamCmp.Lemmas.Fault
namespace AsamCmp.C06b
open AsamCmp AsamCmp.C01

/-! ### suffixes of good frame lists -/

theorem goodL_drop {dev stream v : Nat} : ∀ (n : Nat) (fs : List EFrame),
    GoodL dev stream v fs → GoodL dev stream v (fs.drop n) := by
  intro n
  induction n with
  | zero => intro fs h; simpa using h
  | succ n ih =>
    intro fs h
    cases fs with
    | nil => simpa using h
    | cons f fs => simpa using ih fs h.tail

/-- segments at the head of the flattened messages sit one per frame at the head of the frames -/
theorem seg_split {dev stream v : Nat} : ∀ (ms : List EMsg), (∀ m ∈ ms, m.seg ≠ 0) →
    ∀ (fs : List EFrame) (rest : List EMsg), GoodL dev stream v fs →
      fs.flatMap (·.msgs) = ms ++ rest →
      (∀ (j : Nat) (m : EMsg), ms[j]? = some m → ∃ f : EFrame, fs[j]? = some f ∧ f.msgs = [m]) ∧
      (fs.drop ms.length).flatMap (·.msgs) = rest := by
  intro ms
  induction ms with
  | nil => intro _ fs rest _ h; exact ⟨by simp, by simpa using h⟩
  | cons m ms ih =>
    intro hseg fs rest hg hflat
    rw [List.cons_append] at hflat
    obtain ⟨f, fs', ms0, rfl, hm, hrest⟩ := flat_cons hg hflat
    have hf := hg.1 f (by simp)
    have h0 : ms0 = [] := head_seg hf hm (hseg m (by simp))
    subst h0
    obtain ⟨h1, h2⟩ := ih (fun x hx => hseg x (by simp [hx])) fs' rest hg.tail (by simpa using hrest.symm)
    refine ⟨?_, by simpa using h2⟩
    intro j x hj
    cases j with
    | zero =>
      simp only [List.getElem?_cons_zero, Option.some.injEq] at hj
      subst hj
      exact ⟨f, by simp, hm⟩
    | succ j =>
      simp only [List.getElem?_cons_succ] at hj ⊢
      exact h1 j x hj

/-! ### segment flags by position -/

theorem segMsgs_length (idx : Nat) (p : Packet) (b : Bool) (cs : List Bytes) :
    (segMsgs idx p b cs).length = cs.length := by
  have := congrArg List.length (segMsgs_body idx p b cs)
  simpa using this

theorem segMsgs_false_get (idx : Nat) (p : Packet) : ∀ (cs : List Bytes) (j : Nat) (m : EMsg),
    (segMsgs idx p false cs)[j]? = some m →
    ∃ x, cs[j]? = some x ∧ m = ⟨idx, p, if j + 1 = cs.length then 12 else 8, x⟩ := by
  intro cs
  induction cs with
  | nil => intro j m h; simp [segMsgs] at h
  | cons c cs ih =>
    intro j m h
    cases cs with
    | nil =>
      have e : segMsgs idx p false [c] = [⟨idx, p, 12, c⟩] := rfl
      rw [e] at h
      cases j with
      | zero => simp at h; subst h; exact ⟨c, by simp, by simp⟩
      | succ j => simp at h
    | cons c' cs' =>
      rw [segMsgs_false_cons _ _ _ _ (by simp)] at h
      cases j with
      | zero =>
        simp at h; subst h
        exact ⟨c, by simp, by simp⟩
      | succ j =>
        simp only [List.getElem?_cons_succ] at h
        obtain ⟨x, hx, hm⟩ := ih j m h
        refine ⟨x, by simpa using hx, ?_⟩
        rw [hm]
        simp only [List.length_cons]
        congr 1
        by_cases hj : j + 1 = cs'.length + 1
        · rw [if_pos hj, if_pos (by omega)]
        · rw [if_neg hj, if_neg (by omega)]

theorem segMsgs_true_get (idx : Nat) (p : Packet) (cs : List Bytes) (j : Nat) (m : EMsg)
    (h : (segMsgs idx p true cs)[j]? = some m) :
    ∃ x, cs[j]? = some x ∧ m = ⟨idx, p, segCode j cs.length, x⟩ := by
  cases cs with
  | nil => simp [segMsgs] at h
  | cons c cs =>
    have e : segMsgs idx p true (c :: cs) = ⟨idx, p, 4, c⟩ :: segMsgs idx p false cs := rfl
    rw [e] at h
    cases j with
    | zero =>
      simp at h; subst h
      exact ⟨c, by simp, by simp [segCode]⟩
    | succ j =>
      simp only [List.getElem?_cons_succ] at h
      obtain ⟨x, hx, hm⟩ := segMsgs_false_get idx p cs j m h
      refine ⟨x, by simpa using hx, ?_⟩
      rw [hm]
      simp only [List.length_cons, segCode]
      congr 1
      by_cases hj : j + 1 = cs.length
      · rw [if_pos hj, if_neg (by omega), if_pos (by omega)]
      · rw [if_neg hj, if_neg (by omega), if_neg (by omega)]

/-! ### runs -/

/-- the segments of the packet `ip` (which does not fit a frame) sit, one per frame and in order, in
    the frames from index `i0` on -/
def InRun (c : Ctx) (fs : List EFrame) (i0 : Nat) (ip : Nat × Packet) : Prop :=
  ¬ (16 + ip.2.data.length ≤ c.cap) ∧
  ∀ (j : Nat) (m : EMsg), (segMsgs ip.1 ip.2 true (chunks (c.cap - 16) ip.2.data))[j]? = some m →
    ∃ f : EFrame, fs[i0 + j]? = some f ∧ f.msgs = [m]

theorem pieces_eq (c : Ctx) (i : Nat) (p : Packet) (hp : p.WF) :
    pieces c i p = if 16 + p.data.length ≤ c.cap then [⟨i, p, 0, p.data⟩]
      else segMsgs i p true (chunks (c.cap - 16) p.data) := by
  have hd := wf_data hp
  unfold pieces
  rw [wf_plen hp, List.take_length, if_neg (by omega)]

/-- every segment frame lies in a run -/
theorem runs {dev stream v : Nat} (c : Ctx) :
    ∀ (ib : List (Nat × Packet)), (∀ ip ∈ ib, ip.2.WF) → ∀ (fs : List EFrame),
      GoodL dev stream v fs →
      fs.flatMap (·.msgs) = ib.flatMap (fun ip => pieces c ip.1 ip.2) →
      ∀ i f m ms, fs[i]? = some f → f.msgs = m :: ms → m.seg ≠ 0 →
        ∃ ip ∈ ib, ∃ i0 j, i = i0 + j ∧ InRun c fs i0 ip ∧
          (segMsgs ip.1 ip.2 true (chunks (c.cap - 16) ip.2.data))[j]? = some m := by
  intro ib
  induction ib with
  | nil =>
    intro _ fs hg hflat i f m ms hi hm _
    cases fs with
    | nil => simp at hi
    | cons g fs' =>
      have := (hg.1 g (by simp)).ne
      simp at hflat
      exact absurd hflat.1 this
  | cons ip ib' ih =>
    intro hwf fs hg hflat i f m ms hi hm hseg
    obtain ⟨idx, p⟩ := ip
    have hp : p.WF := hwf (idx, p) (by simp)
    have ih' := ih (fun x hx => hwf x (by simp [hx]))
    simp only [List.flatMap_cons] at hflat
    rw [pieces_eq c idx p hp] at hflat
    by_cases hfit : 16 + p.data.length ≤ c.cap
    · rw [if_pos hfit, List.singleton_append] at hflat
      obtain ⟨f1, fs', ms0, rfl, hm1, hrest⟩ := flat_cons hg hflat
      have hf1 := hg.1 f1 (by simp)
      have hall := head_unseg hf1 hm1 rfl
      cases i with
      | zero =>
        simp only [List.getElem?_cons_zero, Option.some.injEq] at hi
        subst hi
        exact absurd (hall m (by rw [hm]; simp)) hseg
      | succ i' =>
        simp only [List.getElem?_cons_succ] at hi
        by_cases hms0 : ms0 = []
        · subst hms0
          obtain ⟨ip, hip, i0, j, hij, hrun, hj⟩ :=
            ih' fs' hg.tail (by simpa using hrest.symm) i' f m ms hi hm hseg
          refine ⟨ip, by simp [hip], i0 + 1, j, by omega, ⟨hrun.1, ?_⟩, hj⟩
          intro j' m' hj'
          obtain ⟨g, hg1, hg2⟩ := hrun.2 j' m' hj'
          refine ⟨g, ?_, hg2⟩
          rw [show i0 + 1 + j' = (i0 + j') + 1 by omega, List.getElem?_cons_succ]
          exact hg1
        · have hg' := hg.dropMsg hm1 hall hms0
          obtain ⟨ip, hip, i0, j, hij, hrun, hj⟩ :=
            ih' ({ f1 with msgs := ms0 } :: fs') hg' (by simpa using hrest.symm) (i' + 1) f m ms
              (by simpa using hi) hm hseg
          refine ⟨ip, by simp [hip], i0, j, hij, ⟨hrun.1, ?_⟩, hj⟩
          intro j' m' hj'
          obtain ⟨g, hg1, hg2⟩ := hrun.2 j' m' hj'
          have hm'seg : m'.seg ≠ 0 := by
            have := segMsgs_mem _ _ _ _ m' (List.mem_of_getElem? hj')
            omega
          cases hpos : i0 + j' with
          | zero =>
            rw [hpos] at hg1
            simp only [List.getElem?_cons_zero, Option.some.injEq] at hg1
            subst hg1
            simp only at hg2
            exact absurd (hall m' (by rw [hm1, hg2]; simp)) hm'seg
          | succ k =>
            rw [hpos] at hg1
            exact ⟨g, by simpa using hg1, hg2⟩
    · rw [if_neg hfit] at hflat
      have hsg : ∀ x ∈ segMsgs idx p true (chunks (c.cap - 16) p.data), x.seg ≠ 0 := by
        intro x hx
        have := segMsgs_mem _ _ _ _ x hx
        omega
      obtain ⟨h1, h2⟩ := seg_split _ hsg fs _ hg hflat
      generalize hn : (segMsgs idx p true (chunks (c.cap - 16) p.data)).length = n at h2
      by_cases hin : i < n
      · have : ∃ x, (segMsgs idx p true (chunks (c.cap - 16) p.data))[i]? = some x := by
          rw [← hn] at hin
          exact ⟨_, List.getElem?_eq_getElem hin⟩
        obtain ⟨x, hx⟩ := this
        obtain ⟨g, hg1, hg2⟩ := h1 i x hx
        rw [hi] at hg1
        cases hg1
        rw [hm] at hg2
        simp only [List.cons.injEq] at hg2
        obtain ⟨rfl, _⟩ := hg2
        refine ⟨(idx, p), by simp, 0, i, by omega, ⟨hfit, ?_⟩, hx⟩
        intro j' m' hj'
        simpa using h1 j' m' hj'
      · have hi' : (fs.drop n)[i - n]? = some f := by
          rw [List.getElem?_drop, show n + (i - n) = i by omega]; exact hi
        obtain ⟨ip, hip, i0, j, hij, hrun, hj⟩ :=
          ih' (fs.drop n) (goodL_drop n fs hg) h2 (i - n) f m ms hi' hm hseg
        refine ⟨ip, by simp [hip], n + i0, j, by omega, ⟨hrun.1, ?_⟩, hj⟩
        intro j' m' hj'
        obtain ⟨g, hg1, hg2⟩ := hrun.2 j' m' hj'
        refine ⟨g, ?_, hg2⟩
        rw [List.getElem?_drop] at hg1
        rw [show n + i0 + j' = n + (i0 + j') by omega]
        exact hg1

end AsamCmp.C06b
