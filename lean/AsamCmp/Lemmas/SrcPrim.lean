/-
  Source-level tie, part 1: lemmas about the primitives of `Src/Sem.lean` (`rd`, `leAt`, `uadd`, `usub`, shifts) and about
  the byte-level readers of `Bytes.lean` (`byteAt`, `beAt`).  Nothing here mentions a generated definition.
-/
import AsamCmp.Src.Sem
namespace AsamCmp.SrcTie
open AsamCmp AsamCmp.Src

/-! ### `Option` monad steps

  Deliberately NOT `rfl`-lemmas: `simp` then records an explicit rewrite step.  With core's `Option.bind_some` (a `rfl`-lemma)
  the step is left to the kernel's definitional-equality check, which on terms like `(some v).bind f =?= (ushl 64 v 8).bind g`
  compares the arguments first and unfolds `% 2 ^ 64` on open terms — minutes, then `deep recursion`. -/

theorem some_bind {α β : Type} (a : α) (f : α → Option β) : (some a).bind f = f a := by
  rw [Option.bind_some]

theorem none_bind {α β : Type} (f : α → Option β) : (none : Option α).bind f = none := by
  rw [Option.bind_none]

/-! ### bytes -/

theorem byteAt_lt (b : Bytes) (i : Nat) : byteAt b i < 256 := (b.getD i 0).toNat_lt

theorem byteAt_drop (b : Bytes) (k i : Nat) : byteAt (b.drop k) i = byteAt b (k + i) := by
  simp [byteAt, List.getD_eq_getElem?_getD, List.getElem?_drop]

theorem byteAt_of_le (b : Bytes) (i : Nat) (h : b.length ≤ i) : byteAt b i = 0 := by
  simp [byteAt, List.getD_eq_getElem?_getD, List.getElem?_eq_none h]

theorem slice_zero (b : Bytes) (i : Nat) : slice b i 0 = [] := by simp [slice]

theorem slice_of_le (b : Bytes) (i w : Nat) (h : b.length ≤ i) : slice b i w = [] := by
  simp [slice, List.drop_eq_nil_of_le h]

theorem slice_succ (b : Bytes) (i w : Nat) (h : i < b.length) :
    slice b i (w + 1) = b.getD i 0 :: slice b (i + 1) w := by
  unfold slice
  rw [List.drop_eq_getElem_cons h, List.take_succ_cons]
  simp [List.getD_eq_getElem?_getD, List.getElem?_eq_getElem h]

/-- the object `b` inside a larger memory: slices of the memory at `b`'s address are slices of `b` -/
theorem slice_mid (pre b post : Bytes) (i w : Nat) (h : i + w ≤ b.length) :
    slice (pre ++ b ++ post) (pre.length + i) w = slice b i w := by
  unfold slice
  rw [List.append_assoc, List.drop_append, List.drop_append]
  have h1 : pre.length + i - pre.length = i := by omega
  rw [List.drop_eq_nil_of_le (by omega : pre.length ≤ pre.length + i), h1, List.nil_append,
    List.take_append_of_le_length (by simp; omega)]

theorem slice_drop (b : Bytes) (k i w : Nat) : slice (b.drop k) i w = slice b (k + i) w := by
  simp [slice, List.drop_drop]

theorem drop_take_eq_slice (b : Bytes) (k w : Nat) : (b.drop k).take w = slice b k w := rfl

/-! ### little-endian reads -/

theorem leAt_zero (b : Bytes) (i : Nat) : leAt b i 0 = 0 := by simp [leAt, slice_zero, leDec]

theorem leAt_succ (b : Bytes) (i w : Nat) : leAt b i (w + 1) = byteAt b i + 256 * leAt b (i + 1) w := by
  by_cases h : i < b.length
  · simp [leAt, slice_succ b i w h, leDec, byteAt]
  · have h1 : b.length ≤ i := by omega
    simp [leAt, slice_of_le b i _ h1, slice_of_le b (i + 1) _ (by omega : b.length ≤ i + 1), leDec,
      byteAt_of_le b i h1]

theorem leAt_one (b : Bytes) (i : Nat) : leAt b i 1 = byteAt b i := by
  rw [leAt_succ, leAt_zero]; omega

theorem leAt_two (b : Bytes) (i : Nat) : leAt b i 2 = byteAt b i + 256 * byteAt b (i + 1) := by
  rw [leAt_succ, leAt_one]

theorem leAt_four (b : Bytes) (i : Nat) :
    leAt b i 4 = byteAt b i + 256 * byteAt b (i + 1) + 65536 * byteAt b (i + 2) + 16777216 * byteAt b (i + 3) := by
  rw [leAt_succ, leAt_succ, leAt_two]; simp only [Nat.add_assoc, Nat.reduceAdd]; omega

theorem leAt_eight (b : Bytes) (i : Nat) :
    leAt b i 8 = leAt b i 4 + 4294967296 * leAt b (i + 4) 4 := by
  simp only [leAt_succ, leAt_zero, Nat.add_assoc, Nat.reduceAdd]; omega

theorem leAt_mid (pre b post : Bytes) (i w : Nat) (h : i + w ≤ b.length) :
    leAt (pre ++ b ++ post) (pre.length + i) w = leAt b i w := by
  unfold leAt; rw [slice_mid pre b post i w h]

theorem rd_eq (m : Bytes) (a w : Nat) (h : a + w ≤ m.length) : rd m a w = some (leAt m a w) := by
  unfold rd; rw [if_pos h]

/-- a read inside `b`, where `b` sits at address `pre.length` -/
theorem rd_mid (pre b post : Bytes) (i w : Nat) (h : i + w ≤ b.length) :
    rd (pre ++ b ++ post) (pre.length + i) w = some (leAt b i w) := by
  rw [rd_eq _ _ _ (by simp; omega), leAt_mid pre b post i w h]

/-- a read at the first byte of `b` -/
theorem rd_mid0 (pre b post : Bytes) (w : Nat) (h : w ≤ b.length) :
    rd (pre ++ b ++ post) pre.length w = some (leAt b 0 w) := by
  have := rd_mid pre b post 0 w (by omega)
  simpa using this

theorem rd_drop (m : Bytes) (p i w : Nat) (h : p + i + w ≤ m.length) :
    rd m (p + i) w = some (leAt (m.drop p) i w) := by
  rw [rd_eq _ _ _ (by omega)]; simp [leAt, slice_drop]

theorem rd_drop0 (m : Bytes) (p w : Nat) (h : p + w ≤ m.length) :
    rd m p w = some (leAt (m.drop p) 0 w) := by
  have := rd_drop m p 0 w (by omega)
  simpa using this

/-! ### big-endian reads -/

theorem beDec_cons (x : UInt8) (xs : Bytes) : beDec (x :: xs) = x.toNat * 256 ^ xs.length + beDec xs := by
  induction xs using snocInd generalizing x with
  | hnil => simp [beDec]
  | hsnoc ys y ih =>
    rw [← List.cons_append, beDec_append_singleton, beDec_append_singleton, ih]
    simp only [List.length_append, List.length_singleton, Nat.pow_succ]
    rw [Nat.add_mul, Nat.mul_assoc, Nat.add_assoc]

theorem slice_length (b : Bytes) (i w : Nat) (h : i + w ≤ b.length) : (slice b i w).length = w := by
  simp [slice]; omega

theorem beAt_zero (b : Bytes) (i : Nat) : beAt b i 0 = 0 := by simp [beAt, slice_zero]

theorem beAt_succ (b : Bytes) (i w : Nat) (h : i + (w + 1) ≤ b.length) :
    beAt b i (w + 1) = byteAt b i * 256 ^ w + beAt b (i + 1) w := by
  unfold beAt
  rw [slice_succ b i w (by omega), beDec_cons, slice_length b (i + 1) w (by omega)]
  rfl

theorem beAt_one (b : Bytes) (i : Nat) (h : i + 1 ≤ b.length) : beAt b i 1 = byteAt b i := by
  rw [beAt_succ b i 0 h, beAt_zero]; omega

theorem beAt_two (b : Bytes) (i : Nat) (h : i + 2 ≤ b.length) :
    beAt b i 2 = byteAt b i * 256 + byteAt b (i + 1) := by
  rw [beAt_succ b i 1 h, beAt_one b (i + 1) (by omega), Nat.pow_one]

theorem beAt_four (b : Bytes) (i : Nat) (h : i + 4 ≤ b.length) :
    beAt b i 4 = byteAt b i * 16777216 + byteAt b (i + 1) * 65536 + byteAt b (i + 2) * 256 + byteAt b (i + 3) := by
  rw [beAt_succ b i 3 h, beAt_succ b (i + 1) 2 (by omega), beAt_two b (i + 1 + 1) (by omega)]
  simp only [Nat.add_assoc, Nat.reduceAdd]

theorem beAt_eight (b : Bytes) (i : Nat) (h : i + 8 ≤ b.length) :
    beAt b i 8 = beAt b i 4 * 4294967296 + beAt b (i + 4) 4 := by
  rw [beAt_succ b i 7 h, beAt_succ b (i + 1) 6 (by omega), beAt_succ b (i + 1 + 1) 5 (by omega),
    beAt_succ b (i + 1 + 1 + 1) 4 (by omega), beAt_four b i (by omega)]
  simp only [Nat.add_assoc, Nat.reduceAdd]; omega

theorem beAt_drop (b : Bytes) (k i w : Nat) : beAt (b.drop k) i w = beAt b (k + i) w := by
  simp [beAt, slice_drop]

/-- the big-endian length prefix the model reads with `beDec (r.take 2)` -/
theorem beDec_take_two (b : Bytes) (k : Nat) (h : k + 2 ≤ b.length) :
    beDec ((b.drop k).take 2) = byteAt b k * 256 + byteAt b (k + 1) := by
  rw [drop_take_eq_slice]; exact beAt_two b k h

/-! ### modular arithmetic of `size_t` that does not wrap -/

theorem usub_eq (x y : Nat) (h1 : y ≤ x) (h2 : x < 2 ^ 64) : usub 64 x y = x - y := by
  unfold usub
  have : x + 2 ^ 64 - y = (x - y) + 2 ^ 64 := by omega
  rw [this, Nat.add_mod_right, Nat.mod_eq_of_lt (by omega)]

theorem uadd_eq (x y : Nat) (h : x + y < 2 ^ 64) : uadd 64 x y = x + y := by
  unfold uadd; exact Nat.mod_eq_of_lt h

/-! ### building a 16-bit value from two bytes: `(hi << 8) | lo` -/

theorem ushl_byte (x : Nat) (h : x < 256) : ushl 64 x 8 = some (x * 256) := by
  unfold ushl
  rw [if_pos (by decide), Nat.shiftLeft_eq, Nat.mod_eq_of_lt (by omega)]

theorem or_byte (x y : Nat) (h : y < 256) : x * 256 ||| y = x * 256 + y := by
  have := Nat.two_pow_add_eq_or_of_lt (i := 8) (b := y) (by omega) x
  rw [Nat.mul_comm] at this
  exact this.symm

theorem ushl_byteAt (b : Bytes) (i : Nat) : ushl 64 (byteAt b i) 8 = some (byteAt b i * 256) :=
  ushl_byte _ (byteAt_lt b i)

theorem or_byteAt (x : Nat) (b : Bytes) (i : Nat) : x * 256 ||| byteAt b i = x * 256 + byteAt b i :=
  or_byte _ _ (byteAt_lt b i)

end AsamCmp.SrcTie
