/-
  C01, layer 1: parse ∘ serialise.  What the decoder's message walk (`walk`, `parseFrame`) finds
  in the bytes the encoder model serialises (`EMsg.bytes`, `EFrame.bytes`).
-/
import AsamCmp.RoundTrip
import AsamCmp.Lemmas.TileBytes
namespace AsamCmp.C01
open AsamCmp

/-! ### bit facts about the flags byte -/

set_option maxRecDepth 10000 in
theorem flags_lt : ∀ x, x < 256 → ∀ s, s < 4 → ((x &&& 0xF3) ||| (4*s)) % 256 = (x &&& 0xF3) ||| (4*s) := by
  decide

set_option maxRecDepth 10000 in
theorem flags_err : ∀ x, x < 256 → ∀ s, s < 4 → x &&& 0x40 = 0 → ((x &&& 0xF3) ||| (4*s)) &&& 0x40 = 0 := by
  decide

set_option maxRecDepth 10000 in
theorem flags_clear : ∀ x, x < 256 → ∀ s, s < 4 → ((x &&& 0xF3) ||| (4*s)) &&& 0xF3 = x &&& 0xF3 := by
  decide

theorem seg_cases {seg : Nat} (hs : seg = 0 ∨ seg = 4 ∨ seg = 8 ∨ seg = 12) : ∃ s, s < 4 ∧ seg = 4 * s := by
  rcases hs with h | h | h | h
  · exact ⟨0, by omega, by omega⟩
  · exact ⟨1, by omega, by omega⟩
  · exact ⟨2, by omega, by omega⟩
  · exact ⟨3, by omega, by omega⟩

/-! ### well-formed packets -/

theorem wf_unpack {p : Packet} (h : p.WF) :
    ∃ pl, p.payload = some pl ∧ 1 ≤ pl.data.length ∧ pl.data.length ≤ 65535 ∧ pl.mt ≠ 0 ∧ pl.raw ≠ 0 ∧
      pl.ty < 65536 ∧ 1 ≤ p.version ∧ p.version < 256 ∧ p.flags < 256 ∧ p.flags &&& 0x40 = 0 ∧
      p.ts < 2 ^ 64 ∧ p.ifId < 2 ^ 32 ∧ p.vendorId < 2 ^ 16 ∧
      (∀ v, validatorOf pl.ty = some v → v pl.data = true) := by
  unfold Packet.WF Packet.wf at h
  cases hp : p.payload with
  | none => simp [hp] at h
  | some pl =>
    simp only [hp, Bool.and_eq_true, decide_eq_true_eq] at h
    obtain ⟨⟨⟨⟨⟨⟨⟨⟨⟨⟨⟨⟨h1, h2⟩, h3⟩, h4⟩, h5⟩, h6⟩, h7⟩, h8⟩, h9⟩, h10⟩, h11⟩, h12⟩, h13⟩ := h
    refine ⟨pl, rfl, h1, h2, h3, h4, h5, h6, h7, h8, h9, h10, h11, h12, ?_⟩
    intro v hv
    simpa [hv] using h13

theorem wf_data {p : Packet} (h : p.WF) : 1 ≤ p.data.length ∧ p.data.length ≤ 65535 := by
  obtain ⟨pl, hp, h1, h2, _⟩ := wf_unpack h
  simp [Packet.data, hp, h1, h2]

theorem wf_create {p : Packet} (h : p.WF) :
    some (create (p.mt * 256 + p.rawType % 256) p.data) = p.payload := by
  obtain ⟨pl, hp, _, _, _, hraw, hty, _, _, _, _, _, _, _, hv⟩ := wf_unpack h
  have e : p.mt * 256 + p.rawType % 256 = pl.ty := by
    simp only [Packet.mt, Packet.rawType, hp, Payload.mt, Payload.raw]
    omega
  have hd : p.data = pl.data := by simp [Packet.data, hp]
  rw [e, hd, hp]
  congr 1
  unfold create
  cases hval : validatorOf pl.ty with
  | some v => simp [hv v hval]
  | none =>
    have : pl.ty ≠ 0 := by
      intro h0
      simp [Payload.raw, h0] at hraw
    simp [this]

/-! ### reading the header fields back -/

/-- the 14 bytes in front of the length field -/
def hdr14 (p : Packet) (seg : Nat) : Bytes :=
  hdrPre p ++ [UInt8.ofNat ((p.flags % 256 &&& 0xF3) ||| seg), UInt8.ofNat p.rawType]

theorem hdr14_length (p : Packet) (seg : Nat) : (hdr14 p seg).length = 14 := by
  simp [hdr14, hdrPre_length]

theorem msgHeader_14 (p : Packet) (seg len : Nat) : msgHeader p seg len = hdr14 p seg ++ beEnc 2 len :=
  msgHeader_eq' p seg len

/-- the packet `Packet::ofMsg` builds from a serialised message of `p`, segment flag `seg` -/
def obsRaw (p : Packet) (seg : Nat) : Packet :=
  { payload := p.payload, ts := p.ts,
    ifId := if p.mt = 1 then p.ifId else 0,
    vendorId := if p.mt = 3 ∨ p.mt = 0xFF then p.vendorId else 0,
    flags := (p.flags &&& 0xF3) ||| seg }

theorem rd_ts (p : Packet) (seg : Nat) (rest : Bytes) : beAt (hdr14 p seg ++ rest) 0 8 = p.ts % 2 ^ 64 := by
  unfold beAt
  have e : hdr14 p seg ++ rest = [] ++ beEnc 8 p.ts ++ (hdr14 p seg ++ rest).drop 8 := by
    simp [hdr14, hdrPre]
  rw [e, slice_mid _ _ _ 0 8 rfl (by simp), beDec_beEnc]

theorem rd_ifId (p : Packet) (seg : Nat) (rest : Bytes) (h : p.mt = 1) :
    beAt (hdr14 p seg ++ rest) 8 4 = p.ifId % 2 ^ 32 := by
  unfold beAt
  have e : hdr14 p seg ++ rest = beEnc 8 p.ts ++ beEnc 4 p.ifId ++
      ([UInt8.ofNat ((p.flags % 256 &&& 0xF3) ||| seg), UInt8.ofNat p.rawType] ++ rest) := by
    simp [hdr14, hdrPre, h]
  rw [e, slice_mid _ _ _ 8 4 (by simp) (by simp), beDec_beEnc]

theorem rd_vendor (p : Packet) (seg : Nat) (rest : Bytes) (h : p.mt = 3 ∨ p.mt = 0xFF) :
    beAt (hdr14 p seg ++ rest) 10 2 = p.vendorId % 2 ^ 16 := by
  unfold beAt
  have h1 : p.mt ≠ 1 := by omega
  have e : hdr14 p seg ++ rest =
      (beEnc 8 p.ts ++ [0, 0]) ++ beEnc 2 p.vendorId ++
        ([UInt8.ofNat ((p.flags % 256 &&& 0xF3) ||| seg), UInt8.ofNat p.rawType] ++ rest) := by
    simp [hdr14, hdrPre, h1, h]
  rw [e, slice_mid _ _ _ 10 2 (by simp) (by simp), beDec_beEnc]

theorem rd_flags (p : Packet) (seg : Nat) (rest : Bytes) :
    byteAt (hdr14 p seg ++ rest) 12 = ((p.flags % 256 &&& 0xF3) ||| seg) % 256 := by
  have e : hdr14 p seg ++ rest =
      hdrPre p ++ UInt8.ofNat ((p.flags % 256 &&& 0xF3) ||| seg) :: (UInt8.ofNat p.rawType :: rest) := by
    simp [hdr14]
  rw [e, byteAt_mid _ _ _ 12 (hdrPre_length p)]
  exact UInt8.toNat_ofNat'

theorem rd_raw (p : Packet) (seg : Nat) (rest : Bytes) :
    byteAt (hdr14 p seg ++ rest) 13 = p.rawType % 256 := by
  have e : hdr14 p seg ++ rest =
      (hdrPre p ++ [UInt8.ofNat ((p.flags % 256 &&& 0xF3) ||| seg)]) ++ UInt8.ofNat p.rawType :: rest := by
    simp [hdr14]
  rw [e, byteAt_mid _ _ _ 13 (by simp [hdrPre_length])]
  exact UInt8.toNat_ofNat'

theorem rd_len (p : Packet) (seg n : Nat) (rest : Bytes) :
    beAt (hdr14 p seg ++ beEnc 2 n ++ rest) 14 2 = n % 65536 := by
  unfold beAt
  rw [slice_mid _ _ _ 14 2 (hdr14_length p seg) (by simp), beDec_beEnc]

theorem rd_body (p : Packet) (seg n : Nat) (body rest : Bytes) :
    slice (hdr14 p seg ++ beEnc 2 n ++ (body ++ rest)) 16 body.length = body := by
  rw [← List.append_assoc]
  exact slice_mid _ _ _ 16 _ (by simp [hdr14_length]) rfl

/-- header fields of a well-formed packet, with the accumulated length `n = |data|` -/
theorem ofMsg_obs {p : Packet} (h : p.WF) {seg : Nat} (hs : seg = 0 ∨ seg = 4 ∨ seg = 8 ∨ seg = 12)
    (rest : Bytes) :
    Packet.ofMsg p.mt (hdr14 p seg ++ beEnc 2 p.data.length ++ (p.data ++ rest)) = obsRaw p seg := by
  obtain ⟨hd1, hd2⟩ := wf_data h
  obtain ⟨pl, hp, _, _, _, _, _, _, _, hfl, _, hts, hif, hvd, _⟩ := wf_unpack h
  obtain ⟨s, hs4, rfl⟩ := seg_cases hs
  have hlen : p.data.length % 65536 = p.data.length := Nat.mod_eq_of_lt (by omega)
  unfold Packet.ofMsg obsRaw
  rw [rd_len, hlen, rd_body, List.append_assoc (hdr14 _ _), rd_ts, rd_flags, rd_raw, wf_create h,
    Nat.mod_eq_of_lt hts, Nat.mod_eq_of_lt hfl, flags_lt _ hfl s hs4]
  congr 1
  · split
    · rename_i h1; rw [rd_ifId _ _ _ h1, Nat.mod_eq_of_lt hif]
    · rfl
  · split
    · rename_i h1; rw [rd_vendor _ _ _ h1, Nat.mod_eq_of_lt hvd]
    · rfl

/-- a serialised message of a well-formed packet passes `Packet::isValidPacket` -/
theorem msgValid_bytes (m : EMsg) (rest : Bytes) (h : m.pkt.WF) (hlen : m.body.length < 65536)
    (hs : m.seg = 0 ∨ m.seg = 4 ∨ m.seg = 8 ∨ m.seg = 12) :
    msgValid (m.bytes ++ rest) = true := by
  obtain ⟨pl, hp, _, _, _, hraw, _, _, _, hfl, herr, _⟩ := wf_unpack h
  obtain ⟨h1, _, _, _, h5⟩ := msg_fields m rest hlen hs
  obtain ⟨s, hs4, hseg⟩ := seg_cases hs
  have e : m.bytes ++ rest = hdr14 m.pkt m.seg ++ (beEnc 2 m.body.length ++ (m.body ++ rest)) := by
    simp [EMsg.bytes, msgHeader_14]
  have hf : byteAt (m.bytes ++ rest) 12 &&& 0x40 = 0 := by
    rw [e, rd_flags, Nat.mod_eq_of_lt hfl, hseg, flags_lt _ hfl s hs4]
    exact flags_err _ hfl s hs4 herr
  have hr : byteAt (m.bytes ++ rest) 13 ≠ 0 := by
    rw [e, rd_raw]
    simp only [Packet.rawType, hp, Payload.raw] at hraw ⊢
    omega
  simp only [msgValid, h1, h5, hf, Bool.and_eq_true, decide_eq_true_eq, beq_iff_eq, bne_iff_ne, ne_eq]
  exact ⟨⟨⟨by omega, by omega⟩, trivial⟩, hr⟩

/-! ### the message walk -/

theorem byteAt_zeros (k i : Nat) : byteAt (zeros k) i = 0 := by
  unfold byteAt zeros
  rw [List.getD_eq_getElem?_getD]
  by_cases h : i < k
  · simp [h]
  · simp [h]

theorem walk_zeros (ep : Ep) (ver mt k : Nat) :
    walk ep ver mt (zeros k) = ([], if k = 0 then .done else .invalid) := by
  rw [walk]
  by_cases hk : k = 0
  · simp [hk, zeros]
  · have hv : msgValid (zeros k) = false := by
      simp [msgValid, byteAt_zeros]
    simp [hk, hv]

/-- unsegmented message in front: it is delivered and the walk goes on behind it -/
theorem walk_unseg_cons (ep : Ep) (ver : Nat) (m : EMsg) (rest : Bytes) (h : m.pkt.WF)
    (hseg : m.seg = 0) (hbody : m.body = m.pkt.data) :
    walk ep ver m.pkt.mt (m.bytes ++ rest) =
      (tagPacket ep ver (obsRaw m.pkt 0) :: (walk ep ver m.pkt.mt rest).1, (walk ep ver m.pkt.mt rest).2) := by
  obtain ⟨_, hd2⟩ := wf_data h
  have hlen : m.body.length < 65536 := by rw [hbody]; omega
  have hs : m.seg = 0 ∨ m.seg = 4 ∨ m.seg = 8 ∨ m.seg = 12 := Or.inl hseg
  obtain ⟨h1, h2, _, h4, h5⟩ := msg_fields m rest hlen hs
  have hv := msgValid_bytes m rest h hlen hs
  have e : m.bytes ++ rest = hdr14 m.pkt 0 ++ beEnc 2 m.pkt.data.length ++ (m.pkt.data ++ rest) := by
    simp [EMsg.bytes, msgHeader_14, hseg, hbody]
  have ho : Packet.ofMsg m.pkt.mt (m.bytes ++ rest) = obsRaw m.pkt 0 := by
    rw [e]; exact ofMsg_obs h (Or.inl rfl) rest
  rw [walk]
  have h0 : ¬ (m.bytes ++ rest).length = 0 := by omega
  simp only [h0, dite_false, hv, Bool.not_true, Bool.false_eq_true, if_false, h1, h2, hseg, h4, ho,
    bne_self_eq_false]

/-- segment message in front: the walk stops and hands the message out -/
theorem walk_seg (ep : Ep) (ver mt : Nat) (m : EMsg) (rest : Bytes) (h : m.pkt.WF)
    (hlen : m.body.length < 65536) (hseg : m.seg = 4 ∨ m.seg = 8 ∨ m.seg = 12) :
    walk ep ver mt (m.bytes ++ rest) = ([], .seg m.bytes) := by
  have hs : m.seg = 0 ∨ m.seg = 4 ∨ m.seg = 8 ∨ m.seg = 12 := Or.inr hseg
  obtain ⟨h1, h2, _, _, h5⟩ := msg_fields m rest hlen hs
  have hv := msgValid_bytes m rest h hlen hs
  have ht : (m.bytes ++ rest).take (16 + m.body.length) = m.bytes :=
    List.take_left' (by simp [EMsg.bytes])
  have hne : (m.seg != 0) = true := by
    rcases hseg with h | h | h <;> simp [h]
  rw [walk]
  have h0 : ¬ (m.bytes ++ rest).length = 0 := by omega
  simp only [h0, dite_false, hv, Bool.not_true, Bool.false_eq_true, if_false, h1, h2, hne, if_true, ht]

/-- a run of unsegmented messages followed by `k` zero bytes -/
theorem walk_unsegs (ep : Ep) (ver mt k : Nat) (msgs : List EMsg)
    (h : ∀ m ∈ msgs, m.pkt.WF ∧ m.pkt.mt = mt ∧ m.seg = 0 ∧ m.body = m.pkt.data) :
    walk ep ver mt (msgs.flatMap EMsg.bytes ++ zeros k) =
      (msgs.map (fun m => tagPacket ep ver (obsRaw m.pkt 0)), if k = 0 then .done else .invalid) := by
  induction msgs with
  | nil => simpa using walk_zeros ep ver mt k
  | cons m ms ih =>
    obtain ⟨hwf, hmt, hseg, hbody⟩ := h m (by simp)
    have ih' := ih (fun x hx => h x (by simp [hx]))
    simp only [List.flatMap_cons, List.append_assoc, List.map_cons]
    rw [← hmt, walk_unseg_cons ep ver m _ hwf hseg hbody, hmt, ih']

/-! ### the frame header -/

theorem parse_fields (ver dev mt stream seq : Nat) (rest : Bytes) :
    let b := frameHeader ver dev mt stream seq ++ rest
    byteAt b 0 = ver % 256 ∧ beAt b 2 2 = dev % 65536 ∧ byteAt b 4 = mt % 256 ∧
    byteAt b 5 = stream % 256 ∧ beAt b 6 2 = seq % 65536 ∧ b.drop 8 = rest := by
  refine ⟨?_, ?_, frameHeader_mt .., ?_, ?_, List.drop_left' (frameHeader_length ..)⟩
  · have e : frameHeader ver dev mt stream seq ++ rest = [] ++ UInt8.ofNat ver ::
        ([0] ++ beEnc 2 dev ++ [UInt8.ofNat mt, UInt8.ofNat stream] ++ beEnc 2 seq ++ rest) := by
      simp [frameHeader]
    rw [e, byteAt_mid _ _ _ 0 rfl]; exact UInt8.toNat_ofNat'
  · have e : frameHeader ver dev mt stream seq ++ rest = [UInt8.ofNat ver, 0] ++ beEnc 2 dev ++
        ([UInt8.ofNat mt, UInt8.ofNat stream] ++ beEnc 2 seq ++ rest) := by
      simp [frameHeader]
    unfold beAt
    rw [e, slice_mid _ _ _ 2 2 rfl (by simp), beDec_beEnc]
  · have e : frameHeader ver dev mt stream seq ++ rest = ([UInt8.ofNat ver, 0] ++ beEnc 2 dev ++
        [UInt8.ofNat mt]) ++ UInt8.ofNat stream :: (beEnc 2 seq ++ rest) := by
      simp [frameHeader]
    rw [e, byteAt_mid _ _ _ 5 (by simp)]; exact UInt8.toNat_ofNat'
  · have e : frameHeader ver dev mt stream seq ++ rest = ([UInt8.ofNat ver, 0] ++ beEnc 2 dev ++
        [UInt8.ofNat mt, UInt8.ofNat stream]) ++ beEnc 2 seq ++ rest := by
      simp [frameHeader]
    unfold beAt
    rw [e, slice_mid _ _ _ 6 2 (by simp) (by simp), beDec_beEnc]

/-- what the decoder needs of a frame's header -/
structure HdrOk (dev stream v : Nat) (f : EFrame) : Prop where
  dev : f.dev = dev
  stream : f.stream = stream
  ver : f.ver = v
  seq : f.seq < 65536
  mt : f.mt < 256

theorem parse_frame (min : Nat) {dev stream v : Nat} (f : EFrame) (hf : HdrOk dev stream v f)
    (hdev : dev < 65536) (hstream : stream < 256) (hv : v < 256) :
    parseFrame (EFrame.bytes min f) =
      { ep := (dev, stream), ver := v, mt := f.mt, seq := f.seq,
        unseg := (walk (dev, stream) v f.mt
          (f.msgs.flatMap EMsg.bytes ++ zeros (min - (8 + f.used)))).1,
        term := (walk (dev, stream) v f.mt
          (f.msgs.flatMap EMsg.bytes ++ zeros (min - (8 + f.used)))).2 } := by
  have hraw : (frameHeader f.ver f.dev f.mt f.stream f.seq ++ f.msgs.flatMap EMsg.bytes).length = 8 + f.used := by
    rw [List.length_append, frameHeader_length, flatMap_bytes_length]; rfl
  have e : EFrame.bytes min f = frameHeader f.ver f.dev f.mt f.stream f.seq ++
      (f.msgs.flatMap EMsg.bytes ++ zeros (min - (8 + f.used))) := by
    simp only [EFrame.bytes]
    rw [hraw, List.append_assoc]
  rw [hf.dev, hf.stream, hf.ver] at e
  obtain ⟨h0, h2, h4, h5, h6, h8⟩ := parse_fields v dev f.mt stream f.seq
    (f.msgs.flatMap EMsg.bytes ++ zeros (min - (8 + f.used)))
  unfold parseFrame
  simp only [e, h0, h2, h4, h5, h6, h8, Nat.mod_eq_of_lt hdev,
    Nat.mod_eq_of_lt hstream, Nat.mod_eq_of_lt hv, Nat.mod_eq_of_lt hf.seq, Nat.mod_eq_of_lt hf.mt]

/-- a frame of unsegmented messages, parsed -/
theorem parse_unseg (min : Nat) {dev stream v : Nat} (f : EFrame) (hf : HdrOk dev stream v f)
    (hdev : dev < 65536) (hstream : stream < 256) (hv : v < 256)
    (h : ∀ m ∈ f.msgs, m.pkt.WF ∧ m.pkt.mt = f.mt ∧ m.seg = 0 ∧ m.body = m.pkt.data) :
    ∃ t, (t = .done ∨ t = .invalid) ∧ parseFrame (EFrame.bytes min f) =
      { ep := (dev, stream), ver := v, mt := f.mt, seq := f.seq,
        unseg := f.msgs.map (fun m => tagPacket (dev, stream) v (obsRaw m.pkt 0)), term := t } := by
  rw [parse_frame min f hf hdev hstream hv, walk_unsegs _ _ _ _ _ h]
  refine ⟨_, ?_, rfl⟩
  split
  · exact Or.inl rfl
  · exact Or.inr rfl

/-- a frame holding one segment, parsed -/
theorem parse_seg (min : Nat) {dev stream v : Nat} (f : EFrame) (hf : HdrOk dev stream v f)
    (hdev : dev < 65536) (hstream : stream < 256) (hv : v < 256) (m : EMsg) (hm : f.msgs = [m])
    (hwf : m.pkt.WF) (hlen : m.body.length < 65536) (hseg : m.seg = 4 ∨ m.seg = 8 ∨ m.seg = 12) :
    parseFrame (EFrame.bytes min f) =
      { ep := (dev, stream), ver := v, mt := f.mt, seq := f.seq, unseg := [], term := .seg m.bytes } := by
  rw [parse_frame min f hf hdev hstream hv, hm]
  simp only [List.flatMap_cons, List.flatMap_nil, List.append_nil]
  rw [walk_seg _ _ _ m _ hwf hlen hseg]
end AsamCmp.C01
