/-
  Soundness of the symbolic evaluation of bit programs (Src/BitProg.lean) and of the decidable layout checks built on it.
-/
import AsamCmp.Src.BitProg
import AsamCmp.Lemmas.BitProgRun
import AsamCmp.Lemmas.BitProgField
namespace AsamCmp.Src.Bit
open AsamCmp AsamCmp.Src

theorem argsOk_nil : ArgsOk (fun _ => (0, 0)) [] := by
  intro k
  simp

theorem fits_elim {f : Field} {size : Nat} (h : f.fits size = true) :
    f.shift + f.bits ≤ 8 * f.w ∧ f.off + f.w ≤ size := by
  unfold Field.fits at h
  simp only [Bool.and_eq_true, decide_eq_true_eq] at h
  exact ⟨h.1.1, h.1.2⟩

/-- the symbolic run describes the concrete run for EVERY memory content, object position and argument values:
    the concrete run is defined (no undefined behaviour, no access outside the object's `size` bytes), the values are the
    interpretations of the symbolic words and the memory is the old one with the object replaced by the symbolic memory -/
theorem symRun_sound (argBits : Nat → Nat × Nat) (size : Nat) (prog : List Op) (ss : SSt)
    (h : symRun argBits (SSt.init size) prog = some ss)
    (M : Bytes) (this : Nat) (args : List Nat) (hM : this + size ≤ M.length) (ha : ArgsOk argBits args) :
    ∃ st, run this args ⟨M, []⟩ prog = some st ∧
      st.m = writeAt M this (memEval (slice M this size) args ss.m) ∧
      st.vals = ss.vals.map (SWord.eval (slice M this size) args) := by
  obtain ⟨st, e, r⟩ := run_sound argBits hM ha prog h (Rel.init size M this args hM)
  exact ⟨st, e, r.mem, r.vals⟩

theorem chkGet_sound (prog : List Op) (size res : Nat) (f : Field) (sh : Nat) (h : chkGet prog size res f sh = true)
    (M : Bytes) (this : Nat) (hM : this + size ≤ M.length) :
    ∃ st, run this [] ⟨M, []⟩ prog = some st ∧ st.m = M ∧
      st.val res = getField f (slice M this size) * 2 ^ sh := by
  unfold chkGet at h
  split at h
  · next s hs =>
    simp only [Bool.and_eq_true, beq_iff_eq] at h
    obtain ⟨⟨hm, hsame⟩, hfit⟩ := h
    obtain ⟨st, e, r⟩ := run_sound _ hM argsOk_nil prog hs (Rel.init size M this [] hM)
    obtain ⟨hs1, hs2⟩ := fits_elim hfit
    refine ⟨st, e, ?_, ?_⟩
    · rw [r.mem, hm, memEval_initMem _ _ size (C11.slice_length hM), C11.writeAt_slice_self hM]
    · rw [r.val, same_eval _ _ hsame, eval_shl, eval_fieldBits _ _ f hs1 (by rw [C11.slice_length hM]; exact hs2),
        Nat.shiftLeft_eq]
  · cases h

theorem chkGetNe0_sound (prog : List Op) (size res : Nat) (f : Field) (h : chkGetNe0 prog size res f = true)
    (M : Bytes) (this : Nat) (hM : this + size ≤ M.length) :
    ∃ st, run this [] ⟨M, []⟩ prog = some st ∧ st.m = M ∧
      (st.val res ≠ 0 ↔ getField f (slice M this size) ≠ 0) := by
  unfold chkGetNe0 at h
  split at h
  · next s hs =>
    simp only [Bool.and_eq_true, beq_iff_eq] at h
    obtain ⟨⟨hm, hbits⟩, hfit⟩ := h
    obtain ⟨st, e, r⟩ := run_sound _ hM argsOk_nil prog hs (Rel.init size M this [] hM)
    obtain ⟨hs1, hs2⟩ := fits_elim hfit
    refine ⟨st, e, ?_, ?_⟩
    · rw [r.mem, hm, memEval_initMem _ _ size (C11.slice_length hM), C11.writeAt_slice_self hM]
    · rw [r.val, ← eval_filter_ne_zero_iff, hbits,
        eval_fieldBits _ _ f hs1 (by rw [C11.slice_length hM]; exact hs2)]
  · cases h

theorem chkSet_sound (prog : List Op) (size : Nat) (f : Field) (k sh : Nat) (h : chkSet prog size f k sh = true)
    (M : Bytes) (this : Nat) (hM : this + size ≤ M.length) (args : List Nat) (v : Nat) (hv : v < 2 ^ f.bits)
    (hk : args.getD k 0 = v * 2 ^ sh) (hother : ∀ k', k' ≠ k → args.getD k' 0 = 0) :
    ∃ st, run this args ⟨M, []⟩ prog = some st ∧
      st.m = writeAt M this (setField f v (slice M this size)) := by
  unfold chkSet at h
  split at h
  · next s hs =>
    simp only [Bool.and_eq_true, beq_iff_eq] at h
    obtain ⟨hm, hfit⟩ := h
    have ha : ArgsOk (fun k' => if k' = k then (sh, sh + f.bits) else (0, 0)) args := by
      intro k'
      by_cases hk' : k' = k
      · subst hk'
        simp only [if_true]
        rw [hk, Nat.pow_add, Nat.mul_comm (2 ^ sh)]
        exact ⟨Nat.mul_lt_mul_of_pos_right hv (Nat.two_pow_pos sh), Nat.mul_mod_left _ _⟩
      · simp only [hk', if_false]
        rw [hother k' hk']
        simp
    obtain ⟨st, e, r⟩ := run_sound _ hM ha prog hs (Rel.init size M this args hM)
    refine ⟨st, e, ?_⟩
    have hval : SWord.eval (slice M this size) args ((List.range f.bits).map fun j => SBit.arg k (sh + j)) = v := by
      symm
      apply eq_eval
      intro j
      rw [bit_map_range]
      by_cases hj : j < f.bits
      · rw [if_pos hj]
        simp only [SBit.eval]
        rw [hk, Nat.testBit_mul_two_pow]
        simp
      · rw [if_neg hj]
        exact Nat.testBit_lt_two_pow (Nat.lt_of_lt_of_le hv (Nat.pow_le_pow_right (by decide) (by omega)))
    rw [r.mem, hm, memEval_expectMem _ _ size f _ hfit (C11.slice_length hM) (by rw [hval]; exact hv), hval]
  · cases h

theorem chkSetConst_sound (prog : List Op) (size : Nat) (f : Field) (c : Nat) (h : chkSetConst prog size f c = true)
    (hc : c < 2 ^ f.bits) (M : Bytes) (this : Nat) (hM : this + size ≤ M.length) :
    ∃ st, run this [] ⟨M, []⟩ prog = some st ∧
      st.m = writeAt M this (setField f c (slice M this size)) := by
  unfold chkSetConst at h
  split at h
  · next s hs =>
    simp only [Bool.and_eq_true, beq_iff_eq] at h
    obtain ⟨hm, hfit⟩ := h
    obtain ⟨st, e, r⟩ := run_sound _ hM argsOk_nil prog hs (Rel.init size M this [] hM)
    refine ⟨st, e, ?_⟩
    have hval : SWord.eval (slice M this size) [] (constBits f.bits c) = c := by
      rw [eval_constBits, Nat.mod_eq_of_lt hc]
    rw [r.mem, hm, memEval_expectMem _ _ size f _ hfit (C11.slice_length hM) (by rw [hval]; exact hc), hval]
  · cases h

end AsamCmp.Src.Bit
