/-
  Helper definitions and lemmas for `AsamCmp/Props/C16S.lean` §2 (history form of property C16).

  * the classifiers of one operation with respect to a device / an interface (`resetsB`, `cmOf`, `ifOf`, `rmIfB`);
  * the closed form of the map specification over the history MOST RECENT FIRST (`cmHist`, `ifHist`, `closed`) and the proof that
    `C16.specRun` from the empty map computes it (`specRun_closed`);
  * the declarative predicates `NoReset`, `NoCm`, `NoIf` on a stretch of the history and the characterisation of
    `cmHist` / `ifHist` by list decompositions (`cmHist_some_iff`, `cmHist_isSome_iff`, `ifHist_some_iff`);
  * reversal lemmas (history most recent first ↔ operations in the order of time).
-/
import AsamCmp.Lemmas.Status
set_option linter.unusedSimpArgs false
set_option linter.unusedVariables false
namespace AsamCmp.C16S
open AsamCmp AsamCmp.C16

/-- `op` ends the life of device `dev`'s entry ("removed or cleared") -/
def resetsB (dev : Nat) : StOp → Bool
  | .update _ => false
  | .rmDev id => id == dev
  | .rmIf _ _ => false
  | .clear => true

/-- `op` is a capture-module status message of device `dev`: that message -/
def cmOf (dev : Nat) : StOp → Option Packet
  | .update p => if p.pty = tyCm ∧ p.deviceId = dev then some p else none
  | .rmDev _ => none
  | .rmIf _ _ => none
  | .clear => none

/-- `op` is an interface status message of device `dev` for interface `id`: that message -/
def ifOf (dev id : Nat) : StOp → Option Packet
  | .update p => if p.pty = tyIf ∧ p.deviceId = dev ∧ p.payloadIfId = id then some p else none
  | .rmDev _ => none
  | .rmIf _ _ => none
  | .clear => none

/-- `op` is `removeInterfaceById(id)` on device `dev` -/
def rmIfB (dev id : Nat) : StOp → Bool
  | .update _ => false
  | .rmDev _ => false
  | .rmIf d i => d == dev && i == id
  | .clear => false

/-- the latest capture-module message of `dev` since its last removal / clear; history MOST RECENT FIRST -/
def cmHist (dev : Nat) : List StOp → Option Packet
  | [] => none
  | op :: older =>
    match resetsB dev op, cmOf dev op with
    | true, _ => none
    | false, some p => some p
    | false, none => cmHist dev older

/-- the latest interface message of (`dev`, `id`) since the last removal / clear of `dev`, since the last removal of the interface,
    and received while the device was known; history most recent first -/
def ifHist (dev id : Nat) : List StOp → Option Packet
  | [] => none
  | op :: older =>
    match resetsB dev op || rmIfB dev id op, ifOf dev id op with
    | true, _ => none
    | false, some p => if (cmHist dev older).isSome then some p else none
    | false, none => ifHist dev id older

def closed (dev : Nat) (r : List StOp) : Option (Packet × IfMap) :=
  (cmHist dev r).map fun cm => (cm, fun id => ifHist dev id r)

theorem ifHist_none_of_cmHist_none (dev id : Nat) (r : List StOp) (h : cmHist dev r = none) : ifHist dev id r = none := by
  induction r with
  | nil => rfl
  | cons op older ih =>
    simp only [cmHist] at h
    simp only [ifHist]
    cases hr : resetsB dev op <;> cases hc : cmOf dev op <;> cases hm : rmIfB dev id op <;> cases hi : ifOf dev id op <;>
      simp_all

theorem specRun_eq_foldr (a : Abs) (ops : List StOp) :
    specRun a ops = ops.reverse.foldr (fun op a => specStep a op) a := by
  unfold specRun
  rw [List.foldl_eq_foldr_reverse]

theorem cmHist_reset (dev : Nat) (op : StOp) (older : List StOp) (h : resetsB dev op = true) :
    cmHist dev (op :: older) = none := by simp only [cmHist, h]
theorem cmHist_cm (dev : Nat) (op : StOp) (older : List StOp) (p : Packet) (h : resetsB dev op = false)
    (hc : cmOf dev op = some p) : cmHist dev (op :: older) = some p := by simp only [cmHist, h, hc]
theorem cmHist_skip (dev : Nat) (op : StOp) (older : List StOp) (h : resetsB dev op = false)
    (hc : cmOf dev op = none) : cmHist dev (op :: older) = cmHist dev older := by simp only [cmHist, h, hc]

theorem ifHist_reset (dev id : Nat) (op : StOp) (older : List StOp) (h : (resetsB dev op || rmIfB dev id op) = true) :
    ifHist dev id (op :: older) = none := by simp only [ifHist, h]
theorem ifHist_if (dev id : Nat) (op : StOp) (older : List StOp) (p : Packet) (h : resetsB dev op = false)
    (hm : rmIfB dev id op = false) (hi : ifOf dev id op = some p) :
    ifHist dev id (op :: older) = if (cmHist dev older).isSome then some p else none := by
  simp only [ifHist, h, hm, hi, Bool.or_self]
theorem ifHist_skip (dev id : Nat) (op : StOp) (older : List StOp) (h : resetsB dev op = false)
    (hm : rmIfB dev id op = false) (hi : ifOf dev id op = none) : ifHist dev id (op :: older) = ifHist dev id older := by
  simp only [ifHist, h, hm, hi, Bool.or_self]

/-- an operation that does not concern `dev` at all -/
theorem closed_skip (dev : Nat) (op : StOp) (older : List StOp) (h : resetsB dev op = false) (hc : cmOf dev op = none)
    (hi : ∀ id, rmIfB dev id op = false ∧ ifOf dev id op = none) : closed dev (op :: older) = closed dev older := by
  unfold closed
  rw [cmHist_skip dev op older h hc]
  congr 1
  funext cm
  congr 1
  funext id
  exact ifHist_skip dev id op older h (hi id).1 (hi id).2

theorem closed_step (a : Abs) (older : List StOp) (ih : ∀ dev, a dev = closed dev older) (op : StOp) (dev : Nat) :
    specStep a op dev = closed dev (op :: older) := by
  cases op with
  | clear => simp [specStep, closed, cmHist, resetsB]
  | rmDev id =>
    by_cases hd : dev = id
    · subst hd
      simp [specStep, setMap, closed, cmHist, resetsB]
    · have hb : (id == dev) = false := by simp; exact fun h => hd h.symm
      rw [closed_skip dev _ older (by simp [resetsB, hb]) rfl (fun _ => ⟨rfl, rfl⟩), ← ih]
      simp [specStep, setMap, hd]
  | rmIf d i =>
    by_cases hd : dev = d
    · subst hd
      have ha := ih dev
      unfold closed at ha ⊢
      rw [cmHist_skip dev _ older rfl rfl]
      simp only [specStep]
      cases hc : cmHist dev older with
      | none =>
        rw [hc] at ha
        simp only [Option.map_none] at ha ⊢
        rw [ha]; exact ha
      | some cm =>
        rw [hc] at ha
        simp only [Option.map_some] at ha ⊢
        rw [ha]
        simp only [setMap, if_true]
        congr 2
        funext id
        simp only [setMap]
        by_cases hid : id = i
        · subst hid
          rw [if_pos rfl, ifHist_reset]
          simp [rmIfB, resetsB]
        · rw [if_neg hid, ifHist_skip _ _ _ _ rfl _ rfl]
          simp [rmIfB]; exact fun h => hid h.symm
    · have hb : (d == dev) = false := by simp; exact fun h => hd h.symm
      rw [closed_skip dev _ older rfl rfl (fun _ => ⟨by simp [rmIfB, hb], rfl⟩), ← ih]
      simp only [specStep]
      cases h : a d with
      | none => rfl
      | some v => simp [setMap, hd]
  | update p =>
    by_cases hd : dev = p.deviceId
    · subst hd
      have ha := ih p.deviceId
      unfold closed at ha ⊢
      simp only [specStep]
      by_cases h2 : p.pty = tyIf
      · -- interface message: the cm packet is kept, interface `payloadIfId` is set if the device is known
        have h1 : ¬ p.pty = tyCm := fun h => tyIf_ne_tyCm (h2.symm.trans h)
        rw [cmHist_skip _ _ older rfl (by simp [cmOf, h1])]
        cases hc : cmHist p.deviceId older with
        | none =>
          rw [hc] at ha
          simp only [Option.map_none] at ha ⊢
          rw [ha]; simp only [if_neg h1]; exact ha
        | some cm =>
          rw [hc] at ha
          simp only [Option.map_some] at ha ⊢
          rw [ha]
          simp only [if_pos h2, setMap, if_true]
          congr 2
          funext id
          simp only [setMap]
          by_cases hid : id = p.payloadIfId
          · subst hid
            rw [if_pos rfl, ifHist_if _ _ _ _ p rfl rfl (by simp [ifOf, h2]), hc]
            rfl
          · rw [if_neg hid, ifHist_skip _ _ _ _ rfl rfl (by simp [ifOf]; exact fun _ h => hid h.symm)]
      · by_cases h1 : p.pty = tyCm
        · -- capture-module message: it becomes the stored packet, interfaces are kept (none if the device was unknown)
          rw [cmHist_cm _ _ older p rfl (by simp [cmOf, h1])]
          have hskip : ∀ id, ifHist p.deviceId id (.update p :: older) = ifHist p.deviceId id older :=
            fun id => ifHist_skip _ _ _ _ rfl rfl (by simp [ifOf, h2])
          simp only [Option.map_some, hskip]
          cases hc : cmHist p.deviceId older with
          | none =>
            rw [hc] at ha
            simp only [Option.map_none] at ha
            rw [ha]
            simp only [if_pos h1, setMap, if_true]
            congr 2
            funext id
            exact (ifHist_none_of_cmHist_none _ _ _ hc).symm
          | some cm =>
            rw [hc] at ha
            simp only [Option.map_some] at ha
            rw [ha]
            simp only [if_neg h2, if_pos h1, setMap, if_true]
        · -- any other message
          rw [cmHist_skip _ _ older rfl (by simp [cmOf, h1])]
          have hskip : ∀ id, ifHist p.deviceId id (.update p :: older) = ifHist p.deviceId id older :=
            fun id => ifHist_skip _ _ _ _ rfl rfl (by simp [ifOf, h2])
          simp only [hskip]
          rw [← ha]
          cases hv : a p.deviceId with
          | none => simp only [if_neg h1, hv]
          | some v => simp only [if_neg h1, if_neg h2, hv]
    · have hd' : ¬ p.deviceId = dev := fun h => hd h.symm
      rw [closed_skip dev _ older rfl (by simp [cmOf, hd']) (fun _ => ⟨rfl, by simp [ifOf, hd']⟩), ← ih]
      simp only [specStep]
      cases h : a p.deviceId with
      | none => simp only []; split <;> simp [setMap, hd]
      | some v =>
        simp only []
        by_cases h2 : p.pty = tyIf
        · simp [h2, setMap, hd]
        · by_cases h1 : p.pty = tyCm
          · simp only [if_neg h2, if_pos h1, setMap, if_neg hd]
          · simp only [if_neg h2, if_neg h1]

/-- CLOSED FORM of the specification: the map after `ops` from the empty map, at `dev`, is a function of the history alone -/
theorem specRun_closed (ops : List StOp) (dev : Nat) :
    specRun (fun _ => none) ops dev = closed dev ops.reverse := by
  rw [specRun_eq_foldr]
  generalize ops.reverse = r
  induction r generalizing dev with
  | nil => rfl
  | cons op older ih => exact closed_step _ older ih op dev

/-! ### the closed form, declaratively -/

/-- no `clear` and no `removeDeviceById(dev)` among `l`: "since it was last removed or cleared" -/
def NoReset (dev : Nat) (l : List StOp) : Prop := StOp.clear ∉ l ∧ StOp.rmDev dev ∉ l
/-- no capture-module status message of `dev` among `l` -/
def NoCm (dev : Nat) (l : List StOp) : Prop := ∀ q, StOp.update q ∈ l → ¬ (q.pty = tyCm ∧ q.deviceId = dev)
/-- no interface status message of `dev` for interface `id` among `l` -/
def NoIf (dev id : Nat) (l : List StOp) : Prop :=
  ∀ q, StOp.update q ∈ l → ¬ (q.pty = tyIf ∧ q.deviceId = dev ∧ q.payloadIfId = id)

theorem resetsB_false_iff (dev : Nat) (op : StOp) : resetsB dev op = false ↔ op ≠ .clear ∧ op ≠ .rmDev dev := by
  cases op <;> simp [resetsB]
theorem rmIfB_false_iff (dev id : Nat) (op : StOp) : rmIfB dev id op = false ↔ op ≠ .rmIf dev id := by
  cases op <;> simp [rmIfB]
theorem cmOf_some_iff (dev : Nat) (op : StOp) (p : Packet) :
    cmOf dev op = some p ↔ op = .update p ∧ p.pty = tyCm ∧ p.deviceId = dev := by
  cases op with
  | update q =>
    simp only [cmOf]
    constructor
    · intro h; split at h
      · cases h; exact ⟨rfl, ‹_›⟩
      · cases h
    · intro ⟨h, hc⟩; cases h; rw [if_pos hc]
  | rmDev _ => simp [cmOf]
  | rmIf _ _ => simp [cmOf]
  | clear => simp [cmOf]
theorem cmOf_none_iff (dev : Nat) (op : StOp) :
    cmOf dev op = none ↔ ∀ q, op = .update q → ¬ (q.pty = tyCm ∧ q.deviceId = dev) := by
  cases op with
  | update q =>
    simp only [cmOf]
    constructor
    · intro h q' hq; cases hq; intro hc; rw [if_pos hc] at h; cases h
    · intro h; rw [if_neg (h q rfl)]
  | rmDev _ => simp [cmOf]
  | rmIf _ _ => simp [cmOf]
  | clear => simp [cmOf]
theorem ifOf_some_iff (dev id : Nat) (op : StOp) (p : Packet) :
    ifOf dev id op = some p ↔ op = .update p ∧ p.pty = tyIf ∧ p.deviceId = dev ∧ p.payloadIfId = id := by
  cases op with
  | update q =>
    simp only [ifOf]
    constructor
    · intro h; split at h
      · cases h; exact ⟨rfl, ‹_›⟩
      · cases h
    · intro ⟨h, hc⟩; cases h; rw [if_pos hc]
  | rmDev _ => simp [ifOf]
  | rmIf _ _ => simp [ifOf]
  | clear => simp [ifOf]
theorem ifOf_none_iff (dev id : Nat) (op : StOp) :
    ifOf dev id op = none ↔ ∀ q, op = .update q → ¬ (q.pty = tyIf ∧ q.deviceId = dev ∧ q.payloadIfId = id) := by
  cases op with
  | update q =>
    simp only [ifOf]
    constructor
    · intro h q' hq; cases hq; intro hc; rw [if_pos hc] at h; cases h
    · intro h; rw [if_neg (h q rfl)]
  | rmDev _ => simp [ifOf]
  | rmIf _ _ => simp [ifOf]
  | clear => simp [ifOf]

theorem noReset_cons (dev : Nat) (op : StOp) (l : List StOp) :
    NoReset dev (op :: l) ↔ resetsB dev op = false ∧ NoReset dev l := by
  rw [resetsB_false_iff]
  simp only [NoReset, List.mem_cons, not_or, ne_eq]
  constructor
  · intro ⟨⟨h1, h2⟩, h3, h4⟩; exact ⟨⟨fun h => h1 h.symm, fun h => h3 h.symm⟩, h2, h4⟩
  · intro ⟨⟨h1, h3⟩, h2, h4⟩; exact ⟨⟨fun h => h1 h.symm, h2⟩, fun h => h3 h.symm, h4⟩
theorem noCm_cons (dev : Nat) (op : StOp) (l : List StOp) :
    NoCm dev (op :: l) ↔ cmOf dev op = none ∧ NoCm dev l := by
  rw [cmOf_none_iff]
  simp only [NoCm, List.mem_cons]
  constructor
  · intro h; exact ⟨fun q hq => h q (Or.inl hq.symm), fun q hq => h q (Or.inr hq)⟩
  · intro ⟨h1, h2⟩ q hq
    rcases hq with hq | hq
    · exact h1 q hq.symm
    · exact h2 q hq
theorem noIf_cons (dev id : Nat) (op : StOp) (l : List StOp) :
    NoIf dev id (op :: l) ↔ ifOf dev id op = none ∧ NoIf dev id l := by
  rw [ifOf_none_iff]
  simp only [NoIf, List.mem_cons]
  constructor
  · intro h; exact ⟨fun q hq => h q (Or.inl hq.symm), fun q hq => h q (Or.inr hq)⟩
  · intro ⟨h1, h2⟩ q hq
    rcases hq with hq | hq
    · exact h1 q hq.symm
    · exact h2 q hq
theorem noRmIf_cons (dev id : Nat) (op : StOp) (l : List StOp) :
    StOp.rmIf dev id ∉ op :: l ↔ rmIfB dev id op = false ∧ StOp.rmIf dev id ∉ l := by
  rw [rmIfB_false_iff]
  simp only [List.mem_cons, not_or, ne_eq]
  constructor
  · intro ⟨h1, h2⟩; exact ⟨fun h => h1 h.symm, h2⟩
  · intro ⟨h1, h2⟩; exact ⟨fun h => h1 h.symm, h2⟩

theorem cmHist_some_iff (dev : Nat) (p : Packet) (r : List StOp) :
    cmHist dev r = some p ↔ ∃ newer older, r = newer ++ .update p :: older ∧ (p.pty = tyCm ∧ p.deviceId = dev) ∧
      NoReset dev newer ∧ NoCm dev newer := by
  constructor
  · induction r with
    | nil => intro h; cases h
    | cons op rest ih =>
      intro h
      cases hr : resetsB dev op with
      | true => rw [cmHist_reset _ _ _ hr] at h; cases h
      | false =>
        cases hc : cmOf dev op with
        | some q =>
          rw [cmHist_cm _ _ _ q hr hc] at h
          cases h
          obtain ⟨ho, hcm⟩ := (cmOf_some_iff dev op _).1 hc
          exact ⟨[], rest, by rw [ho]; rfl, hcm, ⟨by simp, by simp⟩, fun q hq => by cases hq⟩
        | none =>
          rw [cmHist_skip _ _ _ hr hc] at h
          obtain ⟨newer, older, he, hcm, hnr, hnc⟩ := ih h
          exact ⟨op :: newer, older, by rw [he]; rfl, hcm, (noReset_cons ..).2 ⟨hr, hnr⟩, (noCm_cons ..).2 ⟨hc, hnc⟩⟩
  · rintro ⟨newer, older, he, hcm, hnr, hnc⟩
    subst he
    induction newer with
    | nil => exact cmHist_cm _ _ _ p rfl ((cmOf_some_iff ..).2 ⟨rfl, hcm⟩)
    | cons op n ih =>
      obtain ⟨hr, hnr'⟩ := (noReset_cons ..).1 hnr
      obtain ⟨hc, hnc'⟩ := (noCm_cons ..).1 hnc
      rw [List.cons_append, cmHist_skip _ _ _ hr hc]
      exact ih hnr' hnc'

theorem cmHist_isSome_iff (dev : Nat) (r : List StOp) :
    (cmHist dev r).isSome ↔ ∃ newer p older, r = newer ++ .update p :: older ∧ (p.pty = tyCm ∧ p.deviceId = dev) ∧
      NoReset dev newer := by
  constructor
  · intro h
    obtain ⟨p, hp⟩ := Option.isSome_iff_exists.1 h
    obtain ⟨newer, older, he, hcm, hnr, _⟩ := (cmHist_some_iff dev p r).1 hp
    exact ⟨newer, p, older, he, hcm, hnr⟩
  · rintro ⟨newer, p, older, he, hcm, hnr⟩
    subst he
    induction newer with
    | nil => rw [List.nil_append, cmHist_cm _ _ _ p rfl ((cmOf_some_iff ..).2 ⟨rfl, hcm⟩)]; rfl
    | cons op n ih =>
      obtain ⟨hr, hnr'⟩ := (noReset_cons ..).1 hnr
      rw [List.cons_append]
      cases hc : cmOf dev op with
      | some q => rw [cmHist_cm _ _ _ q hr hc]; rfl
      | none => rw [cmHist_skip _ _ _ hr hc]; exact ih hnr'

theorem ifHist_some_iff (dev id : Nat) (p : Packet) (r : List StOp) :
    ifHist dev id r = some p ↔ ∃ newer older, r = newer ++ .update p :: older ∧
      (p.pty = tyIf ∧ p.deviceId = dev ∧ p.payloadIfId = id) ∧ (cmHist dev older).isSome ∧
      NoReset dev newer ∧ StOp.rmIf dev id ∉ newer ∧ NoIf dev id newer := by
  constructor
  · induction r with
    | nil => intro h; cases h
    | cons op rest ih =>
      intro h
      cases hr : resetsB dev op with
      | true => rw [ifHist_reset _ _ _ _ (by rw [hr]; rfl)] at h; cases h
      | false =>
        cases hm : rmIfB dev id op with
        | true => rw [ifHist_reset _ _ _ _ (by rw [hm, Bool.or_true])] at h; cases h
        | false =>
          cases hi : ifOf dev id op with
          | some q =>
            rw [ifHist_if _ _ _ _ q hr hm hi] at h
            split at h
            · next hs =>
              cases h
              obtain ⟨ho, hif⟩ := (ifOf_some_iff dev id op _).1 hi
              exact ⟨[], rest, by rw [ho]; rfl, hif, hs, ⟨by simp, by simp⟩, by simp, fun q hq => by cases hq⟩
            · cases h
          | none =>
            rw [ifHist_skip _ _ _ _ hr hm hi] at h
            obtain ⟨newer, older, he, hif, hs, hnr, hnm, hni⟩ := ih h
            exact ⟨op :: newer, older, by rw [he]; rfl, hif, hs, (noReset_cons ..).2 ⟨hr, hnr⟩,
              (noRmIf_cons ..).2 ⟨hm, hnm⟩, (noIf_cons ..).2 ⟨hi, hni⟩⟩
  · rintro ⟨newer, older, he, hif, hs, hnr, hnm, hni⟩
    subst he
    induction newer with
    | nil =>
      rw [List.nil_append, ifHist_if _ _ _ _ p rfl rfl ((ifOf_some_iff ..).2 ⟨rfl, hif⟩), if_pos hs]
    | cons op n ih =>
      obtain ⟨hr, hnr'⟩ := (noReset_cons ..).1 hnr
      obtain ⟨hm, hnm'⟩ := (noRmIf_cons ..).1 hnm
      obtain ⟨hi, hni'⟩ := (noIf_cons ..).1 hni
      rw [List.cons_append, ifHist_skip _ _ _ _ hr hm hi]
      exact ih hnr' hnm' hni'

/-! ### … and in the order of time (`ops` oldest first, as `statusRun` consumes them) -/

theorem rev_split (ops newer older : List StOp) (x : StOp) :
    ops.reverse = newer ++ x :: older ↔ ops = older.reverse ++ x :: newer.reverse := by
  rw [List.reverse_eq_iff]; simp

theorem noReset_reverse (dev : Nat) (l : List StOp) : NoReset dev l.reverse ↔ NoReset dev l := by
  simp [NoReset, List.mem_reverse]
theorem noCm_reverse (dev : Nat) (l : List StOp) : NoCm dev l.reverse ↔ NoCm dev l := by
  simp [NoCm, List.mem_reverse]
theorem noIf_reverse (dev id : Nat) (l : List StOp) : NoIf dev id l.reverse ↔ NoIf dev id l := by
  simp [NoIf, List.mem_reverse]

end AsamCmp.C16S
