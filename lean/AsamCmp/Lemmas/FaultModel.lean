/-
  Fault model of property C06 (see `AsamCmp/Props/C06.lean` for the statements).

  `S : SStream` is what one encoder stream sent on one endpoint: `N < 65536` frames with
  consecutive counters `s0 + i` (mod 2^16), each either a frame of unsegmented messages or one
  segment (ghost coordinates: message `uid`, segment `k` of `n`).  What arrives is ANY list whose
  elements are copies of sent frames (so drops, duplicates and every reordering are one
  quantifier); a copy of a segment frame may carry a different (version, message type).
  Side condition forced by the statement itself: if every segment of a message were corrupted to
  the same wrong pair no decoder could tell, so two arrived copies of *different* segments of one
  message that agree on their pair carry the original pair (`Side`).

  These definitions were moved here verbatim from `Props/C06.lean` so that the helper lemmas of
  `AsamCmp/Lemmas/Fault.lean` can use them.
-/
import AsamCmp.Decoder
namespace AsamCmp


/-- a sent segment frame with ghost coordinates: message `uid`, segment `k` of `n` -/
structure SF where
  ver : Nat
  mt : Nat
  uid : Nat
  k : Nat
  n : Nat
  /-- 16-byte message header of this segment -/
  hdr : Bytes
  /-- declared payload bytes of this segment -/
  body : Bytes

inductive Sent
  /-- a frame of unsegmented messages, as the packets they decode to, and how its walk ends
      (`done`, or `invalid` when the frame is zero-padded) -/
  | unsegF (pkts : List Packet) (t : Term)
  | segF (f : SF)

/-- segment flag of segment `k` of `n` -/
def segCode (k n : Nat) : Nat := if k = 0 then 4 else if k + 1 = n then 12 else 8

/-- the sent stream of one endpoint -/
structure SStream where
  ep : Ep
  N : Nat
  s0 : Nat
  at_ : Nat → Option Sent
  hN : N < 65536
  dom : ∀ i, (at_ i).isSome ↔ i < N
  /-- an unsegmented frame's walk does not end in a segment -/
  unsegT : ∀ i pkts t, at_ i = some (.unsegF pkts t) → ∀ m, t ≠ .seg m
  /-- a non-last segment is followed by the next segment of the same message -/
  next : ∀ i f, at_ i = some (.segF f) → f.k + 1 < f.n →
    ∃ g, at_ (i+1) = some (.segF g) ∧ g.uid = f.uid ∧ g.k = f.k + 1 ∧ g.n = f.n ∧ g.ver = f.ver ∧ g.mt = f.mt
  kn : ∀ i f, at_ i = some (.segF f) → f.k < f.n ∧ 2 ≤ f.n
  hdrOk : ∀ i f, at_ i = some (.segF f) → f.hdr.length = 16 ∧ segTypeOf f.hdr = segCode f.k f.n

def SStream.seq (S : SStream) (i : Nat) : Nat := (S.s0 + i) % 65536

/-- concatenated bodies of segments `i0 .. i0+j` -/
def SStream.acc (S : SStream) (i0 : Nat) : Nat → Bytes
  | 0 => match S.at_ i0 with | some (.segF f) => f.body | _ => []
  | j+1 => S.acc i0 j ++ (match S.at_ (i0 + j + 1) with | some (.segF f) => f.body | _ => [])

/-- the packet the sender meant by the message whose first segment sits at index `i0` -/
def SStream.expected (S : SStream) (i0 : Nat) (f0 : SF) : Packet :=
  tagPacket S.ep f0.ver (Packet.ofMsg f0.mt (fixLen (f0.hdr ++ S.acc i0 (f0.n - 1))))

/-- `g` arrived as a copy of sent frame `i`; a segment copy may carry a corrupted (ver, mt) -/
inductive Copy (S : SStream) : PFrame → Nat → Prop
  | unseg (i : Nat) (pkts : List Packet) (t : Term) (ver mt : Nat) : S.at_ i = some (.unsegF pkts t) →
      Copy S ⟨S.ep, ver, mt, S.seq i, pkts, t⟩ i
  | seg (i : Nat) (f : SF) (ver mt : Nat) : S.at_ i = some (.segF f) →
      Copy S ⟨S.ep, ver, mt, S.seq i, [], .seg (f.hdr ++ f.body)⟩ i

/-- side condition: two arrived copies of different segments of one message that agree on
    (version, type) carry the original pair -/
def Side (S : SStream) (all : List PFrame) : Prop :=
  ∀ g ∈ all, ∀ g' ∈ all, ∀ i i' f f', Copy S g i → Copy S g' i' →
    S.at_ i = some (.segF f) → S.at_ i' = some (.segF f') → f.uid = f'.uid → i ≠ i' →
    g.ver = g'.ver → g.mt = g'.mt → g.ver = f.ver ∧ g.mt = f.mt

/-- a delivered packet is one that was sent: an unsegmented one, or a complete segmented message -/
def Good (S : SStream) (o : Packet) : Prop :=
  (∃ i pkts t, S.at_ i = some (.unsegF pkts t) ∧ o ∈ pkts) ∨
  (∃ i0 f0, S.at_ i0 = some (.segF f0) ∧ f0.k = 0 ∧ o = S.expected i0 f0)

/-- invariant: the pending entry, if any, is the accumulation of segments 0..j (j not last) of
    exactly one sent message, remembers the counter of segment j and the pair of the arrived
    first segment -/
def PInv (S : SStream) (all : List PFrame) (p : Option Pending) : Prop :=
  match p with
  | none => True
  | some p => ∃ i0 f0 j fj g0, g0 ∈ all ∧ Copy S g0 i0 ∧ p.ver = g0.ver ∧ p.mt = g0.mt ∧
      S.at_ i0 = some (.segF f0) ∧ f0.k = 0 ∧
      S.at_ (i0 + j) = some (.segF fj) ∧ fj.uid = f0.uid ∧ fj.k = j ∧ fj.n = f0.n ∧ j + 1 < f0.n ∧
      (∃ w : Bytes, w.length = 16 ∧ w.take 14 = f0.hdr.take 14 ∧ p.buf = w ++ S.acc i0 j) ∧
      p.seq = S.seq (i0 + j) ∧ p.last = segCode j f0.n

/-- the uncorrupted copies of the frames of the message whose first segment is at `i0`, in order -/
def SStream.cleanRun (S : SStream) (i0 : Nat) (f0 : SF) : List PFrame :=
  (List.range f0.n).filterMap fun j =>
    match S.at_ (i0 + j) with
    | some (.segF f) => some ⟨S.ep, f.ver, f.mt, S.seq (i0 + j), [], .seg (f.hdr ++ f.body)⟩
    | _ => none

end AsamCmp
