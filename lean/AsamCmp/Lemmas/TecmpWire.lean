/-
  Helper lemmas for C15 (TECMP wire layout → ASAM CMP packets).  Everything here is stated
  without the `THdr` / `BusEntry` structures of `Props/C15.lean` (which imports this file):
  headers are arbitrary 28-byte strings with known read-backs, bus entries are triples.
-/
import AsamCmp.Tecmp
import AsamCmp.Access
import AsamCmp.Fields
import AsamCmp.Lemmas.Access
import AsamCmp.Lemmas.Builders
import AsamCmp.Lemmas.FieldArith
import AsamCmp.Props.C13
namespace AsamCmp.C15
open AsamCmp

/-! ### generic byte lemmas -/

theorem byteAt_lt (b : Bytes) (i : Nat) : byteAt b i < 256 := by
  unfold byteAt
  exact UInt8.toNat_lt _

theorem beAt_append_left (a b : Bytes) (off w : Nat) (h : off + w ≤ a.length) :
    beAt (a ++ b) off w = beAt a off w :=
  C13.beAt_of_take (a ++ b) a a.length off w (by simp) h

theorem byteAt_append_left (a b : Bytes) (i : Nat) (h : i < a.length) :
    byteAt (a ++ b) i = byteAt a i :=
  C13.byteAt_of_take (a ++ b) a a.length i (by simp) h

theorem byteAt_drop (b : Bytes) (k i : Nat) : byteAt (b.drop k) i = byteAt b (k + i) := by
  simp [byteAt, List.getD_eq_getElem?_getD, List.getElem?_drop]

/-- a two-byte big-endian word is its two bytes -/
theorem beAt_two (b : Bytes) (off : Nat) (h : off + 2 ≤ b.length) :
    beAt b off 2 = byteAt b off * 256 + byteAt b (off + 1) := by
  have h0 : off < b.length := by omega
  have h1 : off + 1 < b.length := by omega
  have hs : slice b off 2 = [b[off], b[off + 1]] := by
    unfold slice
    rw [List.drop_eq_getElem_cons h0, List.drop_eq_getElem_cons h1]
    rfl
  simp only [beAt, hs, byteAt, List.getD_eq_getElem?_getD, List.getElem?_eq_getElem h0,
    List.getElem?_eq_getElem h1, Option.getD_some]
  simp [beDec]

theorem byteAt_writeAt_other {b : Bytes} {off : Nat} {x : Bytes} (h : off + x.length ≤ b.length)
    {i : Nat} (hd : i < off ∨ off + x.length ≤ i) : byteAt (writeAt b off x) i = byteAt b i := by
  rw [← C03.beAt_one, ← C03.beAt_one]
  exact C11.beAt_writeAt_other h (by omega)

theorem byteAt_writeAt_same {b : Bytes} {off : Nat} (x : UInt8) (h : off + 1 ≤ b.length) :
    byteAt (writeAt b off [x]) off = x.toNat := by
  unfold writeAt
  rw [List.append_assoc]
  exact C13.byteAt_at _ _ x off (by simp; omega)

theorem drop_writeAt {b : Bytes} {off : Nat} {x : Bytes} (h : off + x.length ≤ b.length) {k : Nat}
    (hk : off + x.length ≤ k) : (writeAt b off x).drop k = b.drop k := by
  apply List.ext_getElem?
  intro i
  rw [List.getElem?_drop, List.getElem?_drop]
  exact C11.getElem?_writeAt_out h (by omega)

theorem beAt_at_end (pre : Bytes) (off w n : Nat) (h : pre.length = off) :
    beAt (pre ++ beEnc w n) off w = n % 256 ^ w := by
  have := C13.beAt_at pre [] off w n h
  rwa [List.append_nil] at this

/-! ### the 28-byte header -/

/-- what the converter reads from a TECMP header -/
structure HdrFacts (H : Bytes) (dev mt dt ifId ts plen : Nat) : Prop where
  len : H.length = 28
  dev : byteAt H 1 = dev
  mt : byteAt H 5 = mt
  dt : beAt H 6 2 = dt
  ifId : beAt H 12 4 = ifId
  ts : beAt H 16 8 = ts
  plen : beAt H 24 2 = plen

/-- the wire layout of the header, field by field (this is `THdr.bytes`) -/
def hdrBytes (dev counter version mt dt reserved devFlags ifId ts plen dataFlags : Nat) : Bytes :=
  [0, UInt8.ofNat dev] ++ beEnc 2 counter ++ [UInt8.ofNat version, UInt8.ofNat mt] ++ beEnc 2 dt ++
  beEnc 2 reserved ++ beEnc 2 devFlags ++ beEnc 4 ifId ++ beEnc 8 ts ++ beEnc 2 plen ++ beEnc 2 dataFlags

theorem hdrBytes_length (dev counter version mt dt reserved devFlags ifId ts plen dataFlags : Nat) :
    (hdrBytes dev counter version mt dt reserved devFlags ifId ts plen dataFlags).length = 28 := by
  simp [hdrBytes]

theorem hdrBytes_facts (dev counter version mt dt reserved devFlags ifId ts plen dataFlags : Nat)
    (hdev : dev < 256) (hmt : mt < 256) (hdt : dt < 65536) (hif : ifId < 2 ^ 32) (hts : ts < 2 ^ 64)
    (hpl : plen < 65536) :
    HdrFacts (hdrBytes dev counter version mt dt reserved devFlags ifId ts plen dataFlags)
      dev mt dt ifId ts plen := by
  refine ⟨hdrBytes_length .., ?_, ?_, ?_, ?_, ?_, ?_⟩
  · unfold hdrBytes
    iterate 9 rw [byteAt_append_left _ _ _ (by simp)]
    simp [byteAt]; omega
  · unfold hdrBytes
    iterate 7 rw [byteAt_append_left _ _ _ (by simp)]
    rw [show [0, UInt8.ofNat dev] ++ beEnc 2 counter ++ [UInt8.ofNat version, UInt8.ofNat mt] =
      ([0, UInt8.ofNat dev] ++ beEnc 2 counter ++ [UInt8.ofNat version]) ++ (UInt8.ofNat mt :: []) by simp,
      C13.byteAt_at _ _ _ 5 (by simp)]
    simp; omega
  · unfold hdrBytes
    iterate 6 rw [beAt_append_left _ _ _ _ (by simp)]
    rw [beAt_at_end _ 6 2 dt (by simp)]
    exact Nat.mod_eq_of_lt hdt
  · unfold hdrBytes
    iterate 3 rw [beAt_append_left _ _ _ _ (by simp)]
    rw [beAt_at_end _ 12 4 ifId (by simp)]
    exact Nat.mod_eq_of_lt hif
  · unfold hdrBytes
    iterate 2 rw [beAt_append_left _ _ _ _ (by simp)]
    rw [beAt_at_end _ 16 8 ts (by simp)]
    exact Nat.mod_eq_of_lt hts
  · unfold hdrBytes
    iterate 1 rw [beAt_append_left _ _ _ _ (by simp)]
    rw [beAt_at_end _ 24 2 plen (by simp)]
    exact Nat.mod_eq_of_lt hpl

/-! ### the dispatch of `tecmpDecode` on an accepted message -/

theorem decode_accept (H pay : Bytes) {dev mt dt ifId ts plen : Nat}
    (hf : HdrFacts H dev mt dt ifId ts plen) (hmt : mt ≠ 0xFF) (hdt : dt ≠ 0xFF00)
    (h1 : 1 ≤ plen) (h2 : plen ≤ pay.length) :
    tecmpDecode (H ++ pay) =
      if mt = 1 then tecmpCm (H ++ pay) pay
      else if mt = 3 then
        if dt = 2 ∨ dt = 3 then tecmpCan (H ++ pay) pay
        else if dt = 4 then tecmpLin (H ++ pay) pay
        else []
      else if mt = 2 then tecmpBus (H ++ pay) pay
      else [] := by
  have hlen : (H ++ pay).length = 28 + pay.length := by simp [hf.len]
  have hpl : beAt (H ++ pay) 24 2 = plen := by
    rw [beAt_append_left _ _ _ _ (by rw [hf.len]; omega)]; exact hf.plen
  have hm : byteAt (H ++ pay) 5 = mt := by
    rw [byteAt_append_left _ _ _ (by rw [hf.len]; omega)]; exact hf.mt
  have hd : beAt (H ++ pay) 6 2 = dt := by
    rw [beAt_append_left _ _ _ _ (by rw [hf.len]; omega)]; exact hf.dt
  have hd2 := beAt_two (H ++ pay) 6 (by omega)
  have hdrop : (H ++ pay).drop 28 = pay := List.drop_left' hf.len
  have hvalid : ¬ (byteAt (H ++ pay) 5 = 0xFF ∨ (byteAt (H ++ pay) 6 = 0xFF ∧ byteAt (H ++ pay) 7 = 0)) := by
    rw [hm]
    intro h
    rcases h with h | ⟨h6, h7⟩
    · exact hmt h
    · rw [hd, h6, h7] at hd2
      exact hdt hd2
  unfold tecmpDecode
  rw [if_neg (by omega)]
  simp only [hpl]
  rw [if_neg (by omega), if_neg (by omega), if_neg hvalid]
  simp only [hm, hd, hdrop]

theorem packet_hdr (H pay : Bytes) {dev mt dt ifId ts plen : Nat}
    (hf : HdrFacts H dev mt dt ifId ts plen) (i : Nat) (pl : Payload) :
    tecmpPacket (H ++ pay) i pl =
      { payload := some pl, version := 1, deviceId := dev, ts := ts, ifId := i } := by
  unfold tecmpPacket
  rw [byteAt_append_left _ _ _ (by rw [hf.len]; omega), beAt_append_left _ _ _ _ (by rw [hf.len]; omega),
    hf.dev, hf.ts]

theorem ifId_hdr (H pay : Bytes) {dev mt dt ifId ts plen : Nat}
    (hf : HdrFacts H dev mt dt ifId ts plen) : beAt (H ++ pay) 12 4 = ifId := by
  rw [beAt_append_left _ _ _ _ (by rw [hf.len]; omega), hf.ifId]

/-! ### the payload objects the converter builds -/

theorem beAt_writeAt_enc {b : Bytes} {off w : Nat} (X : Nat) (h : off + w ≤ b.length) :
    beAt (writeAt b off (beEnc w X)) off w = X % 256 ^ w := by
  have hs := C11.slice_writeAt_same (b := b) (off := off) (x := beEnc w X) (by simpa using h)
  rw [beEnc_length] at hs
  unfold beAt
  rw [hs, beDec_beEnc]

/-- CAN / CAN-FD: id word `a`, crc word `c`, data -/
def canObj (a c : Nat) (data : Bytes) : Bytes :=
  writeAt (canSetData (writeAt canDefault 4 (beEnc 4 a)) data) 8 (beEnc 4 c)

theorem canObj_facts (a c : Nat) (data : Bytes) (hn : data.length < 256) :
    (canObj a c data).length = 16 + data.length ∧ beAt (canObj a c data) 4 4 = a % 256 ^ 4 ∧
    byteAt (canObj a c data) 15 = data.length ∧ byteAt (canObj a c data) 14 = dlcOf data.length ∧
    (canObj a c data).drop 16 = data ∧ beAt (canObj a c data) 0 2 = 0 ∧
    beAt (canObj a c data) 12 2 = 0 ∧ canValid (canObj a c data) = true := by
  have hd : canDefault.length = 16 := by decide
  have hw1 : 4 + (beEnc 4 a).length ≤ canDefault.length := by simp [hd]
  have h1len : (writeAt canDefault 4 (beEnc 4 a)).length = 16 := by rw [C11.writeAt_length hw1, hd]
  have hfacts := C13.can_setData (writeAt canDefault 4 (beEnc 4 a)) data (by omega) hn
  dsimp only at hfacts
  obtain ⟨h2len, h2take, h2b14, h2b15, h2drop, _⟩ := hfacts
  have hw3 : 8 + (beEnc 4 c).length ≤ (canSetData (writeAt canDefault 4 (beEnc 4 a)) data).length := by
    simp [h2len]; omega
  have hlen : (canObj a c data).length = 16 + data.length := by
    unfold canObj; rw [C11.writeAt_length hw3, h2len]
  have hid : beAt (canObj a c data) 4 4 = a % 256 ^ 4 := by
    unfold canObj
    rw [C11.beAt_writeAt_other hw3 (Or.inl (by omega)), C13.beAt_of_take _ _ 14 4 4 h2take (by omega),
      beAt_writeAt_enc a (by omega)]
  have h15 : byteAt (canObj a c data) 15 = data.length := by
    unfold canObj
    rw [byteAt_writeAt_other hw3 (Or.inr (by simp)), h2b15]
  have h14 : byteAt (canObj a c data) 14 = dlcOf data.length := by
    unfold canObj
    rw [byteAt_writeAt_other hw3 (Or.inr (by simp)), h2b14]
  have hdrop : (canObj a c data).drop 16 = data := by
    unfold canObj
    rw [drop_writeAt hw3 (by simp), h2drop]
  have h0 : beAt (canObj a c data) 0 2 = 0 := by
    unfold canObj
    rw [C11.beAt_writeAt_other hw3 (Or.inl (by omega)), C13.beAt_of_take _ _ 14 0 2 h2take (by omega),
      C11.beAt_writeAt_other hw1 (Or.inl (by omega))]
    decide
  have h12 : beAt (canObj a c data) 12 2 = 0 := by
    unfold canObj
    rw [C11.beAt_writeAt_other hw3 (Or.inr (by simp)), C13.beAt_of_take _ _ 14 12 2 h2take (by omega),
      C11.beAt_writeAt_other hw1 (Or.inr (by simp))]
    decide
  refine ⟨hlen, hid, h15, h14, hdrop, h0, h12, ?_⟩
  simp only [canValid, hlen, h0, h12, h15, Bool.and_eq_true, decide_eq_true_eq, beq_iff_eq]
  refine ⟨⟨⟨by omega, by decide⟩, trivial⟩, by omega⟩

/-- LIN: protected-id byte `x`, checksum byte `y`, data -/
def linObj (x y : UInt8) (data : Bytes) : Bytes :=
  linSetData (writeAt (writeAt linDefault 4 [x]) 6 [y]) data

theorem linObj_facts (x y : UInt8) (data : Bytes) (hn : data.length < 256) :
    (linObj x y data).length = 8 + data.length ∧ byteAt (linObj x y data) 4 = x.toNat ∧
    byteAt (linObj x y data) 6 = y.toNat ∧ byteAt (linObj x y data) 7 = data.length ∧
    (linObj x y data).drop 8 = data ∧ linValid (linObj x y data) = true := by
  have hd : linDefault.length = 8 := by decide
  have hw1 : 4 + [x].length ≤ linDefault.length := by simp [hd]
  have h1len : (writeAt linDefault 4 [x]).length = 8 := by rw [C11.writeAt_length hw1, hd]
  have hw2 : 6 + [y].length ≤ (writeAt linDefault 4 [x]).length := by simp [h1len]
  have h2len : (writeAt (writeAt linDefault 4 [x]) 6 [y]).length = 8 := by
    rw [C11.writeAt_length hw2, h1len]
  have hfacts := C13.lin_setData (writeAt (writeAt linDefault 4 [x]) 6 [y]) data (by omega) hn
  dsimp only at hfacts
  obtain ⟨h3len, h3take, h3b7, h3drop, _, h3valid, _⟩ := hfacts
  refine ⟨h3len, ?_, ?_, h3b7, h3drop, h3valid⟩
  · unfold linObj
    rw [C13.byteAt_of_take _ _ 7 4 h3take (by omega), byteAt_writeAt_other hw2 (Or.inl (by omega)),
      byteAt_writeAt_same x (by omega)]
  · unfold linObj
    rw [C13.byteAt_of_take _ _ 7 6 h3take (by omega), byteAt_writeAt_same y (by omega)]

/-- interface status of one bus entry: interface id, messages total, errors total -/
def busObj (a m e : Nat) : Bytes :=
  writeAt (writeAt (writeAt ifDefault 0 (beEnc 4 a)) 4 (beEnc 4 m)) 20 (beEnc 4 e)

theorem busObj_valid (a m e : Nat) : ifValid (busObj a m e) = true := by
  have hd : ifDefault.length = 40 := by decide
  have hw1 : 0 + (beEnc 4 a).length ≤ ifDefault.length := by simp [hd]
  have h1len : (writeAt ifDefault 0 (beEnc 4 a)).length = 40 := by rw [C11.writeAt_length hw1, hd]
  have hw2 : 4 + (beEnc 4 m).length ≤ (writeAt ifDefault 0 (beEnc 4 a)).length := by simp [h1len]
  have h2len : (writeAt (writeAt ifDefault 0 (beEnc 4 a)) 4 (beEnc 4 m)).length = 40 := by
    rw [C11.writeAt_length hw2, h1len]
  have hw3 : 20 + (beEnc 4 e).length ≤ (writeAt (writeAt ifDefault 0 (beEnc 4 a)) 4 (beEnc 4 m)).length := by
    simp [h2len]
  have hlen : (busObj a m e).length = 40 := by
    unfold busObj; rw [C11.writeAt_length hw3, h2len]
  have h29 : byteAt (busObj a m e) 29 = 0 := by
    unfold busObj
    rw [byteAt_writeAt_other hw3 (Or.inr (by simp)), byteAt_writeAt_other hw2 (Or.inr (by simp)),
      byteAt_writeAt_other hw1 (Or.inr (by simp))]
    decide
  have h36 : beAt (busObj a m e) 36 2 = 0 := by
    unfold busObj
    rw [C11.beAt_writeAt_other hw3 (Or.inr (by simp)), C11.beAt_writeAt_other hw2 (Or.inr (by simp)),
      C11.beAt_writeAt_other hw1 (Or.inr (by simp))]
    decide
  have h38 : beAt (busObj a m e) 38 2 = 0 := by
    unfold busObj
    rw [C11.beAt_writeAt_other hw3 (Or.inr (by simp)), C11.beAt_writeAt_other hw2 (Or.inr (by simp)),
      C11.beAt_writeAt_other hw1 (Or.inr (by simp))]
    decide
  simp [ifValid, hlen, h29, h36, h38]

/-! ### the converters in closed form -/

theorem tecmpCan_eq (b p : Bytes) (h5 : 5 ≤ p.length) (hd : byteAt p 4 ≤ p.length - 5) :
    tecmpCan b p = [tecmpPacket b (beAt b 12 4)
      ⟨if byteAt p 4 > 8 then tyCanFd else tyCan,
       canObj (beAt p 0 4)
         (if byteAt p 4 > 8 then tecmpCanCrc p (byteAt p 4) else tecmpCanCrc p (byteAt p 4) % 65536)
         (slice p 5 (byteAt p 4))⟩] := by
  unfold tecmpCan canObj
  rw [if_neg (by omega)]
  dsimp only
  rw [if_neg (by omega)]
  split <;> rfl

theorem tecmpLin_eq (b p : Bytes) (h2 : 2 ≤ p.length) (hn : byteAt p 1 ≤ p.length - 2) :
    tecmpLin b p = [tecmpPacket b (beAt b 12 4)
      ⟨tyLin, linObj (UInt8.ofNat (byteAt p 0 &&& 0x3F))
        (UInt8.ofNat (if p.length ≤ 2 + byteAt p 1 then 0 else byteAt p (2 + byteAt p 1)))
        (slice p 2 (byteAt p 1))⟩] := by
  unfold tecmpLin linObj
  rw [if_neg (by omega)]
  dsimp only
  rw [if_neg (by omega)]

/-- the CAN message payload as laid out on the wire -/
theorem can_conv (b : Bytes) (arb : Nat) (data crc : Bytes) (harb : arb < 2 ^ 32) (hn : data.length < 256) :
    ∃ c, tecmpCan b (beEnc 4 arb ++ [UInt8.ofNat data.length] ++ data ++ crc) =
      [tecmpPacket b (beAt b 12 4) ⟨if data.length > 8 then tyCanFd else tyCan, canObj arb c data⟩] := by
  have hlen : (beEnc 4 arb ++ [UInt8.ofNat data.length] ++ data ++ crc).length = 5 + data.length + crc.length := by
    simp; omega
  have h4 : byteAt (beEnc 4 arb ++ [UInt8.ofNat data.length] ++ data ++ crc) 4 = data.length := by
    rw [show beEnc 4 arb ++ [UInt8.ofNat data.length] ++ data ++ crc =
      beEnc 4 arb ++ (UInt8.ofNat data.length :: (data ++ crc)) by simp, C13.byteAt_at _ _ _ 4 (by simp)]
    simp; omega
  have h0 : beAt (beEnc 4 arb ++ [UInt8.ofNat data.length] ++ data ++ crc) 0 4 = arb := by
    rw [show beEnc 4 arb ++ [UInt8.ofNat data.length] ++ data ++ crc =
      [] ++ (beEnc 4 arb ++ ([UInt8.ofNat data.length] ++ data ++ crc)) by simp,
      C13.beAt_at _ _ 0 4 arb rfl]
    exact Nat.mod_eq_of_lt harb
  have hs : slice (beEnc 4 arb ++ [UInt8.ofNat data.length] ++ data ++ crc) 5 data.length = data := by
    rw [List.append_assoc]
    exact C13.slice_at _ _ _ 5 _ (by simp) rfl
  rw [tecmpCan_eq b _ (by omega) (by omega), h4, h0, hs]
  exact ⟨_, rfl⟩

/-- the LIN message payload as laid out on the wire -/
theorem lin_conv (b : Bytes) (pid : Nat) (data : Bytes) (cks : Nat) (hpid : pid < 256)
    (hn : data.length < 256) (hc : cks < 256) :
    tecmpLin b ([UInt8.ofNat pid, UInt8.ofNat data.length] ++ data ++ [UInt8.ofNat cks]) =
      [tecmpPacket b (beAt b 12 4) ⟨tyLin, linObj (UInt8.ofNat (pid % 64)) (UInt8.ofNat cks) data⟩] := by
  have hlen : ([UInt8.ofNat pid, UInt8.ofNat data.length] ++ data ++ [UInt8.ofNat cks]).length =
      3 + data.length := by simp; omega
  have h0 : byteAt ([UInt8.ofNat pid, UInt8.ofNat data.length] ++ data ++ [UInt8.ofNat cks]) 0 = pid := by
    simp [byteAt]; omega
  have h1 : byteAt ([UInt8.ofNat pid, UInt8.ofNat data.length] ++ data ++ [UInt8.ofNat cks]) 1 =
      data.length := by
    simp [byteAt]; omega
  have hck : byteAt ([UInt8.ofNat pid, UInt8.ofNat data.length] ++ data ++ [UInt8.ofNat cks])
      (2 + data.length) = cks := by
    rw [C13.byteAt_at _ _ _ (2 + data.length) (by simp; omega)]
    simp; omega
  have hs : slice ([UInt8.ofNat pid, UInt8.ofNat data.length] ++ data ++ [UInt8.ofNat cks]) 2 data.length =
      data := by
    rw [List.append_assoc]
    exact C13.slice_at _ _ _ 2 _ rfl rfl
  have hand : pid &&& 0x3F = pid % 64 := Nat.and_two_pow_sub_one_eq_mod pid 6
  rw [tecmpLin_eq b _ (by omega) (by omega), h0, h1, hs, hlen, if_neg (by omega), hck, hand]

/-! ### bus status entries -/

/-- a bus-status entry as a triple (interface id, messages total, errors total) -/
def entryBytes (t : Nat × Nat × Nat) : Bytes := beEnc 4 t.1 ++ beEnc 4 t.2.1 ++ beEnc 4 t.2.2

theorem entryBytes_length (t : Nat × Nat × Nat) : (entryBytes t).length = 12 := by
  simp [entryBytes]

/-- an entry on the wire: the 12 counter bytes followed by its vendor data -/
def ventryBytes (t : (Nat × Nat × Nat) × Bytes) : Bytes := entryBytes t.1 ++ t.2

theorem flatMap_ventry_length (v : Nat) (ts : List ((Nat × Nat × Nat) × Bytes)) (hv : ∀ t ∈ ts, t.2.length = v) :
    (ts.flatMap ventryBytes).length = (12 + v) * ts.length := by
  induction ts with
  | nil => rfl
  | cons t ts ih =>
    have h1 := hv t (List.mem_cons_self ..)
    have h2 := ih (fun x hx => hv x (List.mem_cons_of_mem _ hx))
    simp only [List.flatMap_cons, List.length_append, ventryBytes, entryBytes_length, h1, h2, List.length_cons, Nat.mul_add,
      Nat.mul_one]
    omega

/-- entries of `12 + v` bytes each (`v` vendor bytes behind the counters), then fewer than `12 + v` trailing bytes: one packet per
    entry, read from the entry's first 12 bytes -/
theorem busEntries_conv (b trail : Bytes) (v : Nat) (ht : trail.length < 12 + v) :
    ∀ (ts : List ((Nat × Nat × Nat) × Bytes)) (pre : Bytes) (fuel : Nat), ts.length ≤ fuel →
      (∀ t ∈ ts, (t.1.1 < 2 ^ 32 ∧ t.1.2.1 < 2 ^ 32 ∧ t.1.2.2 < 2 ^ 32) ∧ t.2.length = v) →
      tecmpBusEntries b (pre ++ ts.flatMap ventryBytes ++ trail) v fuel pre.length =
        ts.map (fun t => tecmpPacket b t.1.1 ⟨tyIf, busObj t.1.1 t.1.2.1 t.1.2.2⟩) := by
  intro ts
  induction ts with
  | nil =>
    intro pre fuel _ _
    cases fuel with
    | zero => rfl
    | succ fuel =>
      unfold tecmpBusEntries
      rw [if_neg (by simp; omega)]
      rfl
  | cons t ts ih =>
    intro pre fuel hfuel hwf
    obtain ⟨⟨h1, h2, h3⟩, hvl⟩ := hwf t (List.mem_cons_self ..)
    have hvs : ∀ x ∈ t :: ts, x.2.length = v := fun x hx => (hwf x hx).2
    cases fuel with
    | zero => simp at hfuel
    | succ fuel =>
      have hp : pre ++ (t :: ts).flatMap ventryBytes ++ trail =
          (pre ++ ventryBytes t) ++ ts.flatMap ventryBytes ++ trail := by
        simp only [List.flatMap_cons, List.append_assoc]
      have hplen : (pre ++ (t :: ts).flatMap ventryBytes ++ trail).length =
          pre.length + (12 + v) * (ts.length + 1) + trail.length := by
        simp only [List.length_append, flatMap_ventry_length v (t :: ts) hvs, List.length_cons]
      have ha : beAt (pre ++ (t :: ts).flatMap ventryBytes ++ trail) pre.length 4 = t.1.1 := by
        rw [show pre ++ (t :: ts).flatMap ventryBytes ++ trail =
          pre ++ (beEnc 4 t.1.1 ++ (beEnc 4 t.1.2.1 ++ beEnc 4 t.1.2.2 ++ t.2 ++ ts.flatMap ventryBytes ++ trail)) by
            simp only [List.flatMap_cons, ventryBytes, entryBytes, List.append_assoc],
          C13.beAt_at _ _ _ 4 _ rfl]
        exact Nat.mod_eq_of_lt h1
      have hm : beAt (pre ++ (t :: ts).flatMap ventryBytes ++ trail) (pre.length + 4) 4 = t.1.2.1 := by
        rw [show pre ++ (t :: ts).flatMap ventryBytes ++ trail =
          (pre ++ beEnc 4 t.1.1) ++ (beEnc 4 t.1.2.1 ++ (beEnc 4 t.1.2.2 ++ t.2 ++ ts.flatMap ventryBytes ++ trail)) by
            simp only [List.flatMap_cons, ventryBytes, entryBytes, List.append_assoc],
          C13.beAt_at _ _ _ 4 _ (by simp)]
        exact Nat.mod_eq_of_lt h2
      have he : beAt (pre ++ (t :: ts).flatMap ventryBytes ++ trail) (pre.length + 8) 4 = t.1.2.2 := by
        rw [show pre ++ (t :: ts).flatMap ventryBytes ++ trail =
          (pre ++ beEnc 4 t.1.1 ++ beEnc 4 t.1.2.1) ++ (beEnc 4 t.1.2.2 ++ (t.2 ++ ts.flatMap ventryBytes ++ trail)) by
            simp only [List.flatMap_cons, ventryBytes, entryBytes, List.append_assoc],
          C13.beAt_at _ _ _ 4 _ (by simp)]
        exact Nat.mod_eq_of_lt h3
      have hnext := ih (pre ++ ventryBytes t) fuel (by simpa using hfuel)
        (fun x hx => hwf x (List.mem_cons_of_mem _ hx))
      have hvb : (ventryBytes t).length = 12 + v := by
        simp only [ventryBytes, List.length_append, entryBytes_length, hvl]
      rw [← hp, List.length_append, hvb] at hnext
      unfold tecmpBusEntries
      rw [if_pos (by rw [hplen, Nat.mul_add]; omega)]
      simp only [ha, hm, he, hnext, List.map_cons, busObj]

/-- the bus-status payload as laid out on the wire: 12 generic bytes declaring `v` vendor bytes per entry (u16 @4), entries of
    `12 + v` bytes, fewer than `12 + v` trailing bytes (an incomplete entry, or nothing) -/
theorem bus_conv (b generic trail : Bytes) (v : Nat) (ts : List ((Nat × Nat × Nat) × Bytes)) (hg : generic.length = 12)
    (hv : beAt generic 4 2 = v) (ht : trail.length < 12 + v)
    (hwf : ∀ t ∈ ts, (t.1.1 < 2 ^ 32 ∧ t.1.2.1 < 2 ^ 32 ∧ t.1.2.2 < 2 ^ 32) ∧ t.2.length = v) :
    tecmpBus b (generic ++ ts.flatMap ventryBytes ++ trail) =
      ts.map (fun t => tecmpPacket b t.1.1 ⟨tyIf, busObj t.1.1 t.1.2.1 t.1.2.2⟩) := by
  have hplen : (generic ++ ts.flatMap ventryBytes ++ trail).length = 12 + (12 + v) * ts.length + trail.length := by
    simp only [List.length_append, flatMap_ventry_length v ts (fun x hx => (hwf x hx).2), hg]
  have hvd : beAt (generic ++ ts.flatMap ventryBytes ++ trail) 4 2 = v := by
    rw [List.append_assoc, beAt_append_left _ _ _ _ (by omega), hv]
  unfold tecmpBus
  rw [if_neg (by omega), hvd]
  have hmul : 12 * ts.length ≤ (12 + v) * ts.length := Nat.mul_le_mul_right _ (by omega)
  have := busEntries_conv b trail v ht ts generic
    ((generic ++ ts.flatMap ventryBytes ++ trail).length / 12 + 1) (by rw [hplen]; omega) hwf
  rw [hg] at this
  exact this

/-! ### every converted payload passes its class validator -/

/-- the packet holds a payload its own class validator accepts -/
def Good (x : Packet) : Prop :=
  ∃ pl v, x.payload = some pl ∧ validatorOf pl.ty = some v ∧ v pl.data = true

theorem good_packet (b : Bytes) (i ty : Nat) (o : Bytes) (v : Bytes → Bool)
    (hv : validatorOf ty = some v) (h : v o = true) : Good (tecmpPacket b i ⟨ty, o⟩) :=
  ⟨⟨ty, o⟩, v, rfl, hv, h⟩

theorem slice_length_le (b : Bytes) (off w : Nat) : (slice b off w).length ≤ w := by
  simp only [slice, List.length_take]; omega

theorem can_good (b p : Bytes) : ∀ x ∈ tecmpCan b p, Good x := by
  by_cases h5 : p.length < 5
  · simp [tecmpCan, h5]
  · by_cases hd : p.length - 5 < byteAt p 4
    · simp [tecmpCan, h5, hd]
    · rw [tecmpCan_eq b p (by omega) (by omega)]
      intro x hx
      simp only [List.mem_singleton] at hx
      subst hx
      have hn : (slice p 5 (byteAt p 4)).length < 256 :=
        Nat.lt_of_le_of_lt (slice_length_le _ _ _) (byteAt_lt p 4)
      split
      · exact good_packet _ _ _ _ _ rfl (canObj_facts _ _ _ hn).2.2.2.2.2.2.2
      · exact good_packet _ _ _ _ _ rfl (canObj_facts _ _ _ hn).2.2.2.2.2.2.2

theorem lin_good (b p : Bytes) : ∀ x ∈ tecmpLin b p, Good x := by
  by_cases h2 : p.length < 2
  · simp [tecmpLin, h2]
  · by_cases hd : p.length - 2 < byteAt p 1
    · simp [tecmpLin, h2, hd]
    · rw [tecmpLin_eq b p (by omega) (by omega)]
      intro x hx
      simp only [List.mem_singleton] at hx
      subst hx
      have hn : (slice p 2 (byteAt p 1)).length < 256 :=
        Nat.lt_of_le_of_lt (slice_length_le _ _ _) (byteAt_lt p 1)
      exact good_packet _ _ _ _ _ rfl (linObj_facts _ _ _ hn).2.2.2.2.2

theorem busEntries_good (b p : Bytes) (v : Nat) : ∀ (fuel off : Nat), ∀ x ∈ tecmpBusEntries b p v fuel off, Good x := by
  intro fuel
  induction fuel with
  | zero => intro off x hx; simp [tecmpBusEntries] at hx
  | succ fuel ih =>
    intro off x hx
    unfold tecmpBusEntries at hx
    split at hx
    · simp only [List.mem_cons] at hx
      rcases hx with hx | hx
      · subst hx
        exact good_packet _ _ _ _ _ rfl (busObj_valid _ _ _)
      · exact ih _ x hx
    · simp at hx

theorem bus_good (b p : Bytes) : ∀ x ∈ tecmpBus b p, Good x := by
  unfold tecmpBus
  split
  · intro x hx; simp at hx
  · exact busEntries_good b p _ _ _

theorem decimal_length_le (n k : Nat) (hk : 0 < k) (h : n < 10 ^ k) : (decimal n).length ≤ k := by
  unfold decimal
  rw [List.length_map]
  have : (toString n).toList = Nat.toDigits 10 n := Nat.toList_repr
  rw [this]
  exact (Nat.length_toDigits_le_iff (by decide) hk).mpr h

theorem cmSetData_valid (b s1 s2 s3 s4 v : Bytes) (hb : 26 ≤ b.length)
    (h1 : s1.length + 2 < 65536) (h2 : s2.length + 2 < 65536) (h3 : s3.length + 2 < 65536)
    (h4 : s4.length + 2 < 65536) (hv : v.length < 65536) :
    cmValid (cmSetData b s1 s2 s3 s4 v) = true := by
  rw [C13.cmSetData_eq b s1 s2 s3 s4 v hb]
  have hP : (b.take 26).length = 26 := C13.take_length_of_le b 26 hb
  have hdrop : (b.take 26 ++ (cmString s1 ++ (cmString s2 ++ (cmString s3 ++ (cmString s4 ++
      (beEnc 2 v.length ++ v)))))).drop 26 =
      cmString s1 ++ (cmString s2 ++ (cmString s3 ++ (cmString s4 ++ (beEnc 2 v.length ++ (v ++ []))))) := by
    rw [List.append_nil]; exact List.drop_left' hP
  have hbl : blocksOk 5 ((b.take 26 ++ (cmString s1 ++ (cmString s2 ++ (cmString s3 ++ (cmString s4 ++
      (beEnc 2 v.length ++ v)))))).drop 26) = true := by
    rw [hdrop, C13.cm_blocksOk 4 _ _ h1, C13.cm_blocksOk 3 _ _ h2, C13.cm_blocksOk 2 _ _ h3,
      C13.cm_blocksOk 1 _ _ h4, C13.blocksOk_cons 0 _ v [] rfl hv]
    rfl
  simp only [cmValid, hbl, Bool.and_true, decide_eq_true_eq, List.length_append, hP]
  omega

theorem cm_good (b p : Bytes) : ∀ x ∈ tecmpCm b p, Good x := by
  unfold tecmpCm
  split
  · intro x hx; simp at hx
  split
  · intro x hx; simp at hx
  · intro x hx
    simp only [List.mem_singleton] at hx
    subst hx
    have hser : (decimal (beAt p 8 4)).length ≤ 10 :=
      decimal_length_le _ 10 (by decide) (Nat.lt_trans (C03.beAt_lt p 8 4) (by decide))
    have hbyte : ∀ i, (decimal (byteAt p i)).length ≤ 3 := fun i =>
      decimal_length_le _ 3 (by decide) (Nat.lt_trans (byteAt_lt p i) (by decide))
    have h13 := hbyte 13
    have h14 := hbyte 14
    have h15 := hbyte 15
    have h16 := hbyte 16
    have h17 := hbyte 17
    refine good_packet _ _ _ _ _ rfl (cmSetData_valid _ _ _ _ _ _ (by decide) (by simp) ?_ ?_ ?_ (by simp))
    · omega
    · simp only [List.length_append, List.length_singleton]; omega
    · simp only [List.length_append, List.length_singleton]; omega

theorem valid_payloads (b : Bytes) : ∀ x ∈ tecmpDecode b, Good x := by
  unfold tecmpDecode
  dsimp only
  repeat' split
  all_goals first
    | (intro x hx; simp at hx; done)
    | exact cm_good _ _
    | exact can_good _ _
    | exact lin_good _ _
    | exact bus_good _ _

end AsamCmp.C15
