/-
  Source-level `Packet::getRawCmpHeader` / `getRawMessageHeader`: storing a byte-swapped 32/64-bit value is the big-endian
  encoding, and the flag byte of the message header.
-/
import AsamCmp.GeneratedSrcObj
import AsamCmp.Lemmas.SrcBuilders
set_option linter.unusedSimpArgs false
namespace AsamCmp.SrcEnc
open AsamCmp AsamCmp.Src AsamCmp.SrcGen AsamCmp.SrcTie

theorem leEnc_cons (w x y : Nat) (hx : x < 256) : leEnc (w + 1) (x + 256 * y) = UInt8.ofNat x :: leEnc w y := by
  have e1 : (x + 256 * y) % 256 = x := by omega
  have e2 : (x + 256 * y) / 256 = y := by omega
  simp only [leEnc, e1, e2]

theorem beEnc_two (v : Nat) : beEnc 2 v = [UInt8.ofNat (v / 256 % 256), UInt8.ofNat (v % 256)] := by
  simp only [beEnc, List.nil_append, List.cons_append]

theorem beEnc_four (v : Nat) : beEnc 4 v = [UInt8.ofNat (v / 16777216 % 256), UInt8.ofNat (v / 65536 % 256),
    UInt8.ofNat (v / 256 % 256), UInt8.ofNat (v % 256)] := by
  simp only [beEnc, List.nil_append, List.cons_append, Nat.div_div_eq_div_mul, Nat.reduceMul]

theorem beEnc_eight (v : Nat) : beEnc 8 v = [UInt8.ofNat (v / 72057594037927936 % 256),
    UInt8.ofNat (v / 281474976710656 % 256), UInt8.ofNat (v / 1099511627776 % 256), UInt8.ofNat (v / 4294967296 % 256),
    UInt8.ofNat (v / 16777216 % 256), UInt8.ofNat (v / 65536 % 256), UInt8.ofNat (v / 256 % 256),
    UInt8.ofNat (v % 256)] := by
  simp only [beEnc, List.nil_append, List.cons_append, Nat.div_div_eq_div_mul, Nat.reduceMul]

/-- storing a byte-swapped 32-bit value is the big-endian encoding -/
theorem leEnc_swap32 (v : Nat) :
    leEnc 4 (v / 16777216 % 256 + v / 65536 % 256 * 256 + v / 256 % 256 * 65536 + v % 256 * 16777216) = beEnc 4 v := by
  have e : v / 16777216 % 256 + v / 65536 % 256 * 256 + v / 256 % 256 * 65536 + v % 256 * 16777216
      = v / 16777216 % 256 + 256 * (v / 65536 % 256 + 256 * (v / 256 % 256 + 256 * (v % 256 + 256 * 0))) := by omega
  rw [e, leEnc_cons 3 _ _ (by omega), leEnc_cons 2 _ _ (by omega), leEnc_cons 1 _ _ (by omega),
    leEnc_cons 0 _ _ (by omega), beEnc_four]
  rfl

/-- storing a byte-swapped 64-bit value is the big-endian encoding -/
theorem leEnc_swap64 (v : Nat) :
    leEnc 8 (v / 72057594037927936 % 256 + v / 281474976710656 % 256 * 256
      + v / 1099511627776 % 256 * 65536 + v / 4294967296 % 256 * 16777216 + v / 16777216 % 256 * 4294967296
      + v / 65536 % 256 * 1099511627776 + v / 256 % 256 * 281474976710656 + v % 256 * 72057594037927936)
      = beEnc 8 v := by
  rw [beEnc_eight]
  have h7 : v / 72057594037927936 % 256 < 256 := Nat.mod_lt _ (by decide)
  have h6 : v / 281474976710656 % 256 < 256 := Nat.mod_lt _ (by decide)
  have h5 : v / 1099511627776 % 256 < 256 := Nat.mod_lt _ (by decide)
  have h4 : v / 4294967296 % 256 < 256 := Nat.mod_lt _ (by decide)
  have h3 : v / 16777216 % 256 < 256 := Nat.mod_lt _ (by decide)
  have h2 : v / 65536 % 256 < 256 := Nat.mod_lt _ (by decide)
  have h1 : v / 256 % 256 < 256 := Nat.mod_lt _ (by decide)
  have h0 : v % 256 < 256 := Nat.mod_lt _ (by decide)
  generalize v / 72057594037927936 % 256 = b7, v / 281474976710656 % 256 = b6, v / 1099511627776 % 256 = b5,
    v / 4294967296 % 256 = b4, v / 16777216 % 256 = b3, v / 65536 % 256 = b2, v / 256 % 256 = b1, v % 256 = b0
    at h0 h1 h2 h3 h4 h5 h6 h7 ⊢
  have e : b7 + b6 * 256 + b5 * 65536 + b4 * 16777216 + b3 * 4294967296 + b2 * 1099511627776
      + b1 * 281474976710656 + b0 * 72057594037927936
      = b7 + 256 * (b6 + 256 * (b5 + 256 * (b4 + 256 * (b3 + 256 * (b2 + 256 * (b1 + 256 * (b0 + 256 * 0))))))) := by
    omega
  rw [e, leEnc_cons 7 _ _ h7, leEnc_cons 6 _ _ h6, leEnc_cons 5 _ _ h5, leEnc_cons 4 _ _ h4, leEnc_cons 3 _ _ h3,
    leEnc_cons 2 _ _ h2, leEnc_cons 1 _ _ h1, leEnc_cons 0 _ _ h0]
  rfl

/-- the flag byte of the message header: the packet's flags with the segment bits taken from the flags themselves -/
theorem flags_byte (f : Nat) (h : f < 256) : (f % 256 &&& 0xF3) ||| (f &&& 0x0C) = f := by
  rw [Nat.mod_eq_of_lt h, ← Nat.and_or_distrib_left]
  have e : (0xF3 ||| 0x0C : Nat) = 2 ^ 8 - 1 := by decide
  rw [e, Nat.and_two_pow_sub_one_eq_mod]
  exact Nat.mod_eq_of_lt h

theorem takeExact_all (b : Bytes) (n : Nat) (h : n = b.length) : takeExact b n = some b := by
  subst h; unfold takeExact; rw [if_pos (Nat.le_refl _), List.take_length]

/-- `bld_norm`, resolving the calls whose value is known by unfolding (`to_underlying_*`, whatever their generated name) -/
syntax "pkt_calls" " [" Lean.Parser.Tactic.simpLemma,* "]" : tactic
macro_rules
  | `(tactic| pkt_calls [$ls,*]) =>
    `(tactic| ((try bld_norm [$ls,*]);
               repeat (guard_target =~ Option.bind _ _ = _; refine bind_of_eq rfl ?_; try bld_norm [$ls,*])))

/-- evaluation of `writeAt` on explicit lists -/
macro "list_eval" : tactic =>
  `(tactic| simp only [writeAt, List.take_succ_cons, List.take_zero, List.drop_succ_cons, List.drop_zero,
      List.length_cons, List.length_nil, List.cons_append, List.nil_append, List.append_nil, Nat.reduceAdd])

/-- the rest of a message-header proof once the `switch` is decided: fold the writes, then compare explicit byte lists -/
macro "msg_hdr_finish" : tactic =>
  `(tactic| (pkt_calls [takeExact_all, swap32_bytes, swap64_bytes, leEnc_swap32, leEnc_swap64]
             simp only [beEnc_two, beEnc_four, beEnc_eight]
             list_eval))

end AsamCmp.SrcEnc
