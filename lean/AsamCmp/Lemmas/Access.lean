/-
  Helper lemmas for C03 (validators imply in-bounds accessors).
-/
import AsamCmp.Access
import AsamCmp.Decoder
namespace AsamCmp.C03
open AsamCmp

/-! ### checked reads -/

theorem rd_ok (b : Bytes) (pos w : Nat) (h : pos + w ≤ b.length) : rd b pos w = some (beAt b pos w) := by
  simp [rd, h]

theorem beAt_one (b : Bytes) (i : Nat) : beAt b i 1 = byteAt b i := by
  unfold beAt slice byteAt
  rw [List.getD_eq_getElem?_getD]
  cases h : b[i]? with
  | none =>
    have : b.length ≤ i := by simpa using h
    simp [List.drop_eq_nil_of_le this]
  | some x =>
    have hi : i < b.length := by
      rcases Nat.lt_or_ge i b.length with h' | h'
      · exact h'
      · simp [List.getElem?_eq_none h'] at h
    have hx : b[i] = x := by
      have := List.getElem?_eq_getElem hi
      rw [this] at h; exact Option.some.inj h
    rw [List.drop_eq_getElem_cons hi]
    simp [beDec, hx]

theorem beAt_lt (b : Bytes) (off w : Nat) : beAt b off w < 256 ^ w := by
  unfold beAt
  have h1 := beDec_lt (slice b off w)
  have h2 : (slice b off w).length ≤ w := by simp [slice]; omega
  exact Nat.lt_of_lt_of_le h1 (Nat.pow_le_pow_right (by decide) h2)

theorem beAt_two_lt (b : Bytes) (off : Nat) : beAt b off 2 < 65536 := beAt_lt b off 2

/-! ### capture-module blocks -/

theorem blocksOk_drop (n : Nat) (b : Bytes) (pos : Nat) :
    blocksOk (n + 1) (b.drop pos) = true ↔
      pos + 2 + beAt b pos 2 ≤ b.length ∧ blocksOk n (b.drop (pos + 2 + beAt b pos 2)) = true := by
  have hl : beDec ((b.drop pos).take 2) = beAt b pos 2 := rfl
  simp only [blocksOk, hl, List.length_drop, List.drop_drop]
  by_cases h1 : b.length - pos < 2
  · simp only [h1, if_true]
    constructor
    · intro h; cases h
    · intro ⟨h, _⟩; omega
  · simp only [h1, if_false]
    by_cases h2 : b.length - (pos + 2) < beAt b pos 2
    · simp only [h2, if_true]
      constructor
      · intro h; cases h
      · intro ⟨h, _⟩; omega
    · simp only [h2, if_false]
      constructor
      · intro h; exact ⟨by omega, h⟩
      · intro ⟨_, h⟩; exact h

theorem trimNul_ok (b : Bytes) (off len : Nat) (h : off + len ≤ b.length) :
    ∃ t, trimNul b off len = some t ∧ t ≤ len := by
  refine ⟨((slice b off len).takeWhile (· != 0)).length, by simp only [trimNul, h, if_true], ?_⟩
  refine Nat.le_trans (List.takeWhile_prefix _).length_le ?_
  simp [slice]; omega

theorem cmBlock_ok (b : Bytes) (pos : Nat) (h : pos + 2 ≤ b.length) :
    cmBlock b pos = some (pos + 2, beAt b pos 2, pos + 2 + beAt b pos 2) := by
  simp [cmBlock, rd_ok b pos 2 h]

/-! ### per-class: validator accepts ⇒ accessors stay inside -/

theorem dataView_inb (name : String) (off len n : Nat) (h : len = 0 ∨ off + len ≤ n) :
    (dataView name off len).inBounds n = true := by
  unfold dataView View.inBounds
  by_cases h0 : len = 0
  · simp [h0]
  · simp only [h0, if_false, decide_eq_true_eq]
    omega

theorem can_inb (b : Bytes) (hv : canValid b = true) :
    ∃ vs, canAccess b = some vs ∧ ∀ x ∈ vs, x.inBounds b.length = true := by
  simp only [canValid, Bool.and_eq_true, decide_eq_true_eq] at hv
  obtain ⟨⟨⟨h16, _⟩, _⟩, hn⟩ := hv
  refine ⟨[dataView "data" 16 (byteAt b 15)], ?_, ?_⟩
  · simp [canAccess, rd_ok b 0 16 (by omega), rd_ok b 15 1 (by omega), beAt_one]
  · intro x hx
    simp only [List.mem_singleton] at hx
    subst hx
    exact dataView_inb _ _ _ _ (Or.inr (by omega))

theorem lin_inb (b : Bytes) (hv : linValid b = true) :
    ∃ vs, linAccess b = some vs ∧ ∀ x ∈ vs, x.inBounds b.length = true := by
  simp only [linValid, Bool.and_eq_true, decide_eq_true_eq] at hv
  obtain ⟨h8, hn⟩ := hv
  refine ⟨[dataView "data" 8 (byteAt b 7)], ?_, ?_⟩
  · simp [linAccess, rd_ok b 0 8 (by omega), rd_ok b 7 1 (by omega), beAt_one]
  · intro x hx
    simp only [List.mem_singleton] at hx
    subst hx
    exact dataView_inb _ _ _ _ (Or.inr (by omega))

theorem eth_inb (b : Bytes) (hv : ethValid b = true) :
    ∃ vs, ethAccess b = some vs ∧ ∀ x ∈ vs, x.inBounds b.length = true := by
  simp only [ethValid, Bool.and_eq_true, decide_eq_true_eq] at hv
  obtain ⟨⟨h6, _⟩, hn⟩ := hv
  refine ⟨[dataView "data" 6 (beAt b 4 2)], ?_, ?_⟩
  · simp [ethAccess, rd_ok b 0 6 (by omega), rd_ok b 4 2 (by omega)]
  · intro x hx
    simp only [List.mem_singleton] at hx
    subst hx
    exact dataView_inb _ _ _ _ (Or.inr (by omega))

theorem analog_inb (b : Bytes) (hv : analogValid b = true) :
    ∃ vs, analogAccess b = some vs ∧ ∀ x ∈ vs, x.inBounds b.length = true := by
  simp only [analogValid, Bool.and_eq_true, decide_eq_true_eq] at hv
  obtain ⟨h16, _⟩ := hv
  have hacc : analogAccess b = some [⟨"samples",
      if ((b.length - 16) / if beAt b 1 1 &&& 3 = 0 then 2 else 4) = 0 then none else some 16,
      ((b.length - 16) / if beAt b 1 1 &&& 3 = 0 then 2 else 4) * if beAt b 1 1 &&& 3 = 0 then 2 else 4⟩] := by
    simp only [analogAccess, rd_ok b 0 16 (by omega), rd_ok b 1 1 (by omega), bind, Option.bind, pure]
  refine ⟨_, hacc, ?_⟩
  intro x hx
  simp only [List.mem_singleton] at hx
  subst hx
  have hdiv := Nat.div_mul_le_self (b.length - 16) (if beAt b 1 1 &&& 3 = 0 then 2 else 4)
  generalize (if beAt b 1 1 &&& 3 = 0 then 2 else 4) = w at hdiv ⊢
  simp only [View.inBounds]
  by_cases hc : (b.length - 16) / w = 0
  · simp [hc]
  · simp only [hc, if_false, decide_eq_true_eq]
    omega

theorem cm_inb (b : Bytes) (hv : cmValid b = true) :
    ∃ vs, cmAccess b = some vs ∧ ∀ x ∈ vs, x.inBounds b.length = true := by
  simp only [cmValid, Bool.and_eq_true, decide_eq_true_eq] at hv
  obtain ⟨h26, hb⟩ := hv
  -- block 1
  obtain ⟨hb1, hb⟩ := (blocksOk_drop 4 b 26).mp hb
  have e1 := cmBlock_ok b 26 (by omega)
  generalize beAt b 26 2 = l1 at hb1 hb e1
  obtain ⟨t1, ht1, hle1⟩ := trimNul_ok b (26 + 2) l1 hb1
  -- block 2
  obtain ⟨hb2, hb⟩ := (blocksOk_drop 3 b _).mp hb
  have e2 := cmBlock_ok b (26 + 2 + l1) (by omega)
  generalize beAt b (26 + 2 + l1) 2 = l2 at hb2 hb e2
  obtain ⟨t2, ht2, hle2⟩ := trimNul_ok b (26 + 2 + l1 + 2) l2 hb2
  -- block 3
  obtain ⟨hb3, hb⟩ := (blocksOk_drop 2 b _).mp hb
  have e3 := cmBlock_ok b (26 + 2 + l1 + 2 + l2) (by omega)
  generalize beAt b (26 + 2 + l1 + 2 + l2) 2 = l3 at hb3 hb e3
  obtain ⟨t3, ht3, hle3⟩ := trimNul_ok b (26 + 2 + l1 + 2 + l2 + 2) l3 hb3
  -- block 4
  obtain ⟨hb4, hb⟩ := (blocksOk_drop 1 b _).mp hb
  have e4 := cmBlock_ok b (26 + 2 + l1 + 2 + l2 + 2 + l3) (by omega)
  generalize beAt b (26 + 2 + l1 + 2 + l2 + 2 + l3) 2 = l4 at hb4 hb e4
  obtain ⟨t4, ht4, hle4⟩ := trimNul_ok b (26 + 2 + l1 + 2 + l2 + 2 + l3 + 2) l4 hb4
  -- block 5
  obtain ⟨hb5, _⟩ := (blocksOk_drop 0 b _).mp hb
  have e5 := cmBlock_ok b (26 + 2 + l1 + 2 + l2 + 2 + l3 + 2 + l4) (by omega)
  generalize beAt b (26 + 2 + l1 + 2 + l2 + 2 + l3 + 2 + l4) 2 = l5 at hb5 e5
  have hacc : cmAccess b = some
      [⟨"deviceDescription", some (26 + 2), t1⟩, ⟨"serialNumber", some (26 + 2 + l1 + 2), t2⟩,
       ⟨"hardwareVersion", some (26 + 2 + l1 + 2 + l2 + 2), t3⟩,
       ⟨"softwareVersion", some (26 + 2 + l1 + 2 + l2 + 2 + l3 + 2), t4⟩,
       ⟨"vendorData", some (26 + 2 + l1 + 2 + l2 + 2 + l3 + 2 + l4 + 2), l5⟩] := by
    simp only [cmAccess, rd_ok b 0 26 (by omega), bind, Option.bind, pure, e1, ht1, e2, ht2, e3, ht3,
      e4, ht4, e5]
  refine ⟨_, hacc, ?_⟩
  intro x hx
  simp only [List.mem_cons, List.not_mem_nil, or_false] at hx
  rcases hx with rfl | rfl | rfl | rfl | rfl <;> simp only [View.inBounds, decide_eq_true_eq] <;> omega

theorem if_inb (b : Bytes) (hv : ifValid b = true) :
    ∃ vs, ifAccess b = some vs ∧ ∀ x ∈ vs, x.inBounds b.length = true := by
  simp only [ifValid, Bool.and_eq_true, decide_eq_true_eq] at hv
  obtain ⟨⟨h40, _⟩, hc, hvl⟩ := hv
  have hc16 := beAt_two_lt b 36
  generalize hcdef : beAt b 36 2 = c at hc hvl hc16
  have hvpos : 38 + (c + c % 2) + 2 ≤ b.length := by omega
  have hacc : ifAccess b = some [dataView "streamIds" 38 c,
      dataView "vendorData" (38 + (c + c % 2) + 2) (beAt b (38 + (c + c % 2)) 2)] := by
    simp only [ifAccess, rd_ok b 0 36 (by omega), rd_ok b 36 2 (by omega), hcdef, bind, Option.bind, pure,
      rd_ok b _ 2 hvpos]
  refine ⟨_, hacc, ?_⟩
  intro x hx
  simp only [List.mem_cons, List.not_mem_nil, or_false] at hx
  rcases hx with rfl | rfl
  · exact dataView_inb _ _ _ _ (Or.inr (by omega))
  · apply dataView_inb
    right
    omega

/-! ### every delivered packet's payload comes out of `Packet::create` -/

def FromCreate (p : Packet) : Prop := ∃ ty d, p.payload = some (create ty d)

theorem ofMsg_fromCreate (ep : Ep) (ver mt : Nat) (m : Bytes) :
    FromCreate (tagPacket ep ver (Packet.ofMsg mt m)) :=
  ⟨_, _, rfl⟩

theorem walk_payload (ep : Ep) (ver mt : Nat) (r : Bytes) :
    ∀ p ∈ (walk ep ver mt r).1, FromCreate p := by
  fun_induction walk ep ver mt r with
  | case1 r h0 => simp
  | case2 r h0 h1 => simp
  | case3 r h0 h1 len h2 => simp
  | case4 r h0 h1 len h2 p rest ih =>
    intro x hx
    simp only [List.mem_cons] at hx
    rcases hx with hx | hx
    · subst hx; exact ofMsg_fromCreate _ _ _ _
    · exact ih x hx

theorem localStep_payload (q : Option Pending) (f : PFrame) (hu : ∀ p ∈ f.unseg, FromCreate p) :
    ∀ p ∈ (localStep q f).2, FromCreate p := by
  intro p hp
  unfold localStep at hp
  split at hp
  · exact hu p hp
  · exact hu p hp
  · dsimp only at hp
    split at hp
    · exact hu p hp
    · split at hp
      · exact hu p hp
      · split at hp
        · split at hp
          · simp only [List.mem_append, List.mem_singleton] at hp
            rcases hp with hp | hp
            · exact hu p hp
            · subst hp; exact ofMsg_fromCreate _ _ _ _
          · exact hu p hp
        · exact hu p hp

theorem step_payload (s : DecState) (buf : Bytes) :
    ∀ p ∈ (step s (parseFrame buf)).2, FromCreate p := by
  intro p hp
  exact localStep_payload _ _ (walk_payload _ _ _ _) p hp

end AsamCmp.C03
