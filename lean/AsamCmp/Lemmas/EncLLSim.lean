/-
  C07b helper lemmas, part 2: the simulation relation between the structured encoder state and the
  low-level one, and the step lemmas for closing a frame, opening a frame and adding a message.
-/
import AsamCmp.Lemmas.EncLLBytes
import AsamCmp.Lemmas.EncStruct
import AsamCmp.Props.C07
namespace AsamCmp.C07b
open AsamCmp

/-- used part of a frame under construction: header and messages -/
def preBytes (f : EFrame) : Bytes :=
  frameHeader f.ver f.dev f.mt f.stream f.seq ++ f.msgs.flatMap EMsg.bytes

theorem preBytes_length (f : EFrame) : (preBytes f).length = 8 + f.used := raw_length f

/-- the frame being filled, as allocated: used part, then zeros up to `max` -/
def openBytes (c : Ctx) (f : EFrame) : Bytes := preBytes f ++ zeros (c.cap - f.used)

theorem bytes_eq_pre (min : Nat) (f : EFrame) :
    EFrame.bytes min f = preBytes f ++ zeros (min - (preBytes f).length) := rfl

theorem used_zero_iff (f : EFrame) : f.used = 0 ↔ f.msgs = [] := by
  unfold EFrame.used
  cases f.msgs with
  | nil => simp
  | cons m ms => simp [EMsg.size]

theorem used_pos (f : EFrame) (h : f.msgs ≠ []) : 16 ≤ f.used := by
  unfold EFrame.used
  cases hm : f.msgs with
  | nil => exact absurd hm h
  | cons m ms => simp [EMsg.size]; omega

/-- simulation relation -/
structure R (c : Ctx) (s : Enc) (l : EncLL) : Prop where
  min : l.min = c.min
  max : l.max = c.max
  dev : l.dev = s.dev
  stream : l.stream = s.stream
  seqc : l.seqc = s.seqc
  mt : l.mt = s.curMt
  tmplN : s.tmpl = none → l.tmpl = []
  tmplS : ∀ t, s.tmpl = some t → ∃ σ, l.tmpl = frameHeader t.1 s.dev t.2 s.stream σ ++ zeros (c.max - 8)
  frames : l.frames = s.closed.map (EFrame.bytes c.min) ++
    (match s.cur with | none => [] | some f => [openBytes c f])
  left : ∀ f, s.cur = some f → l.bytesLeft = c.cap - f.used ∧ f.used ≤ c.cap

/-- between the steps: without an open frame nothing has been closed yet -/
def NoneNil (s : Enc) : Prop := s.cur = none → s.closed = []

theorem ok_facts {c : Ctx} (hc : c.ok = true) : 17 ≤ c.cap ∧ c.cap + 8 = c.max ∧ c.min ≤ c.max :=
  Ctx.ok_cap hc

/-! ### closing the last frame -/

theorem closeLast_R {c : Ctx} (hc : c.ok = true) {s : Enc} {l : EncLL} (h : R c s l) (hn : NoneNil s) :
    R c s.closeLast l.closeLastFrame := by
  obtain ⟨hcap, hmax, hmin⟩ := ok_facts hc
  cases hcur : s.cur with
  | none =>
    have hcl := hn hcur
    have hfr : l.frames = [] := by rw [h.frames, hcl, hcur]; rfl
    have e1 : s.closeLast = s := by simp [Enc.closeLast, hcur]
    have e2 : l.closeLastFrame = l := by simp [EncLL.closeLastFrame, hfr]
    rw [e1, e2]; exact h
  | some f =>
    obtain ⟨hbl, hu⟩ := h.left f hcur
    have hfr : l.frames = s.closed.map (EFrame.bytes c.min) ++ [openBytes c f] := by
      rw [h.frames, hcur]
    have hlast : l.frames.getLast? = some (openBytes c f) := by rw [hfr, List.getLast?_concat]
    by_cases hm : f.msgs = []
    · have hu0 : f.used = 0 := (used_zero_iff f).mpr hm
      have e1 : s.closeLast = { s with cur := none, seqc := (s.seqc + 65535) % 65536 } := by
        simp [Enc.closeLast, hcur, hm]
      have hb : l.bytesLeft = l.max - 8 := by rw [hbl, hu0, h.max]; omega
      have e2 : l.closeLastFrame =
          { l with frames := l.frames.dropLast, seqc := (l.seqc + 65535) % 65536 } := by
        simp [EncLL.closeLastFrame, hlast, hb]
      rw [e1, e2]
      refine ⟨h.min, h.max, h.dev, h.stream, by simp [h.seqc], h.mt, h.tmplN, h.tmplS, ?_, ?_⟩
      · simp [hfr]
      · intro g hg; simp at hg
    · have hu16 := used_pos f hm
      have e1 : s.closeLast = { s with closed := s.closed ++ [f], cur := none } := by
        simp [Enc.closeLast, hcur, hm]
      have hb : ¬ l.bytesLeft = l.max - 8 := by rw [hbl, h.max]; omega
      have hres : resize (openBytes c f) (Nat.max ((openBytes c f).length - l.bytesLeft) l.min) =
          EFrame.bytes c.min f := by
        rw [hbl, h.min, bytes_eq_pre]
        exact resize_eq (preBytes f) (c.cap - f.used) c.min (by rw [preBytes_length]; omega)
      have e2 : l.closeLastFrame = l.setLast (EFrame.bytes c.min f) := by
        simp [EncLL.closeLastFrame, hlast, hb, hres]
      rw [e1, e2]
      refine ⟨h.min, h.max, h.dev, h.stream, h.seqc, h.mt, h.tmplN, h.tmplS, ?_, ?_⟩
      · simp [EncLL.setLast, hfr]
      · intro g hg; simp at hg

/-! ### opening a frame -/

/-- `addNewCMPFrame` behind its `closeLastFrame` -/
def llOpen (l : EncLL) (p : Packet) : EncLL :=
  let s := if l.tmpl.isEmpty then { l with tmpl := l.createTemplate p } else l
  let q := (s.seqc + 1) % 65536
  { s with frames := s.frames ++ [writeAt s.tmpl 6 (beEnc 2 q)], seqc := q, bytesLeft := s.max - 8 }

theorem addNewCMPFrame_eq (l : EncLL) (p : Packet) : l.addNewCMPFrame p = llOpen l.closeLastFrame p := rfl

/-- `addNew` behind its `closeLast` -/
def sOpen (s : Enc) (p : Packet) : Enc :=
  let t := s.tmpl.getD (p.version % 256, p.mt)
  let q := (s.seqc + 1) % 65536
  { s with tmpl := some t, seqc := q, cur := some ⟨t.1, s.dev, t.2, s.stream, q, []⟩ }

theorem addNew_eq (s : Enc) (p : Packet) : s.addNew p = sOpen s.closeLast p := rfl

theorem open_R {c : Ctx} (hc : c.ok = true) {s : Enc} {l : EncLL} (p : Packet) (h : R c s l)
    (hcur : s.cur = none) : R c (sOpen s p) (llOpen l p) := by
  obtain ⟨hcap, hmax, hmin⟩ := ok_facts hc
  have hfr : l.frames = s.closed.map (EFrame.bytes c.min) := by rw [h.frames, hcur]; simp
  -- the template after the `isEmpty` check
  have htm : ∃ σ, (if l.tmpl.isEmpty then { l with tmpl := l.createTemplate p } else l).tmpl =
      frameHeader (s.tmpl.getD (p.version % 256, p.mt)).1 s.dev (s.tmpl.getD (p.version % 256, p.mt)).2
        s.stream σ ++ zeros (c.max - 8) := by
    cases ht : s.tmpl with
    | none =>
      have := h.tmplN ht
      refine ⟨p.seq, ?_⟩
      simp only [this, List.isEmpty_nil, if_true, Option.getD_none]
      unfold EncLL.createTemplate
      simp only
      rw [h.max, h.dev, h.stream]
      exact template_eq c.max s.dev s.stream p (by omega)
    | some t =>
      obtain ⟨σ, hσ⟩ := h.tmplS t ht
      refine ⟨σ, ?_⟩
      have hne : l.tmpl.isEmpty = false := by
        rw [hσ]; simp [frameHeader]
      simp only [hne, Bool.false_eq_true, if_false, Option.getD_some]
      exact hσ
  obtain ⟨σ, hσ⟩ := htm
  have hother : ∀ (x : EncLL), (if l.tmpl.isEmpty then { l with tmpl := l.createTemplate p } else l) = x →
      x.min = l.min ∧ x.max = l.max ∧ x.dev = l.dev ∧ x.stream = l.stream ∧ x.seqc = l.seqc ∧ x.mt = l.mt ∧
      x.frames = l.frames := by
    intro x hx
    subst hx
    split <;> simp
  generalize hl2 : (if l.tmpl.isEmpty then { l with tmpl := l.createTemplate p } else l) = l2 at hσ
  obtain ⟨o1, o2, o3, o4, o5, o6, o7⟩ := hother l2 hl2
  unfold llOpen sOpen
  simp only [hl2]
  refine ⟨by simp [o1, h.min], by simp [o2, h.max], by simp [o3, h.dev], by simp [o4, h.stream],
    by simp [o5, h.seqc], by simp [o6, h.mt], by simp, ?_, ?_, ?_⟩
  · intro t ht
    simp only [Option.some.injEq] at ht
    subst ht
    exact ⟨σ, hσ⟩
  · simp only [o7, hfr, hσ, counter_write, o5, h.seqc]
    congr 2
    all_goals simp [openBytes, preBytes, EFrame.used]
  · intro g hg
    simp only [Option.some.injEq] at hg
    subst hg
    simp [EFrame.used, o2, h.max]; omega

theorem addNew_R {c : Ctx} (hc : c.ok = true) {s : Enc} {l : EncLL} (p : Packet) (h : R c s l)
    (hn : NoneNil s) : R c (s.addNew p) (l.addNewCMPFrame p) := by
  rw [addNew_eq, addNewCMPFrame_eq]
  exact open_R hc p (closeLast_R hc h hn) (Enc.closeLast_cur s)

theorem addNew_noneNil (s : Enc) (p : Packet) : NoneNil (s.addNew p) := by
  intro h
  obtain ⟨q, hq⟩ := Enc.addNew_cur s p
  rw [hq] at h
  cases h

/-! ### adding a message -/

/-- header write, payload copy and the `bytesLeft` update of one loop iteration -/
def llAdd (l : EncLL) (p : Packet) (n seg pos : Nat) : EncLL :=
  let s := l.addNewDataHeader p n seg
  let s :=
    match s.frames.getLast? with
    | none => s
    | some f => s.setLast (writeAt f (f.length - s.bytesLeft) (slice p.data pos n))
  { s with bytesLeft := s.bytesLeft - n }

theorem add_R {c : Ctx} {s : Enc} {l : EncLL} (h : R c s l) {f : EFrame} (hcur : s.cur = some f)
    (i : Nat) (p : Packet) (n seg pos : Nat) (hfit : 16 + n ≤ c.cap - f.used)
    (hlen : (slice p.data pos n).length = n) :
    R c (s.add ⟨i, p, seg, slice p.data pos n⟩) (llAdd l p n seg pos) := by
  obtain ⟨hbl, hu⟩ := h.left f hcur
  have hfr : l.frames = s.closed.map (EFrame.bytes c.min) ++ [openBytes c f] := by
    rw [h.frames, hcur]
  have hlast : l.frames.getLast? = some (openBytes c f) := by rw [hfr, List.getLast?_concat]
  have hpos : (openBytes c f).length - l.bytesLeft = (preBytes f).length := by
    rw [hbl]; simp [openBytes]
  -- the header write
  have e1 : l.addNewDataHeader p n seg =
      { (l.setLast (preBytes f ++ msgHeader p seg n ++ zeros (c.cap - f.used - 16))) with
        bytesLeft := l.bytesLeft - 16 } := by
    unfold EncLL.addNewDataHeader
    rw [hlast]
    simp only
    rw [header_eq p n seg, hpos]
    unfold openBytes
    rw [writeAt_tail]
    simp
  -- the payload copy
  have hlast2 : ({ (l.setLast (preBytes f ++ msgHeader p seg n ++ zeros (c.cap - f.used - 16))) with
        bytesLeft := l.bytesLeft - 16 } : EncLL).frames.getLast? =
      some (preBytes f ++ msgHeader p seg n ++ zeros (c.cap - f.used - 16)) := by
    simp [EncLL.setLast]
  have hpos2 : (preBytes f ++ msgHeader p seg n ++ zeros (c.cap - f.used - 16)).length - (l.bytesLeft - 16) =
      (preBytes f ++ msgHeader p seg n).length := by
    rw [hbl]; simp; omega
  have e2 : llAdd l p n seg pos =
      { (l.setLast (preBytes f ++ msgHeader p seg n ++ slice p.data pos n ++
          zeros (c.cap - f.used - 16 - n))) with bytesLeft := l.bytesLeft - 16 - n } := by
    unfold llAdd
    simp only [e1, hlast2, hpos2]
    rw [writeAt_tail, hlen]
    simp [EncLL.setLast]
  rw [e2, Enc.add_some s _ f hcur]
  refine ⟨h.min, h.max, h.dev, h.stream, h.seqc, h.mt, h.tmplN, h.tmplS, ?_, ?_⟩
  · simp only [EncLL.setLast, hfr, List.dropLast_concat]
    congr 2
    simp only [openBytes, preBytes, EFrame.used, List.flatMap_append, List.flatMap_cons, List.flatMap_nil,
      List.append_nil, EMsg.bytes, hlen, List.map_append, List.map_cons, List.map_nil, List.sum_append,
      List.sum_cons, List.sum_nil, EMsg.size, List.append_assoc]
    congr 5
    unfold EFrame.used at hfit hu
    omega
  · intro g hg
    simp only [Option.some.injEq] at hg
    subst hg
    simp only [EFrame.used, List.map_append, List.map_cons, List.map_nil, List.sum_append, List.sum_cons,
      List.sum_nil, EMsg.size, hlen]
    unfold EFrame.used at hfit hu hbl
    omega

theorem add_noneNil (s : Enc) (m : EMsg) (h : s.cur.isSome) : NoneNil (s.add m) := by
  intro hc
  cases hcur : s.cur with
  | none => simp [hcur] at h
  | some f => rw [Enc.add_some s m f hcur] at hc; cases hc

end AsamCmp.C07b
