/-
  Helper lemmas for the byte-level lifts of C05 / C17 (`Props/C05b.lean`).  Stated over plain
  bytes: the segment header is given by its four fields, segments by a generic element type.
-/
import AsamCmp.Tecmp
import AsamCmp.Props.C05
import AsamCmp.Props.C17
import AsamCmp.Lemmas.LayerB
import AsamCmp.Lemmas.Builders
import AsamCmp.Lemmas.TecmpWire
import AsamCmp.Lemmas.WalkBytes
import AsamCmp.Lemmas.Wire
import AsamCmp.Lemmas.RoundTrip
namespace AsamCmp.C05b
open AsamCmp

/-! ### the 16-byte message header of a segment -/

/-- timestamp u64 @0, id word u32 @8, flags u8 @12, payload type u8 @13, payload length u16 @14 -/
def segHdrBytes (ts idw flags ptype len : Nat) : Bytes :=
  beEnc 8 ts ++ beEnc 4 idw ++ [UInt8.ofNat flags, UInt8.ofNat ptype] ++ beEnc 2 len

theorem segHdr_length (ts idw flags ptype len : Nat) : (segHdrBytes ts idw flags ptype len).length = 16 := by
  simp [segHdrBytes]

theorem segHdr_len (ts idw flags ptype len : Nat) (rest : Bytes) :
    beAt (segHdrBytes ts idw flags ptype len ++ rest) 14 2 = len % 65536 := by
  rw [C15.beAt_append_left _ _ _ _ (by rw [segHdr_length]; omega)]
  unfold segHdrBytes
  exact C15.beAt_at_end _ 14 2 len (by simp)

theorem segHdr_ts (ts idw flags ptype len : Nat) (rest : Bytes) :
    beAt (segHdrBytes ts idw flags ptype len ++ rest) 0 8 = ts % 2 ^ 64 := by
  rw [C15.beAt_append_left _ _ _ _ (by rw [segHdr_length]; omega)]
  unfold segHdrBytes
  iterate 3 rw [C15.beAt_append_left _ _ _ _ (by simp)]
  have := C15.beAt_at_end [] 0 8 ts rfl
  rwa [List.nil_append] at this

theorem segHdr_idw (ts idw flags ptype len : Nat) (rest : Bytes) :
    beAt (segHdrBytes ts idw flags ptype len ++ rest) 8 4 = idw % 2 ^ 32 := by
  rw [C15.beAt_append_left _ _ _ _ (by rw [segHdr_length]; omega)]
  unfold segHdrBytes
  iterate 2 rw [C15.beAt_append_left _ _ _ _ (by simp)]
  exact C15.beAt_at_end _ 8 4 idw (by simp)

theorem segHdr_idw_low (ts idw flags ptype len : Nat) (rest : Bytes) :
    beAt (segHdrBytes ts idw flags ptype len ++ rest) 10 2 = idw % 65536 := by
  rw [C15.beAt_append_left _ _ _ _ (by rw [segHdr_length]; omega)]
  unfold segHdrBytes
  iterate 2 rw [C15.beAt_append_left _ _ _ _ (by simp)]
  rw [C04.beEnc4_split, ← List.append_assoc]
  exact C15.beAt_at_end _ 10 2 idw (by simp)

theorem segHdr_flags (ts idw flags ptype len : Nat) (rest : Bytes) :
    byteAt (segHdrBytes ts idw flags ptype len ++ rest) 12 = flags % 256 := by
  have e : segHdrBytes ts idw flags ptype len ++ rest =
      (beEnc 8 ts ++ beEnc 4 idw) ++ (UInt8.ofNat flags :: ([UInt8.ofNat ptype] ++ beEnc 2 len ++ rest)) := by
    simp [segHdrBytes]
  rw [e, C13.byteAt_at _ _ _ 12 (by simp)]
  simp

theorem segHdr_ptype (ts idw flags ptype len : Nat) (rest : Bytes) :
    byteAt (segHdrBytes ts idw flags ptype len ++ rest) 13 = ptype % 256 := by
  have e : segHdrBytes ts idw flags ptype len ++ rest =
      (beEnc 8 ts ++ beEnc 4 idw ++ [UInt8.ofNat flags]) ++ (UInt8.ofNat ptype :: (beEnc 2 len ++ rest)) := by
    simp [segHdrBytes]
  rw [e, C13.byteAt_at _ _ _ 13 (by simp)]
  simp

/-- rewriting the length field of a segment header gives the header with the new length -/
theorem segHdr_writeLen (ts idw flags ptype len n : Nat) :
    writeAt (segHdrBytes ts idw flags ptype len) 14 (beEnc 2 n) = segHdrBytes ts idw flags ptype n := by
  rw [writeAt_hdr _ _ (segHdr_length ..) (beEnc_length 2 n)]
  unfold segHdrBytes
  rw [List.take_left' (by simp)]

theorem segTypeOf_segHdr (ts idw flags ptype len : Nat) (hf : flags < 256) :
    segTypeOf (segHdrBytes ts idw flags ptype len) = flags &&& 0x0C := by
  have := segHdr_flags ts idw flags ptype len []
  rw [List.append_nil] at this
  rw [segTypeOf, this, Nat.mod_eq_of_lt hf]

/-! ### the message walk stops at a segment and cuts it at its declared length -/

theorem walk_segment (ep : Ep) (ver mt ts idw flags ptype : Nat) (body trail : Bytes)
    (hf : flags < 256) (herr : flags &&& 0x40 = 0) (hseg : flags &&& 0x0C ≠ 0)
    (hp : 1 ≤ ptype ∧ ptype < 256) (hb : body.length < 65536) :
    walk ep ver mt (segHdrBytes ts idw flags ptype body.length ++ body ++ trail) =
      ([], .seg (segHdrBytes ts idw flags ptype body.length ++ body)) := by
  have hlen : (segHdrBytes ts idw flags ptype body.length ++ body ++ trail).length =
      16 + body.length + trail.length := by
    simp only [List.length_append, segHdr_length]
  have h14 : beAt (segHdrBytes ts idw flags ptype body.length ++ body ++ trail) 14 2 = body.length := by
    rw [List.append_assoc, segHdr_len, Nat.mod_eq_of_lt hb]
  have h12 : byteAt (segHdrBytes ts idw flags ptype body.length ++ body ++ trail) 12 = flags := by
    rw [List.append_assoc, segHdr_flags, Nat.mod_eq_of_lt hf]
  have h13 : byteAt (segHdrBytes ts idw flags ptype body.length ++ body ++ trail) 13 = ptype := by
    rw [List.append_assoc, segHdr_ptype, Nat.mod_eq_of_lt hp.2]
  have hvalid : msgValid (segHdrBytes ts idw flags ptype body.length ++ body ++ trail) = true := by
    simp only [msgValid, hlen, h14, h12, h13, herr, Bool.and_eq_true, decide_eq_true_eq, beq_iff_eq,
      bne_iff_ne, ne_eq]
    exact ⟨⟨⟨by omega, by omega⟩, trivial⟩, by omega⟩
  have htake : (segHdrBytes ts idw flags ptype body.length ++ body ++ trail).take (16 + body.length) =
      segHdrBytes ts idw flags ptype body.length ++ body :=
    List.take_left' (by simp only [List.length_append, segHdr_length])
  rw [walk]
  rw [dif_neg (by rw [hlen]; omega)]
  simp only [hvalid, h14, h12, htake]
  simp [hseg]

/-- a frame holding one segment (and anything behind it) parses to that segment -/
theorem parse_segment (ver dev mt stream seq ts idw flags ptype : Nat) (body trail : Bytes)
    (hv : ver < 256) (hd : dev < 65536) (hm : mt < 256) (hs : stream < 256) (hq : seq < 65536)
    (hf : flags < 256) (herr : flags &&& 0x40 = 0) (hseg : flags &&& 0x0C ≠ 0)
    (hp : 1 ≤ ptype ∧ ptype < 256) (hb : body.length < 65536) :
    parseFrame (frameHeader ver dev mt stream seq ++ segHdrBytes ts idw flags ptype body.length ++ body ++ trail) =
      { ep := (dev, stream), ver := ver, mt := mt, seq := seq, unseg := [],
        term := .seg (segHdrBytes ts idw flags ptype body.length ++ body) } := by
  have e : frameHeader ver dev mt stream seq ++ segHdrBytes ts idw flags ptype body.length ++ body ++ trail =
      frameHeader ver dev mt stream seq ++ (segHdrBytes ts idw flags ptype body.length ++ body ++ trail) := by
    simp only [List.append_assoc]
  obtain ⟨f0, f2, f4, f5, f6, f8⟩ := C01.parse_fields ver dev mt stream seq
    (segHdrBytes ts idw flags ptype body.length ++ body ++ trail)
  rw [e]
  unfold parseFrame
  simp only [f0, f2, f4, f5, f6, f8, Nat.mod_eq_of_lt hv, Nat.mod_eq_of_lt hd, Nat.mod_eq_of_lt hm,
    Nat.mod_eq_of_lt hs, Nat.mod_eq_of_lt hq,
    walk_segment (dev, stream) ver mt ts idw flags ptype body trail hf herr hseg hp hb]

/-- such a frame is a capture-module frame for `decodeWith` -/
theorem segment_is_frame (ver dev mt stream seq ts idw flags ptype : Nat) (body trail : Bytes)
    (hv : 1 ≤ ver ∧ ver < 256) :
    8 ≤ (frameHeader ver dev mt stream seq ++ segHdrBytes ts idw flags ptype body.length ++ body ++ trail).length ∧
    byteAt (frameHeader ver dev mt stream seq ++ segHdrBytes ts idw flags ptype body.length ++ body ++ trail) 0 ≠ 0 := by
  have e : frameHeader ver dev mt stream seq ++ segHdrBytes ts idw flags ptype body.length ++ body ++ trail =
      frameHeader ver dev mt stream seq ++ (segHdrBytes ts idw flags ptype body.length ++ body ++ trail) := by
    simp only [List.append_assoc]
  obtain ⟨f0, _⟩ := C01.parse_fields ver dev mt stream seq
    (segHdrBytes ts idw flags ptype body.length ++ body ++ trail)
  rw [e]
  refine ⟨by rw [List.length_append, frameHeader_length]; omega, ?_⟩
  rw [f0, Nat.mod_eq_of_lt hv.2]
  omega

/-! ### from buffers to the single-endpoint automaton -/

theorem frames_ep (M : SegMsg) : ∀ f ∈ M.frames, f.ep = M.ep := by
  intro f hf
  unfold SegMsg.frames at hf
  simp only [List.mem_map] at hf
  obtain ⟨⟨i, s⟩, _, rfl⟩ := hf
  rfl

/-- if the buffers parse to the frames of `M`, decoding them from any state delivers nothing before
    the last buffer and exactly `M.expected` at the last one, leaving nothing pending -/
theorem single_lift (M : SegMsg) (hwf : M.WF) (hlen : M.body.length ≤ 65535) (d : DecState)
    (bs : List Bytes) (hfr : ∀ b ∈ bs, 8 ≤ b.length ∧ byteAt b 0 ≠ 0)
    (hparse : bs.map parseFrame = M.frames) :
    (decodeAll tecmpDecode d (bs.map some)).1 M.ep = none ∧
    (decodeAll tecmpDecode d (bs.map some).dropLast).2 = [] ∧
    (decodeAll tecmpDecode d (bs.map some)).2 = [M.expected] := by
  obtain ⟨h1, h2⟩ := reassemble_single M hwf hlen (d M.ep)
  have hrun := C01.run_local_ep M.ep M.frames d (frames_ep M)
  rw [h1] at hrun
  have hdl : (bs.map some).dropLast = bs.dropLast.map some := by
    rw [List.map_dropLast]
  have hpd : bs.dropLast.map parseFrame = M.frames.dropLast := by
    rw [← hparse, List.map_dropLast]
  have hrun2 := C01.run_local_ep M.ep M.frames.dropLast d
    (fun f hf => frames_ep M f (List.dropLast_subset _ hf))
  rw [C01.decodeAll_run tecmpDecode bs d hfr, hparse, hdl,
    C01.decodeAll_run tecmpDecode bs.dropLast d (fun b hb => hfr b (List.dropLast_subset _ hb)), hpd]
  refine ⟨congrArg Prod.fst hrun, ?_, congrArg Prod.snd hrun⟩
  rw [← h2]
  exact congrArg Prod.snd hrun2

/-! ### the delivered packet, field by field -/

theorem segHdr_body (ts idw flags ptype len : Nat) (body : Bytes) :
    slice (segHdrBytes ts idw flags ptype len ++ body) 16 body.length = body := by
  have := C13.slice_at (segHdrBytes ts idw flags ptype len) body [] 16 body.length (segHdr_length ..) rfl
  rwa [List.append_nil] at this

theorem expected_fields (M : SegMsg) (ts idw flags ptype len0 : Nat)
    (hfirst : M.first.1 = segHdrBytes ts idw flags ptype len0)
    (hts : ts < 2 ^ 64) (hidw : idw < 2 ^ 32) (hf : flags < 256) (hp : ptype < 256)
    (hlen : M.body.length ≤ 65535) :
    M.expected =
      { payload := some (create (M.mt * 256 + ptype) M.body), version := M.ver, deviceId := M.ep.1,
        streamId := M.ep.2, seq := 0, ts := ts, ifId := if M.mt = 1 then idw else 0,
        vendorId := if M.mt = 3 ∨ M.mt = 0xFF then idw % 65536 else 0, flags := flags, segType := 0 } := by
  have hmod : M.body.length % 65536 = M.body.length := by omega
  unfold SegMsg.expected
  rw [hfirst, segHdr_writeLen]
  simp only [tagPacket, Packet.ofMsg, segHdr_ts, segHdr_idw, segHdr_idw_low, segHdr_flags, segHdr_ptype,
    segHdr_len, hmod, segHdr_body, Nat.mod_eq_of_lt hts, Nat.mod_eq_of_lt hidw, Nat.mod_eq_of_lt hf,
    Nat.mod_eq_of_lt hp]

/-! ### buffers of a message parse to `SegMsg.frames` -/

theorem zip_range_map_aux {α β : Type} (f : α → β) : ∀ (l : List α) (k : Nat),
    (List.range' k (l.map f).length).zip (l.map f) =
      ((List.range' k l.length).zip l).map (fun (p : Nat × α) => (p.1, f p.2)) := by
  intro l
  induction l with
  | nil => intro k; rfl
  | cons x xs ih =>
    intro k
    simp only [List.map_cons, List.length_cons, List.range'_succ, List.zip_cons_cons, ih]

/-- segments of an arbitrary type `α` with header `hdr`, declared bytes `body` and wire frame
    `frame i x` (the `i`-th frame): if every frame parses to its segment, the buffers of
    `first :: middle ++ [last]` parse to the frames of the corresponding `SegMsg` -/
theorem frames_of_parse {α : Type} (ep : Ep) (ver mt seq0 : Nat) (hdr body : α → Bytes)
    (frame : Nat → α → Bytes) (first : α) (middle : List α) (last : α)
    (hp : ∀ i, ∀ x ∈ first :: (middle ++ [last]), parseFrame (frame i x) =
      { ep := ep, ver := ver, mt := mt, seq := (seq0 + i) % 65536, unseg := [],
        term := .seg (hdr x ++ body x) }) :
    (((List.range (first :: (middle ++ [last])).length).zip (first :: (middle ++ [last]))).map
        (fun (p : Nat × α) => frame p.1 p.2)).map parseFrame =
      SegMsg.frames ⟨ep, ver, mt, seq0, (hdr first, body first),
        middle.map (fun x => (hdr x, body x)), (hdr last, body last)⟩ := by
  have hsegs : SegMsg.segs ⟨ep, ver, mt, seq0, (hdr first, body first),
        middle.map (fun x => (hdr x, body x)), (hdr last, body last)⟩ =
      (first :: (middle ++ [last])).map (fun x => (hdr x, body x)) := by
    simp [SegMsg.segs]
  unfold SegMsg.frames
  rw [hsegs, List.range_eq_range', List.range_eq_range', zip_range_map_aux, List.map_map, List.map_map]
  apply List.map_congr_left
  intro ⟨i, x⟩ hx
  have hmem : x ∈ first :: (middle ++ [last]) := (List.of_mem_zip hx).2
  simp only [Function.comp, hp i x hmem]

end AsamCmp.C05b
