/-
  Structural lemmas about the encoder model: chunking, the messages a packet contributes
  (`pieces`), the fold invariants (per-frame well-formedness, greedy fill) and their
  translation to the Bool predicates `P_C07` / `P_C08`.
-/
import AsamCmp.Tile
import AsamCmp.Lemmas.TileBytes
namespace AsamCmp

/-! ### chunks -/

theorem chunks_nil (n : Nat) : chunks n [] = [] := by
  rw [chunks]; simp

theorem chunks_cons (n : Nat) (l : Bytes) (hn : 0 < n) (hl : l ≠ []) :
    chunks n l = l.take n :: chunks n (l.drop n) := by
  rw [chunks]
  have : ¬ (n = 0 ∨ l = []) := by
    intro h; rcases h with h | h
    · omega
    · exact hl h
  simp [this]

theorem chunks_flatten (n : Nat) (hn : 0 < n) (l : Bytes) : (chunks n l).flatten = l := by
  fun_induction chunks n l with
  | case1 l h =>
    rcases h with h | h
    · omega
    · simp [h]
  | case2 l h ih => simp [ih]

theorem chunks_mem (n : Nat) (hn : 0 < n) (l : Bytes) :
    ∀ x ∈ chunks n l, 1 ≤ x.length ∧ x.length ≤ n := by
  fun_induction chunks n l with
  | case1 l h => simp
  | case2 l h ih =>
    intro x hx
    rcases List.mem_cons.mp hx with hx | hx
    · subst hx
      have : l ≠ [] := fun e => h (Or.inr e)
      have : 0 < l.length := List.length_pos_iff.mpr this
      simp [List.length_take]; omega
    · exact ih x hx

theorem chunks_ne_nil (n : Nat) (hn : 0 < n) (l : Bytes) (hl : l ≠ []) : chunks n l ≠ [] := by
  rw [chunks_cons n l hn hl]; simp

/-! ### segMsgs -/

theorem segMsgs_false_cons (i : Nat) (p : Packet) (x : Bytes) (cs : List Bytes) (h : cs ≠ []) :
    segMsgs i p false (x :: cs) = ⟨i, p, 8, x⟩ :: segMsgs i p false cs := by
  cases cs with
  | nil => exact absurd rfl h
  | cons y ys => rfl

theorem segMsgs_body (i : Nat) (p : Packet) (b : Bool) (cs : List Bytes) :
    (segMsgs i p b cs).map (·.body) = cs := by
  induction cs generalizing b with
  | nil => cases b <;> rfl
  | cons x xs ih =>
    cases b with
    | true => simp [segMsgs, ih]
    | false =>
      cases xs with
      | nil => rfl
      | cons y ys => rw [segMsgs_false_cons _ _ _ _ (by simp)]; simp [ih]

theorem segMsgs_mem (i : Nat) (p : Packet) (b : Bool) (cs : List Bytes) :
    ∀ m ∈ segMsgs i p b cs, m.idx = i ∧ m.pkt = p ∧ (m.seg = 4 ∨ m.seg = 8 ∨ m.seg = 12) ∧ m.body ∈ cs := by
  induction cs generalizing b with
  | nil => cases b <;> simp [segMsgs]
  | cons x xs ih =>
    cases b with
    | true =>
      intro m hm
      simp only [segMsgs, List.mem_cons] at hm
      rcases hm with hm | hm
      · subst hm; simp
      · have := ih false m hm
        simp [this]
    | false =>
      cases xs with
      | nil =>
        intro m hm
        simp only [segMsgs, List.mem_singleton] at hm
        subst hm; simp
      | cons y ys =>
        rw [segMsgs_false_cons _ _ _ _ (by simp)]
        intro m hm
        rcases List.mem_cons.mp hm with hm | hm
        · subst hm; simp
        · have := ih false m hm
          simp [this]

/-- shape of the non-first segments -/
theorem segShapeF (i : Nat) (p : Packet) (n : Nat) (hn : 0 < n) (l : Bytes) (hl : l ≠ []) :
    (segMsgs i p false (chunks n l)).map (fun m => (m.seg, m.body.length)) =
      List.replicate ((l.length - 1) / n) (8, n) ++ [(12, l.length - ((l.length - 1) / n) * n)] := by
  fun_induction chunks n l with
  | case1 l h =>
    rcases h with h | h
    · omega
    · exact absurd h hl
  | case2 l h ih =>
    have hpos : 0 < l.length := List.length_pos_iff.mpr hl
    by_cases hle : l.length ≤ n
    · have hd : l.drop n = [] := List.drop_eq_nil_of_le hle
      have hq : (l.length - 1) / n = 0 := Nat.div_eq_of_lt (by omega)
      rw [hd, chunks_nil, hq]
      simp [segMsgs, List.length_take]
      omega
    · have hd : l.drop n ≠ [] := by
        intro e
        have := congrArg List.length e
        simp at this; omega
      rw [segMsgs_false_cons _ _ _ _ (chunks_ne_nil n hn _ hd)]
      have hq : (l.length - 1) / n = ((l.drop n).length - 1) / n + 1 := by
        have : l.length - 1 = ((l.drop n).length - 1) + n := by simp; omega
        rw [this, Nat.add_div_right _ hn]
      rw [List.map_cons, ih hd, hq, List.replicate_succ, Nat.succ_mul]
      simp only [List.length_take, List.cons_append, List.length_drop]
      have hmin : min n l.length = n := by omega
      rw [hmin]
      congr 3
      simp only [List.length_drop] at hq
      generalize ((l.length - n - 1) / n) * n = z
      congr 1; omega

/-- shape of a segmented payload -/
theorem segShapeT (i : Nat) (p : Packet) (n : Nat) (hn : 0 < n) (l : Bytes) (hl : n < l.length) :
    (segMsgs i p true (chunks n l)).map (fun m => (m.seg, m.body.length)) =
      (List.range ((l.length - 1) / n)).map (fun j => (if j = 0 then 4 else 8, n)) ++
        [(12, l.length - ((l.length - 1) / n) * n)] := by
  have hne : l ≠ [] := by intro e; simp [e] at hl
  have hd : l.drop n ≠ [] := by
    intro e
    have := congrArg List.length e
    simp at this; omega
  have hq : (l.length - 1) / n = ((l.drop n).length - 1) / n + 1 := by
    have : l.length - 1 = ((l.drop n).length - 1) + n := by simp; omega
    rw [this, Nat.add_div_right _ hn]
  rw [chunks_cons n l hn hne]
  simp only [segMsgs, List.map_cons]
  rw [segShapeF i p n hn _ hd, hq, List.range_succ_eq_map, List.map_cons, List.map_map, Nat.succ_mul]
  have hmap : List.map ((fun j => (if j = 0 then 4 else 8, n)) ∘ Nat.succ) (List.range (((l.drop n).length - 1) / n)) =
      List.replicate (((l.drop n).length - 1) / n) ((8 : Nat), n) := by
    rw [← List.length_range (n := ((l.drop n).length - 1) / n), ← List.map_const']
    simp
  rw [hmap]
  simp only [List.length_take, List.cons_append, List.length_drop, if_true]
  have hmin : min n l.length = n := by omega
  rw [hmin]
  congr 3
  generalize ((l.length - n - 1) / n) * n = z
  congr 1; omega

/-! ### the messages one packet contributes -/

def pieces (c : Ctx) (i : Nat) (p : Packet) : List EMsg :=
  if p.payloadLength = 0 then []
  else if 16 + p.payloadLength ≤ c.cap then [⟨i, p, 0, p.data.take p.payloadLength⟩]
  else segMsgs i p true (chunks (c.cap - 16) (p.data.take p.payloadLength))

theorem payloadLength_eq (p : Packet) : p.payloadLength = p.data.length % 65536 := by
  unfold Packet.payloadLength Packet.data
  cases p.payload <;> rfl

theorem Packet.mt_lt (p : Packet) : p.mt < 256 := by
  unfold Packet.mt Payload.mt
  split
  · decide
  · exact Nat.mod_lt _ (by decide)

theorem pieces_shape (c : Ctx) (hcap : 17 ≤ c.cap) (i : Nat) (p : Packet) (hp : p.data.length < 65536) :
    (pieces c i p).map (fun m => (m.seg, m.body.length)) = pieceShape c.cap p.data.length := by
  have hl : p.payloadLength = p.data.length := by rw [payloadLength_eq]; exact Nat.mod_eq_of_lt hp
  unfold pieces pieceShape
  rw [hl, List.take_length]
  by_cases h0 : p.data.length = 0
  · simp [h0]
  · rw [if_neg h0, if_neg h0]
    by_cases h1 : 16 + p.data.length ≤ c.cap
    · simp [h1]
    · rw [if_neg h1, if_neg h1]
      exact segShapeT i p (c.cap - 16) (by omega) p.data (by omega)

theorem pieces_body (c : Ctx) (hcap : 17 ≤ c.cap) (i : Nat) (p : Packet) (hp : p.data.length < 65536) :
    ((pieces c i p).map (·.body)).flatten = p.data := by
  have hl : p.payloadLength = p.data.length := by rw [payloadLength_eq]; exact Nat.mod_eq_of_lt hp
  unfold pieces
  rw [hl, List.take_length]
  by_cases h0 : p.data.length = 0
  · simp [h0]; exact List.eq_nil_of_length_eq_zero h0
  · rw [if_neg h0]
    by_cases h1 : 16 + p.data.length ≤ c.cap
    · simp [h1]
    · rw [if_neg h1, segMsgs_body, chunks_flatten _ (by omega)]

theorem pieces_mem (c : Ctx) (hcap : 17 ≤ c.cap) (i : Nat) (p : Packet) :
    ∀ m ∈ pieces c i p, m.pkt = p ∧ 1 ≤ m.body.length ∧ m.body.length < 65536 ∧ 16 + m.body.length ≤ c.cap ∧
      (m.seg = 0 ∨ m.seg = 4 ∨ m.seg = 8 ∨ m.seg = 12) ∧ (m.seg = 0 → 16 + m.body.length = 16 + p.payloadLength) := by
  intro m hm
  have hl : p.payloadLength = p.data.length % 65536 := payloadLength_eq p
  have hlt : p.payloadLength < 65536 := by rw [hl]; exact Nat.mod_lt _ (by decide)
  have hle : p.payloadLength ≤ p.data.length := by rw [hl]; exact Nat.mod_le _ _
  unfold pieces at hm
  by_cases h0 : p.payloadLength = 0
  · simp [h0] at hm
  · rw [if_neg h0] at hm
    by_cases h1 : 16 + p.payloadLength ≤ c.cap
    · rw [if_pos h1] at hm
      simp only [List.mem_singleton] at hm
      subst hm
      simp only [List.length_take]
      refine ⟨trivial, ?_, ?_, ?_, Or.inl trivial, ?_⟩ <;> omega
    · rw [if_neg h1] at hm
      obtain ⟨_, h2, h3, h4⟩ := segMsgs_mem _ _ _ _ m hm
      have h5 := chunks_mem (c.cap - 16) (by omega) _ _ h4
      have h6 : m.seg ≠ 0 := by omega
      refine ⟨h2, h5.1, ?_, ?_, ?_, ?_⟩ <;> omega

/-! ### the state operations, field by field -/

namespace Enc

def allMsgs (s : Enc) : List EMsg :=
  s.closed.flatMap (·.msgs) ++ (match s.cur with | none => [] | some f => f.msgs)

/-- the frames that `closeLast` would hand out -/
def vis (s : Enc) : List EFrame :=
  s.closed ++ (match s.cur with | none => [] | some f => if f.msgs.isEmpty then [] else [f])

theorem vis_flatMap (s : Enc) : s.vis.flatMap (·.msgs) = s.allMsgs := by
  unfold vis allMsgs
  cases s.cur with
  | none => simp
  | some f =>
    by_cases h : f.msgs = []
    · simp [h]
    · simp [h]

@[simp] theorem closeLast_closed (s : Enc) : s.closeLast.closed = s.vis := by
  unfold closeLast vis
  cases s.cur with
  | none => simp
  | some f => by_cases h : f.msgs.isEmpty <;> simp [h]

@[simp] theorem closeLast_cur (s : Enc) : s.closeLast.cur = none := by
  unfold closeLast
  split
  · assumption
  · split <;> rfl

@[simp] theorem closeLast_tmpl (s : Enc) : s.closeLast.tmpl = s.tmpl := by
  unfold closeLast
  split
  · rfl
  · split <;> rfl

@[simp] theorem closeLast_curMt (s : Enc) : s.closeLast.curMt = s.curMt := by
  unfold closeLast
  split
  · rfl
  · split <;> rfl

@[simp] theorem closeLast_dev (s : Enc) : s.closeLast.dev = s.dev := by
  unfold closeLast
  split
  · rfl
  · split <;> rfl

@[simp] theorem closeLast_stream (s : Enc) : s.closeLast.stream = s.stream := by
  unfold closeLast
  split
  · rfl
  · split <;> rfl

@[simp] theorem addNew_closed (s : Enc) (p : Packet) : (s.addNew p).closed = s.vis := by
  simp [addNew]

theorem addNew_cur (s : Enc) (p : Packet) :
    ∃ q, (s.addNew p).cur =
      some ⟨(s.tmpl.getD (p.version % 256, p.mt)).1, s.dev, (s.tmpl.getD (p.version % 256, p.mt)).2, s.stream, q, []⟩ := by
  exact ⟨(s.closeLast.seqc + 1) % 65536, by simp [addNew]⟩

@[simp] theorem addNew_tmpl (s : Enc) (p : Packet) :
    (s.addNew p).tmpl = some (s.tmpl.getD (p.version % 256, p.mt)) := by
  simp [addNew]

@[simp] theorem addNew_curMt (s : Enc) (p : Packet) : (s.addNew p).curMt = s.curMt := by
  simp [addNew]

@[simp] theorem addNew_vis (s : Enc) (p : Packet) : (s.addNew p).vis = s.vis := by
  obtain ⟨q, hq⟩ := addNew_cur s p
  rw [vis, hq, addNew_closed]
  simp

@[simp] theorem addNew_allMsgs (s : Enc) (p : Packet) : (s.addNew p).allMsgs = s.allMsgs := by
  rw [← vis_flatMap, addNew_vis, vis_flatMap]

theorem left_le (c : Ctx) (s : Enc) : s.left c ≤ c.cap := by
  unfold left
  split <;> omega

@[simp] theorem addNew_left (c : Ctx) (s : Enc) (p : Packet) : (s.addNew p).left c = c.cap := by
  obtain ⟨q, hq⟩ := addNew_cur s p
  simp [left, hq, EFrame.used]

theorem add_some (s : Enc) (m : EMsg) (f : EFrame) (h : s.cur = some f) :
    s.add m = { s with cur := some { f with msgs := f.msgs ++ [m] } } := by
  simp [add, h]

theorem add_allMsgs (s : Enc) (m : EMsg) (h : s.cur.isSome) : (s.add m).allMsgs = s.allMsgs ++ [m] := by
  cases hc : s.cur with
  | none => simp [hc] at h
  | some f => rw [add_some s m f hc]; simp [allMsgs, hc]

end Enc
/-! ### `putPacket` in normal form -/

def Enc.retype (s : Enc) (mt : Nat) : Enc := { s with curMt := mt, tmpl := none }

/-- state after the message-type check -/
def st1 (s : Enc) (p : Packet) : Enc :=
  if s.cur.isNone || s.curMt != p.mt then (s.retype p.mt).addNew p else s

/-- state after the does-it-fit check -/
def st2 (c : Ctx) (s : Enc) (p : Packet) : Enc :=
  if (st1 s p).left c < 16 + p.payloadLength then (st1 s p).addNew p else st1 s p

theorem putPacket_eqS (c : Ctx) (s : Enc) (i : Nat) (p : Packet) :
    putPacket c s (i, p) =
      if p.payloadLength = 0 then st2 c s p
      else if 16 + p.payloadLength ≤ c.cap then (st2 c s p).add ⟨i, p, 0, p.data.take p.payloadLength⟩
      else putSegs ((st1 s p).addNew p) p
        (segMsgs i p true (chunks (c.cap - 16) (p.data.take p.payloadLength))) := by
  have e1 : (if s.cur.isNone || s.curMt != p.mt then
      ({ s with curMt := p.mt, tmpl := none } : Enc).addNew p else s) = st1 s p := rfl
  simp only [putPacket, e1]
  have e2 : (if (st1 s p).left c < 16 + p.payloadLength then (st1 s p).addNew p else st1 s p) = st2 c s p := rfl
  rw [e2]
  by_cases h0 : p.payloadLength = 0
  · simp [h0]
  · rw [if_neg h0, if_neg h0]
    by_cases h1 : 16 + p.payloadLength ≤ c.cap
    · have : ¬ (st2 c s p).left c < 16 + p.payloadLength := by
        unfold st2
        split
        · rw [Enc.addNew_left]; omega
        · assumption
      simp [this, h1]
    · have hl := Enc.left_le c (st1 s p)
      have h2 : st2 c s p = (st1 s p).addNew p := by
        unfold st2; rw [if_pos (by omega)]
      simp [h1, h2]

theorem st1_cur (s : Enc) (p : Packet) : (st1 s p).cur.isSome := by
  unfold st1
  split
  · obtain ⟨q, hq⟩ := Enc.addNew_cur (s.retype p.mt) p
    rw [hq]; rfl
  · rename_i h
    simp at h
    cases hc : s.cur with
    | none => simp [hc] at h
    | some f => rfl

theorem st2_cur (c : Ctx) (s : Enc) (p : Packet) : (st2 c s p).cur.isSome := by
  unfold st2
  split
  · obtain ⟨q, hq⟩ := Enc.addNew_cur (st1 s p) p
    rw [hq]; rfl
  · exact st1_cur s p

theorem st1_allMsgs (s : Enc) (p : Packet) : (st1 s p).allMsgs = s.allMsgs := by
  unfold st1
  split
  · rw [Enc.addNew_allMsgs]; rfl
  · rfl

theorem st2_allMsgs (c : Ctx) (s : Enc) (p : Packet) : (st2 c s p).allMsgs = s.allMsgs := by
  unfold st2
  split
  · rw [Enc.addNew_allMsgs, st1_allMsgs]
  · exact st1_allMsgs s p

theorem putSegs_allMsgs (p : Packet) (ms : List EMsg) :
    ∀ s : Enc, s.cur.isSome → (putSegs s p ms).allMsgs = s.allMsgs ++ ms := by
  induction ms with
  | nil => intro s _; simp [putSegs]
  | cons m ms ih =>
    intro s hs
    have h1 : ((s.add m).addNew p).cur.isSome := by
      obtain ⟨q, hq⟩ := Enc.addNew_cur (s.add m) p
      rw [hq]; rfl
    rw [putSegs, ih _ h1, Enc.addNew_allMsgs, Enc.add_allMsgs s m hs]
    simp

theorem putPacket_allMsgs (c : Ctx) (s : Enc) (ip : Nat × Packet) :
    (putPacket c s ip).allMsgs = s.allMsgs ++ pieces c ip.1 ip.2 := by
  obtain ⟨i, p⟩ := ip
  rw [putPacket_eqS]
  unfold pieces
  by_cases h0 : p.payloadLength = 0
  · simp [h0, st2_allMsgs]
  · rw [if_neg h0, if_neg h0]
    by_cases h1 : 16 + p.payloadLength ≤ c.cap
    · rw [if_pos h1, if_pos h1, Enc.add_allMsgs _ _ (st2_cur c s p), st2_allMsgs]
    · rw [if_neg h1, if_neg h1, putSegs_allMsgs, Enc.addNew_allMsgs, st1_allMsgs]
      obtain ⟨q, hq⟩ := Enc.addNew_cur (st1 s p) p
      rw [hq]; rfl

theorem foldl_allMsgs (c : Ctx) (ib : List (Nat × Packet)) :
    ∀ s : Enc, (ib.foldl (putPacket c) s).allMsgs = s.allMsgs ++ ib.flatMap (fun ip => pieces c ip.1 ip.2) := by
  induction ib with
  | nil => intro s; simp
  | cons ip ib ih =>
    intro s
    rw [List.foldl_cons, ih, putPacket_allMsgs]
    simp
/-! ### per-frame well-formedness, as a fold invariant -/

structure FrameOk (c : Ctx) (f : EFrame) : Prop where
  used : f.used ≤ c.cap
  alone : (∀ m ∈ f.msgs, m.seg = 0) ∨ f.msgs.length = 1
  mts : ∀ m ∈ f.msgs, m.pkt.mt = f.mt
  mtlt : f.mt < 256

/-- what `addNew` needs of the state it is applied to -/
structure PreOk (c : Ctx) (s : Enc) : Prop where
  closed : ∀ f ∈ s.closed, FrameOk c f ∧ f.msgs ≠ []
  cur : ∀ f, s.cur = some f → FrameOk c f
  tm : ∀ t, s.tmpl = some t → t.2 = s.curMt ∧ s.curMt < 256

/-- the invariant between the steps of `putPacket` -/
structure Basic (c : Ctx) (s : Enc) : Prop extends PreOk c s where
  curmt : ∀ f, s.cur = some f → f.mt = s.curMt ∧ s.tmpl.isSome ∧ (∀ m ∈ f.msgs, m.seg = 0)

def CurEmpty (s : Enc) : Prop := ∃ f, s.cur = some f ∧ f.msgs = []

theorem PreOk.vis {c : Ctx} {s : Enc} (h : PreOk c s) : ∀ f ∈ s.vis, FrameOk c f ∧ f.msgs ≠ [] := by
  intro f hf
  unfold Enc.vis at hf
  rcases List.mem_append.mp hf with hf | hf
  · exact h.closed f hf
  · cases hc : s.cur with
    | none => simp [hc] at hf
    | some g =>
      rw [hc] at hf
      by_cases hg : g.msgs = []
      · simp [hg] at hf
      · simp [hg] at hf
        subst hf
        exact ⟨h.cur _ hc, hg⟩

theorem addNew_curEmpty (s : Enc) (p : Packet) : CurEmpty (s.addNew p) := by
  obtain ⟨q, hq⟩ := Enc.addNew_cur s p
  exact ⟨_, hq, rfl⟩

theorem addNew_basic {c : Ctx} {s : Enc} (p : Packet) (h : PreOk c s)
    (ht : s.tmpl = none → s.curMt = p.mt) : Basic c (s.addNew p) := by
  obtain ⟨q, hq⟩ := Enc.addNew_cur s p
  have hmt : (s.tmpl.getD (p.version % 256, p.mt)).2 = s.curMt ∧ s.curMt < 256 := by
    cases htm : s.tmpl with
    | none =>
      have := ht htm
      simp only [Option.getD_none]
      exact ⟨this.symm, this ▸ Packet.mt_lt p⟩
    | some t => simpa using h.tm t htm
  refine ⟨⟨?_, ?_, ?_⟩, ?_⟩
  · rw [Enc.addNew_closed]; exact h.vis
  · intro f hf
    rw [hq] at hf
    cases hf
    exact ⟨by simp [EFrame.used], Or.inl (by simp), by simp, hmt.1 ▸ hmt.2⟩
  · intro t ht'
    rw [Enc.addNew_tmpl] at ht'
    cases ht'
    rw [Enc.addNew_curMt]
    exact hmt
  · intro f hf
    rw [hq] at hf
    cases hf
    rw [Enc.addNew_curMt, Enc.addNew_tmpl]
    exact ⟨hmt.1, rfl, by simp⟩

/-- an unsegmented message that fits is appended to the open frame -/
theorem add_basic {c : Ctx} {s : Enc} (m : EMsg) (h : Basic c s) (hseg : m.seg = 0)
    (hmt : m.pkt.mt = s.curMt) (hfit : ∀ f, s.cur = some f → f.used + m.size ≤ c.cap) :
    Basic c (s.add m) := by
  cases hc : s.cur with
  | none => simpa [Enc.add, hc] using h
  | some f =>
    rw [Enc.add_some s m f hc]
    have hf := h.cur f hc
    have hm := h.curmt f hc
    refine ⟨⟨h.closed, ?_, h.tm⟩, ?_⟩
    · intro g hg
      cases hg
      refine ⟨?_, Or.inl ?_, ?_, hf.mtlt⟩
      · have := hfit f hc
        simpa [EFrame.used] using this
      · intro x hx
        rcases List.mem_append.mp hx with hx | hx
        · exact hm.2.2 x hx
        · simp at hx; subst hx; exact hseg
      · intro x hx
        rcases List.mem_append.mp hx with hx | hx
        · exact hf.mts x hx
        · simp at hx; subst hx; exact hmt.trans hm.1.symm
    · intro g hg
      cases hg
      refine ⟨hm.1, hm.2.1, ?_⟩
      intro x hx
      rcases List.mem_append.mp hx with hx | hx
      · exact hm.2.2 x hx
      · simp at hx; subst hx; exact hseg

/-- a segment is put into the empty open frame, which is then closed -/
theorem addSeg_basic {c : Ctx} {s : Enc} (p : Packet) (m : EMsg) (h : Basic c s) (he : CurEmpty s)
    (hmt : m.pkt.mt = s.curMt) (hfit : m.size ≤ c.cap) :
    Basic c ((s.add m).addNew p) := by
  obtain ⟨f, hc, hf0⟩ := he
  have hf := h.cur f hc
  have hm := h.curmt f hc
  apply addNew_basic
  · rw [Enc.add_some s m f hc]
    refine ⟨h.closed, ?_, h.tm⟩
    intro g hg
    cases hg
    refine ⟨?_, Or.inr ?_, ?_, hf.mtlt⟩
    · simpa [EFrame.used, hf0] using hfit
    · simp [hf0]
    · intro x hx
      simp [hf0] at hx
      subst hx
      exact hmt.trans hm.1.symm
  · intro ht
    rw [Enc.add_some s m f hc] at ht
    have := hm.2.1
    simp at ht
    simp [ht] at this

theorem add_curMtS (s : Enc) (m : EMsg) : (s.add m).curMt = s.curMt := by
  unfold Enc.add; split <;> rfl

theorem putSegs_basic {c : Ctx} (p : Packet) (ms : List EMsg) :
    ∀ s : Enc, Basic c s → CurEmpty s → (∀ m ∈ ms, m.pkt.mt = s.curMt ∧ m.size ≤ c.cap) →
      Basic c (putSegs s p ms) := by
  induction ms with
  | nil => intro s h _ _; exact h
  | cons m ms ih =>
    intro s h he hms
    rw [putSegs]
    have hm := hms m (by simp)
    apply ih _ (addSeg_basic p m h he hm.1 hm.2) (addNew_curEmpty _ p)
    intro x hx
    rw [Enc.addNew_curMt, add_curMtS]
    exact hms x (by simp [hx])

theorem st1_basic {c : Ctx} {s : Enc} (p : Packet) (h : Basic c s) :
    Basic c (st1 s p) ∧ (st1 s p).curMt = p.mt := by
  unfold st1
  split
  · refine ⟨addNew_basic p ⟨h.closed, h.cur, ?_⟩ (fun _ => rfl), by simp [Enc.retype]⟩
    intro t ht
    simp [Enc.retype] at ht
  · rename_i hcond
    simp at hcond
    exact ⟨h, hcond.2⟩

theorem st2_basic {c : Ctx} {s : Enc} (p : Packet) (h : Basic c s) :
    Basic c (st2 c s p) ∧ (st2 c s p).curMt = p.mt := by
  have h1 := st1_basic p h
  unfold st2
  split
  · refine ⟨addNew_basic p h1.1.toPreOk ?_, by simp [h1.2]⟩
    intro ht
    have hs := st1_cur s p
    cases hc : (st1 s p).cur with
    | none => simp [hc] at hs
    | some f =>
      have := (h1.1.curmt f hc).2.1
      simp [ht] at this
  · exact h1

theorem putPacket_basic {c : Ctx} (hcap : 17 ≤ c.cap) {s : Enc} (ip : Nat × Packet) (h : Basic c s) :
    Basic c (putPacket c s ip) := by
  obtain ⟨i, p⟩ := ip
  rw [putPacket_eqS]
  have h1 := st1_basic p h
  have h2 := st2_basic (c := c) p h
  have hle : p.payloadLength ≤ p.data.length := by rw [payloadLength_eq]; exact Nat.mod_le _ _
  by_cases h0 : p.payloadLength = 0
  · rw [if_pos h0]; exact h2.1
  · rw [if_neg h0]
    by_cases hfit : 16 + p.payloadLength ≤ c.cap
    · rw [if_pos hfit]
      apply add_basic _ h2.1 rfl h2.2.symm
      intro f hf
      simp only [EMsg.size, List.length_take]
      -- the open frame of `st2` has room for the message
      unfold st2 at hf
      split at hf
      · obtain ⟨q, hq⟩ := Enc.addNew_cur (st1 s p) p
        rw [hq] at hf
        cases hf
        simp [EFrame.used]; omega
      · rename_i hl
        simp only [Enc.left, hf] at hl
        omega
    · rw [if_neg hfit]
      apply putSegs_basic p _ _ (addNew_basic p h1.1.toPreOk ?_) (addNew_curEmpty _ p)
      · intro m hm
        obtain ⟨_, hp, _, hb⟩ := segMsgs_mem _ _ _ _ m hm
        have := chunks_mem (c.cap - 16) (by omega) _ _ hb
        rw [Enc.addNew_curMt, h1.2, hp]
        exact ⟨rfl, by unfold EMsg.size; omega⟩
      · intro ht
        have hs := st1_cur s p
        cases hc : (st1 s p).cur with
        | none => simp [hc] at hs
        | some f =>
          have := (h1.1.curmt f hc).2.1
          simp [ht] at this

theorem foldl_basic {c : Ctx} (hcap : 17 ≤ c.cap) (ib : List (Nat × Packet)) :
    ∀ s : Enc, Basic c s → Basic c (ib.foldl (putPacket c) s) := by
  induction ib with
  | nil => intro s h; exact h
  | cons ip ib ih => intro s h; exact ih _ (putPacket_basic hcap ip h)
/-! ### greedy fill -/

/-- the first message of `f2`, if unsegmented and of the type of the segment-free `f1`, did not fit `f1` -/
def G (c : Ctx) (f1 f2 : EFrame) : Prop :=
  ∀ m ms, f2.msgs = m :: ms → m.seg = 0 → f1.mt = f2.mt → (∀ x ∈ f1.msgs, x.seg = 0) →
    c.cap < f1.used + m.size

def HasSeg (l : EFrame) : Prop := ∃ x ∈ l.msgs, x.seg ≠ 0

def GreedyE (c : Ctx) : List EFrame → Prop
  | f1 :: f2 :: rest => G c f1 f2 ∧ GreedyE c (f2 :: rest)
  | _ => True

theorem GreedyE_snoc (c : Ctx) (g : EFrame) :
    ∀ fs, GreedyE c (fs ++ [g]) ↔ GreedyE c fs ∧ (∀ l, fs.getLast? = some l → G c l g) := by
  intro fs
  induction fs with
  | nil => simp [GreedyE]
  | cons f1 fs ih =>
    cases fs with
    | nil => simp [GreedyE]
    | cons f2 rest =>
      have e : (f1 :: f2 :: rest) ++ [g] = f1 :: f2 :: (rest ++ [g]) := rfl
      rw [e]
      simp only [GreedyE]
      have ih' : GreedyE c (f2 :: (rest ++ [g])) ↔ _ := ih
      rw [ih']
      have : (f1 :: f2 :: rest).getLast? = (f2 :: rest).getLast? := by simp [List.getLast?_cons_cons]
      rw [this]
      exact and_assoc.symm

/-- why an empty open frame exists: after a segment, after a type change, or because a message of
    size `n` did not fit the previous frame -/
def Why (c : Ctx) (n : Nat) (s : Enc) : Prop :=
  ∀ l f, s.closed.getLast? = some l → s.cur = some f → f.msgs = [] →
    HasSeg l ∨ l.mt ≠ f.mt ∨ c.cap < l.used + n

/-- between two packets: an empty open frame only follows a segment -/
def Btw (s : Enc) : Prop :=
  (s.cur = none → s.closed = []) ∧
  (∀ l f, s.closed.getLast? = some l → s.cur = some f → f.msgs = [] → HasSeg l)

def GV (c : Ctx) (s : Enc) : Prop := GreedyE c s.vis

theorem G_of_why {c : Ctx} {l f : EFrame} {m : EMsg}
    (h : HasSeg l ∨ l.mt ≠ f.mt ∨ c.cap < l.used + m.size) (ms : List EMsg) (hf : ms = [m]) :
    G c l { f with msgs := ms } := by
  subst hf
  intro x xs hx hs hmt hall
  simp at hx
  obtain ⟨rfl, _⟩ := hx
  rcases h with ⟨y, hy, hy'⟩ | h | h
  · exact absurd (hall y hy) hy'
  · exact absurd hmt h
  · exact h

theorem G_of_seg {c : Ctx} {l f : EFrame} {m : EMsg} (h : m.seg ≠ 0) (ms : List EMsg) (hf : ms = [m]) :
    G c l { f with msgs := ms } := by
  subst hf
  intro x xs hx hs
  simp at hx
  obtain ⟨rfl, _⟩ := hx
  exact absurd hs h

/-- adding a message keeps the greedy chain, provided a first message is justified -/
theorem add_GV {c : Ctx} {s : Enc} (m : EMsg) (h : GV c s)
    (hw : ∀ l f, s.closed.getLast? = some l → s.cur = some f → f.msgs = [] →
      G c l { f with msgs := [m] }) :
    GV c (s.add m) := by
  cases hc : s.cur with
  | none => simpa [Enc.add, hc] using h
  | some f =>
    rw [Enc.add_some s m f hc]
    unfold GV Enc.vis at h ⊢
    rw [hc] at h
    simp only [List.isEmpty_iff, List.append_eq_nil_iff, List.cons_ne_self, and_false, if_false]
    rw [GreedyE_snoc]
    by_cases hf : f.msgs = []
    · simp only [hf, List.isEmpty_nil, if_true, List.append_nil] at h
      refine ⟨h, ?_⟩
      intro l hl
      have := hw l f hl hc hf
      simpa [hf] using this
    · simp only [List.isEmpty_iff, hf, if_false] at h
      rw [GreedyE_snoc] at h
      refine ⟨h.1, ?_⟩
      intro l hl x xs hx hs hmt hall
      have hG := h.2 l hl
      cases hfm : f.msgs with
      | nil => exact absurd hfm hf
      | cons y ys =>
        simp only [hfm, List.cons_append, List.cons.injEq] at hx
        obtain ⟨rfl, _⟩ := hx
        exact hG y ys hfm hs hmt hall

theorem putSegs_GV {c : Ctx} (p : Packet) (ms : List EMsg) :
    ∀ s : Enc, GV c s → (∀ m ∈ ms, m.seg ≠ 0) → GV c (putSegs s p ms) := by
  induction ms with
  | nil => intro s h _; exact h
  | cons m ms ih =>
    intro s h hms
    rw [putSegs]
    apply ih _ _ (fun x hx => hms x (by simp [hx]))
    unfold GV
    rw [Enc.addNew_vis]
    exact add_GV m h (fun l f _ _ _ => G_of_seg (hms m (by simp)) _ rfl)

theorem addSeg_last (s : Enc) (p : Packet) (m : EMsg) (he : CurEmpty s) (hm : m.seg ≠ 0) :
    ∃ l, ((s.add m).addNew p).closed.getLast? = some l ∧ HasSeg l := by
  obtain ⟨f, hc, hf0⟩ := he
  rw [Enc.addNew_closed, Enc.add_some s m f hc]
  simp only [Enc.vis, hf0, List.nil_append, List.isEmpty_cons, Bool.false_eq_true, if_false,
    List.getLast?_concat]
  exact ⟨_, rfl, m, by simp, hm⟩

/-- after at least one segment: the open frame is empty and follows a segment -/
theorem putSegs_last (p : Packet) (ms : List EMsg) :
    ∀ s : Enc, CurEmpty s → ms ≠ [] → (∀ m ∈ ms, m.seg ≠ 0) →
      (putSegs s p ms).cur.isSome ∧ ∃ l, (putSegs s p ms).closed.getLast? = some l ∧ HasSeg l := by
  induction ms with
  | nil => intro s _ h; exact absurd rfl h
  | cons m ms ih =>
    intro s he _ hms
    rw [putSegs]
    cases ms with
    | nil =>
      rw [putSegs]
      refine ⟨?_, addSeg_last s p m he (hms m (by simp))⟩
      obtain ⟨q, hq⟩ := Enc.addNew_cur (s.add m) p
      rw [hq]; rfl
    | cons m' ms' =>
      exact ih _ (addNew_curEmpty _ p) (by simp) (fun x hx => hms x (by simp [hx]))

/-- what precedes the fresh frame `addNew` opens -/
theorem addNew_last (s : Enc) (p : Packet) (l : EFrame) (h : (s.addNew p).closed.getLast? = some l) :
    (∃ f, s.cur = some f ∧ f.msgs ≠ [] ∧ l = f) ∨
    ((∀ f, s.cur = some f → f.msgs = []) ∧ s.closed.getLast? = some l) := by
  rw [Enc.addNew_closed] at h
  unfold Enc.vis at h
  cases hc : s.cur with
  | none =>
    rw [hc] at h
    simp at h
    exact Or.inr ⟨by simp, h⟩
  | some f =>
    rw [hc] at h
    by_cases hf : f.msgs = []
    · simp [hf] at h
      refine Or.inr ⟨?_, h⟩
      intro g hg; cases hg; exact hf
    · simp [hf] at h
      exact Or.inl ⟨f, rfl, hf, h.symm⟩

theorem retype_vis (s : Enc) (mt : Nat) : (s.retype mt).vis = s.vis := rfl

theorem st1_vis (s : Enc) (p : Packet) : (st1 s p).vis = s.vis := by
  unfold st1
  split
  · rw [Enc.addNew_vis, retype_vis]
  · rfl

theorem st2_vis (c : Ctx) (s : Enc) (p : Packet) : (st2 c s p).vis = s.vis := by
  unfold st2
  split
  · rw [Enc.addNew_vis, st1_vis]
  · exact st1_vis s p

theorem st1_why {c : Ctx} {s : Enc} (p : Packet) (n : Nat) (hb : Basic c s) (h : Btw s) :
    Why c n (st1 s p) := by
  unfold st1
  split
  · rename_i hcond
    intro l F hl hF hF0
    obtain ⟨q, hq⟩ := Enc.addNew_cur (s.retype p.mt) p
    rw [hq] at hF
    cases hF
    rcases addNew_last _ p l hl with ⟨f, hf, hf0, rfl⟩ | ⟨hf, hl'⟩
    · -- type change after a non-empty frame
      right; left
      have hf' : s.cur = some l := hf
      have hmt := (hb.curmt l hf').1
      simp [hf'] at hcond
      simp [Enc.retype]
      omega
    · cases hc : s.cur with
      | none =>
        have := h.1 hc
        have hl'' : s.closed.getLast? = some l := hl'
        simp [this] at hl''
      | some f =>
        left
        exact h.2 l f hl' hc (hf f hc)
  · intro l f hl hf hf0
    exact Or.inl (h.2 l f hl hf hf0)

theorem st2_why {c : Ctx} {s : Enc} (p : Packet) (hb : Basic c s) (h : Btw s) :
    Why c (16 + p.payloadLength) (st2 c s p) := by
  have h1 := st1_why (c := c) p (16 + p.payloadLength) hb h
  have hb1 := st1_basic p hb
  unfold st2
  split
  · rename_i hlt
    intro l F hl hF hF0
    obtain ⟨q, hq⟩ := Enc.addNew_cur (st1 s p) p
    rw [hq] at hF
    cases hF
    have hs := st1_cur s p
    cases hc : (st1 s p).cur with
    | none => simp [hc] at hs
    | some f =>
      have hm := hb1.1.curmt f hc
      have htm : ((st1 s p).tmpl.getD (p.version % 256, p.mt)).2 = f.mt := by
        cases ht : (st1 s p).tmpl with
        | none => have := hm.2.1; simp [ht] at this
        | some t => simp [(hb1.1.tm t ht).1, hm.1]
      rcases addNew_last _ p l hl with ⟨f', hf', hf0', rfl⟩ | ⟨hf', hl'⟩
      · rw [hc] at hf'
        cases hf'
        right; right
        simp only [Enc.left, hc] at hlt
        omega
      · have := h1 l f hl' hc (hf' f hc)
        simpa [htm] using this
  · exact h1

theorem putPacket_greedy {c : Ctx} (hcap : 17 ≤ c.cap) {s : Enc} (ip : Nat × Packet)
    (hlen : 1 ≤ ip.2.payloadLength) (hb : Basic c s) (hg : GV c s) (h : Btw s) :
    GV c (putPacket c s ip) ∧ Btw (putPacket c s ip) := by
  obtain ⟨i, p⟩ := ip
  simp only at hlen
  rw [putPacket_eqS, if_neg (by omega)]
  have hle : p.payloadLength ≤ p.data.length := by rw [payloadLength_eq]; exact Nat.mod_le _ _
  by_cases hfit : 16 + p.payloadLength ≤ c.cap
  · rw [if_pos hfit]
    have hw := st2_why (c := c) p hb h
    have hc2 := st2_cur c s p
    refine ⟨?_, ?_⟩
    · apply add_GV
      · unfold GV; rw [st2_vis]; exact hg
      · intro l f hl hf hf0
        apply G_of_why _ _ rfl
        have := hw l f hl hf hf0
        simpa [EMsg.size, List.length_take, Nat.min_eq_left hle] using this
    · cases hc : (st2 c s p).cur with
      | none => simp [hc] at hc2
      | some f =>
        rw [Enc.add_some _ _ f hc]
        refine ⟨by simp, ?_⟩
        intro l g _ hg' hg0
        simp at hg'
        subst hg'
        simp at hg0
  · rw [if_neg hfit]
    have hseg : ∀ m ∈ segMsgs i p true (chunks (c.cap - 16) (p.data.take p.payloadLength)), m.seg ≠ 0 := by
      intro m hm
      obtain ⟨_, _, h3, _⟩ := segMsgs_mem _ _ _ _ m hm
      omega
    have hne : segMsgs i p true (chunks (c.cap - 16) (p.data.take p.payloadLength)) ≠ [] := by
      have : p.data.take p.payloadLength ≠ [] := by
        intro e
        have := congrArg List.length e
        rw [List.length_take, List.length_nil] at this
        omega
      rw [chunks_cons _ _ (by omega) this]
      simp [segMsgs]
    refine ⟨?_, ?_⟩
    · apply putSegs_GV p _ _ _ hseg
      unfold GV; rw [Enc.addNew_vis, st1_vis]; exact hg
    · obtain ⟨h1, l, h2, h3⟩ := putSegs_last p _ _ (addNew_curEmpty (st1 s p) p) hne hseg
      refine ⟨?_, ?_⟩
      · intro hn; simp [hn] at h1
      · intro l' f hl' _ _
        rw [h2] at hl'
        cases hl'
        exact h3

theorem foldl_greedy {c : Ctx} (hcap : 17 ≤ c.cap) (ib : List (Nat × Packet))
    (hlen : ∀ ip ∈ ib, 1 ≤ ip.2.payloadLength) :
    ∀ s : Enc, Basic c s → GV c s → Btw s → GV c (ib.foldl (putPacket c) s) := by
  induction ib with
  | nil => intro s _ h _; exact h
  | cons ip ib ih =>
    intro s hb hg h
    have := putPacket_greedy hcap ip (hlen ip (by simp)) hb hg h
    exact ih (fun x hx => hlen x (by simp [hx])) _ (putPacket_basic hcap ip hb) this.1 this.2
/-! ### the encode call -/

/-- the state `encode` starts from -/
def Enc.start (e : Enc) : Enc := { e with closed := [], cur := none, tmpl := none }

theorem encode_frames (e : Enc) (batch : List Packet) (c : Ctx) :
    (e.encode batch c).2 = (((List.range batch.length).zip batch).foldl (putPacket c) e.start).vis := by
  simp [Enc.encode, Enc.start]

theorem start_basic (c : Ctx) (e : Enc) : Basic c e.start := by
  refine ⟨⟨?_, ?_, ?_⟩, ?_⟩ <;> simp [Enc.start]

theorem zip_snd (batch : List Packet) : ((List.range batch.length).zip batch).map Prod.snd = batch :=
  List.map_snd_zip (by simp)

/-- everything the fold invariants say about the frames of one `encode` call -/
theorem encode_spec (e : Enc) (batch : List Packet) (c : Ctx) (hcap : 17 ≤ c.cap) :
    (∀ f ∈ (e.encode batch c).2, FrameOk c f ∧ f.msgs ≠ []) ∧
    (e.encode batch c).2.flatMap (·.msgs) =
      ((List.range batch.length).zip batch).flatMap (fun ip => pieces c ip.1 ip.2) ∧
    ((∀ p ∈ batch, 1 ≤ p.payloadLength) → GreedyE c (e.encode batch c).2) := by
  rw [encode_frames]
  have hb := foldl_basic hcap ((List.range batch.length).zip batch) _ (start_basic c e)
  refine ⟨hb.toPreOk.vis, ?_, ?_⟩
  · rw [Enc.vis_flatMap, foldl_allMsgs]
    simp [Enc.allMsgs, Enc.start]
  · intro hlen
    apply foldl_greedy hcap _ _ _ (start_basic c e)
    · simp [GV, Enc.vis, Enc.start, GreedyE]
    · simp [Btw, Enc.start]
    · intro ip hip
      apply hlen
      rw [← zip_snd batch]
      exact List.mem_map_of_mem hip

/-! ### from the structured frames to the shapes -/

theorem shape_flatMap {β : Type} (min : Nat) (g : Nat → Bytes → β) (fs : List EFrame) :
    (fs.map (EFrame.shape min)).flatMap (fun f => f.msgs.map (fun m => g m.seg m.body)) =
      (fs.flatMap (·.msgs)).map (fun m => g m.seg m.body) := by
  induction fs with
  | nil => rfl
  | cons f fs ih =>
    simp only [List.map_cons, List.flatMap_cons, List.map_append, ih]
    simp [EFrame.shape]

theorem shape_mts {c : Ctx} (min : Nat) (fs : List EFrame) (h : ∀ f ∈ fs, FrameOk c f) :
    (fs.map (EFrame.shape min)).flatMap (fun f => f.msgs.map (fun _ => f.mt)) =
      (fs.flatMap (·.msgs)).map (fun m => m.pkt.mt) := by
  induction fs with
  | nil => rfl
  | cons f fs ih =>
    have hf := h f (by simp)
    simp only [List.map_cons, List.flatMap_cons, List.map_append, ih (fun g hg => h g (by simp [hg]))]
    congr 1
    simp only [EFrame.shape, List.map_map]
    apply List.map_congr_left
    intro m hm
    simp [hf.mts m hm, Nat.mod_eq_of_lt hf.mtlt]

theorem pieces_bodies (c : Ctx) (hcap : 17 ≤ c.cap) (ib : List (Nat × Packet))
    (h : ∀ ip ∈ ib, ip.2.data.length < 65536) :
    (((ib.flatMap (fun ip => pieces c ip.1 ip.2)).map (·.body)).flatten) =
      ((ib.map Prod.snd).map Packet.data).flatten := by
  induction ib with
  | nil => rfl
  | cons ip ib ih =>
    simp only [List.flatMap_cons, List.map_append, List.flatten_append, List.map_cons, List.flatten_cons]
    rw [ih (fun x hx => h x (by simp [hx])), pieces_body c hcap _ _ (h ip (by simp))]

theorem pieces_shapes (c : Ctx) (hcap : 17 ≤ c.cap) (ib : List (Nat × Packet))
    (h : ∀ ip ∈ ib, ip.2.data.length < 65536) :
    (ib.flatMap (fun ip => pieces c ip.1 ip.2)).map (fun m => (m.seg, m.body.length)) =
      ((ib.map Prod.snd).map (fun p => (p.mt, p.data.length))).flatMap (fun (_, len) => pieceShape c.cap len) := by
  induction ib with
  | nil => rfl
  | cons ip ib ih =>
    simp only [List.flatMap_cons, List.map_append, List.map_cons]
    rw [ih (fun x hx => h x (by simp [hx])), pieces_shape c hcap _ _ (h ip (by simp))]

theorem pieces_mts (c : Ctx) (hcap : 17 ≤ c.cap) (ib : List (Nat × Packet))
    (h : ∀ ip ∈ ib, ip.2.data.length < 65536) :
    (ib.flatMap (fun ip => pieces c ip.1 ip.2)).map (fun m => m.pkt.mt) =
      pieceMts c.cap ((ib.map Prod.snd).map (fun p => (p.mt, p.data.length))) := by
  induction ib with
  | nil => rfl
  | cons ip ib ih =>
    simp only [List.flatMap_cons, List.map_append, List.map_cons, pieceMts]
    have ih' := ih (fun x hx => h x (by simp [hx]))
    simp only [pieceMts] at ih'
    rw [ih']
    congr 1
    have h1 : (pieces c ip.1 ip.2).map (fun m => m.pkt.mt) = (pieces c ip.1 ip.2).map (fun _ => ip.2.mt) := by
      apply List.map_congr_left
      intro m hm
      rw [(pieces_mem c hcap _ _ m hm).1]
    have h2 := congrArg List.length (pieces_shape c hcap ip.1 ip.2 (h ip (by simp)))
    simp only [List.length_map] at h2
    rw [h1, List.map_const', List.map_const', h2]

theorem greedyOk_of (c : Ctx) (min : Nat) :
    ∀ fs : List EFrame, (∀ f ∈ fs, f.mt < 256) → GreedyE c fs →
      greedyOk c.cap (fs.map (EFrame.shape min)) = true := by
  intro fs
  induction fs with
  | nil => intro _ _; simp [greedyOk]
  | cons f1 fs ih =>
    cases fs with
    | nil => intro _ _; simp [greedyOk]
    | cons f2 rest =>
      intro hmt hg
      have ih' := ih (fun f hf => hmt f (by simp [hf])) hg.2
      simp only [List.map_cons] at ih' ⊢
      simp only [greedyOk, ih', Bool.and_true]
      have h1 := hmt f1 (by simp)
      have h2 := hmt f2 (by simp)
      have hG := hg.1
      cases hm : f2.msgs with
      | nil => simp [EFrame.shape, hm]
      | cons m ms =>
        have hu : (EFrame.shape min f1).used = f1.used := shape_used min f1
        have hmsgs : (EFrame.shape min f2).msgs =
            ⟨m.seg, m.body⟩ :: ms.map (fun m => ⟨m.seg, m.body⟩) := by simp [EFrame.shape, hm]
        have hmt1 : (EFrame.shape min f1).mt = f1.mt := by simp [EFrame.shape, Nat.mod_eq_of_lt h1]
        have hmt2 : (EFrame.shape min f2).mt = f2.mt := by simp [EFrame.shape, Nat.mod_eq_of_lt h2]
        have hall : (EFrame.shape min f1).msgs.all (fun x => x.seg == 0) = f1.msgs.all (fun x => x.seg == 0) := by
          simp [EFrame.shape, List.all_map, Function.comp_def]
        rw [hmsgs]
        simp only [hu, hmt1, hmt2, hall]
        by_cases hc : m.seg = 0 ∧ f1.mt = f2.mt ∧ ∀ x ∈ f1.msgs, x.seg = 0
        · have h3 := hG m ms hm hc.1 hc.2.1 hc.2.2
          have : decide (f1.used + ({ seg := m.seg, body := m.body } : SMsg).size > c.cap) = true := by
            apply decide_eq_true
            simp only [SMsg.size]
            simp only [EMsg.size] at h3
            omega
          rw [this, Bool.or_true]
        · have : (m.seg == 0 && f1.mt == f2.mt && f1.msgs.all fun x => x.seg == 0) = false := by
            cases hb : (m.seg == 0 && f1.mt == f2.mt && f1.msgs.all fun x => x.seg == 0) with
            | false => rfl
            | true =>
              exfalso
              apply hc
              simpa [and_assoc] using hb
          rw [this]
          rfl
end AsamCmp
