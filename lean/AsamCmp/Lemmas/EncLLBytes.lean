/-
  C07b helper lemmas, part 1: the byte-vector operations of the low-level encoder
  (template, counter overwrite, header / payload copies into the zero tail, final resize).
-/
import AsamCmp.EncoderLL
import AsamCmp.Lemmas.TileBytes
namespace AsamCmp.C07b
open AsamCmp

theorem zeros_add (a b : Nat) : zeros (a + b) = zeros a ++ zeros b := by
  simp [zeros, List.replicate_append_replicate]

theorem take_zeros (n k : Nat) : (zeros k).take n = zeros (Nat.min n k) := by
  simp [zeros, List.take_replicate]

theorem drop_zeros (n k : Nat) : (zeros k).drop n = zeros (k - n) := by
  simp [zeros, List.drop_replicate]

/-- writing into the zero tail right behind the used part -/
theorem writeAt_tail (pre v : Bytes) (k : Nat) :
    writeAt (pre ++ zeros k) pre.length v = pre ++ v ++ zeros (k - v.length) := by
  unfold writeAt
  have : (pre.drop (pre.length + v.length)) = [] := List.drop_eq_nil_of_le (by omega)
  rw [List.take_left' rfl, List.drop_append, this]
  simp [drop_zeros]

/-- `createCmpFrameTemplate` -/
theorem template_eq (mx dev stream : Nat) (p : Packet) (h : 8 ≤ mx) :
    writeAt (writeAt (writeAt (zeros mx) 0 (frameHeader (p.version % 256) p.deviceId p.mt p.streamId p.seq))
      2 (beEnc 2 dev)) 5 [UInt8.ofNat stream] =
    frameHeader (p.version % 256) dev p.mt stream p.seq ++ zeros (mx - 8) := by
  have e : zeros mx = zeros 8 ++ zeros (mx - 8) := by rw [← zeros_add]; congr 1; omega
  rw [e]
  simp [writeAt, frameHeader, beEnc, zeros]

/-- a new frame: the template with its own counter -/
theorem counter_write (v d t st σ q k : Nat) :
    writeAt (frameHeader v d t st σ ++ zeros k) 6 (beEnc 2 q) = frameHeader v d t st q ++ zeros k := by
  simp [writeAt, frameHeader, beEnc]

set_option maxRecDepth 10000 in
theorem flag_remask : ∀ x, x < 256 → ((x &&& 0xF3) ||| (x &&& 0x0C)) % 256 &&& 0xF3 = x &&& 0xF3 := by
  decide

/-- `getRawMessageHeader` + `setPayloadLength(n)` + `setSegmentType(seg)` is the header of the
    structured model -/
theorem header_eq (p : Packet) (n seg : Nat) :
    (let hdr := msgHeader p (p.flags % 256 &&& 0x0C) p.payloadLength
     let hdr := writeAt hdr 14 (beEnc 2 n)
     writeAt hdr 12 [UInt8.ofNat ((byteAt hdr 12 &&& 0xF3) ||| seg)]) = msgHeader p seg n := by
  have h12 := hdrPre_length p
  have e1 : writeAt (msgHeader p (p.flags % 256 &&& 0x0C) p.payloadLength) 14 (beEnc 2 n) =
      hdrPre p ++ UInt8.ofNat ((p.flags % 256 &&& 0xF3) ||| (p.flags % 256 &&& 0x0C)) ::
        (UInt8.ofNat p.rawType :: beEnc 2 n) := by
    rw [msgHeader_eq]
    unfold writeAt
    rw [List.take_append, List.take_of_length_le (by omega), h12]
    rw [List.drop_append, List.drop_eq_nil_of_le (by omega), h12]
    simp [beEnc]
  simp only
  rw [e1, byteAt_mid _ _ _ 12 h12, UInt8.toNat_ofNat',
    flag_remask _ (Nat.mod_lt _ (by decide)), msgHeader_eq]
  unfold writeAt
  rw [List.take_left' h12, List.drop_append, List.drop_eq_nil_of_le (by omega), h12]
  simp

/-- `resize(max(size - bytesLeft, min))` of an open frame is the serialised closed frame -/
theorem resize_eq (pre : Bytes) (k mn : Nat) (h : mn ≤ pre.length + k) :
    resize (pre ++ zeros k) (Nat.max ((pre ++ zeros k).length - k) mn) = pre ++ zeros (mn - pre.length) := by
  have hl : (pre ++ zeros k).length = pre.length + k := by simp
  have ht : Nat.max ((pre ++ zeros k).length - k) mn = Nat.max pre.length mn := by rw [hl]; congr 1; omega
  rw [ht]
  unfold resize
  have hm : Nat.max pre.length mn ≤ (pre ++ zeros k).length := by
    rw [hl]; exact Nat.max_le.mpr ⟨by omega, h⟩
  rw [if_pos hm, List.take_append, List.take_of_length_le (Nat.le_max_left _ _), take_zeros]
  congr 2
  show min (max pre.length mn - pre.length) k = mn - pre.length
  omega

end AsamCmp.C07b
