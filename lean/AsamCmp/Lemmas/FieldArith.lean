/-
  Helper lemmas for C11 / C12: bit-range arithmetic on one word (`ext` / `upd`, by `Nat.testBit`)
  and the byte-level facts on `writeAt` / `slice`.
-/
import AsamCmp.Fields
namespace AsamCmp.C11
open AsamCmp

/-! ## word level -/

/-- the bit range `[s, s+k)` of `W` -/
def ext (s k W : Nat) : Nat := W / 2 ^ s % 2 ^ k

/-- `W` with the bit range `[s, s+k)` replaced by `v` (as `setField` computes it) -/
def upd (s k v W : Nat) : Nat := W - (W / 2 ^ s % 2 ^ k) * 2 ^ s + v * 2 ^ s

theorem testBit_of_lt {x n i : Nat} (h : x < 2 ^ n) (hi : n ≤ i) : x.testBit i = false :=
  Nat.testBit_lt_two_pow (Nat.lt_of_lt_of_le h (Nat.pow_le_pow_right (by decide) hi))

theorem word_decomp (s k W : Nat) :
    W = 2 ^ s * (2 ^ k * (W / 2 ^ (s + k)) + W / 2 ^ s % 2 ^ k) + W % 2 ^ s := by
  rw [Nat.pow_add, ← Nat.div_div_eq_div_mul, Nat.div_add_mod, Nat.div_add_mod]

theorem upd_eq (s k v W : Nat) :
    upd s k v W = 2 ^ s * (2 ^ k * (W / 2 ^ (s + k)) + v) + W % 2 ^ s := by
  unfold upd
  have h := word_decomp s k W
  generalize W / 2 ^ (s + k) = hi at h ⊢
  generalize hold : W / 2 ^ s % 2 ^ k = old at h ⊢
  generalize W % 2 ^ s = lo at h ⊢
  generalize 2 ^ s = A at h ⊢
  generalize 2 ^ k = B at h ⊢
  rw [h]
  simp only [Nat.mul_add]
  rw [Nat.mul_comm old A, Nat.mul_comm v A]
  generalize A * (B * hi) = X
  generalize A * old = Y
  generalize A * v = Z
  omega

theorem testBit_ext (s k W i : Nat) :
    (ext s k W).testBit i = (decide (i < k) && W.testBit (s + i)) := by
  unfold ext
  rw [Nat.testBit_mod_two_pow, Nat.testBit_div_two_pow, Nat.add_comm]

theorem testBit_upd {s k v : Nat} (W : Nat) (hv : v < 2 ^ k) (i : Nat) :
    (upd s k v W).testBit i =
      if s ≤ i ∧ i < s + k then v.testBit (i - s) else W.testBit i := by
  rw [upd_eq, Nat.testBit_two_pow_mul_add _ (Nat.mod_lt _ (Nat.two_pow_pos s))]
  by_cases h1 : i < s
  · rw [if_pos h1, if_neg (by omega), Nat.testBit_mod_two_pow]
    simp [h1]
  · rw [if_neg h1, Nat.testBit_two_pow_mul_add _ hv]
    by_cases h2 : i - s < k
    · rw [if_pos h2, if_pos (by omega)]
    · rw [if_neg h2, if_neg (by omega), Nat.testBit_div_two_pow]
      congr 1
      omega

theorem ext_lt (s k W : Nat) : ext s k W < 2 ^ k := Nat.mod_lt _ (Nat.two_pow_pos k)

theorem upd_lt {s k v n W : Nat} (hW : W < 2 ^ n) (hn : s + k ≤ n) (hv : v < 2 ^ k) :
    upd s k v W < 2 ^ n := by
  apply Nat.lt_pow_two_of_testBit
  intro i hi
  rw [testBit_upd W hv, if_neg (by omega)]
  exact testBit_of_lt hW hi

theorem ext_upd_same {s k v : Nat} (W : Nat) (hv : v < 2 ^ k) : ext s k (upd s k v W) = v := by
  apply Nat.eq_of_testBit_eq
  intro i
  rw [testBit_ext, testBit_upd W hv]
  by_cases h : i < k
  · rw [if_pos (by omega)]
    simp [h]
  · simp only [h, decide_false, Bool.false_and]
    exact (testBit_of_lt hv (by omega)).symm

theorem ext_upd_other {s k v t m : Nat} (W : Nat) (hv : v < 2 ^ k) (hd : t + m ≤ s ∨ s + k ≤ t) :
    ext t m (upd s k v W) = ext t m W := by
  apply Nat.eq_of_testBit_eq
  intro i
  rw [testBit_ext, testBit_ext, testBit_upd W hv]
  by_cases h : i < m
  · rw [if_neg (by omega)]
  · simp [h]

theorem upd_upd_same {s k u v : Nat} (W : Nat) (hu : u < 2 ^ k) (hv : v < 2 ^ k) :
    upd s k v (upd s k u W) = upd s k v W := by
  apply Nat.eq_of_testBit_eq
  intro i
  rw [testBit_upd _ hv, testBit_upd _ hv, testBit_upd _ hu]
  split
  · rfl
  · rfl

theorem upd_ext_id (s k W : Nat) : upd s k (ext s k W) W = W := by
  apply Nat.eq_of_testBit_eq
  intro i
  rw [testBit_upd _ (ext_lt s k W), testBit_ext]
  split
  · next h =>
    have : s + (i - s) = i := by omega
    rw [this]
    simp
    omega
  · rfl

theorem upd_upd_comm {s k v t m u : Nat} (W : Nat) (hv : v < 2 ^ k) (hu : u < 2 ^ m)
    (hd : t + m ≤ s ∨ s + k ≤ t) :
    upd s k v (upd t m u W) = upd t m u (upd s k v W) := by
  apply Nat.eq_of_testBit_eq
  intro i
  rw [testBit_upd _ hv, testBit_upd _ hu, testBit_upd _ hu, testBit_upd _ hv]
  by_cases h1 : s ≤ i ∧ i < s + k
  · rw [if_pos h1, if_neg (by omega), if_pos h1]
  · rw [if_neg h1, if_neg h1]

theorem upd_full {n v W : Nat} (hW : W < 2 ^ n) (hv : v < 2 ^ n) : upd 0 n v W = v := by
  apply Nat.eq_of_testBit_eq
  intro i
  rw [testBit_upd _ hv]
  split
  · rfl
  · next h =>
    rw [testBit_of_lt hW (by omega), testBit_of_lt hv (by omega)]

/-! ## byte level -/

theorem getElem?_slice (b : Bytes) (off w i : Nat) :
    (slice b off w)[i]? = if i < w then b[off + i]? else none := by
  unfold slice
  rw [List.getElem?_take, List.getElem?_drop]

theorem slice_length {b : Bytes} {off w : Nat} (h : off + w ≤ b.length) :
    (slice b off w).length = w := by
  unfold slice
  rw [List.length_take, List.length_drop]
  omega

theorem getElem?_writeAt {b : Bytes} {off : Nat} {x : Bytes} (h : off + x.length ≤ b.length)
    (i : Nat) :
    (writeAt b off x)[i]? =
      if i < off then b[i]? else if i < off + x.length then x[i - off]? else b[i]? := by
  unfold writeAt
  have hm : (List.take off b).length = off := by rw [List.length_take]; omega
  rw [List.getElem?_append, List.getElem?_append]
  simp only [List.length_append, hm, List.getElem?_take, List.getElem?_drop]
  by_cases h1 : i < off
  · have h2 : i < off + x.length := by omega
    simp only [h1, h2, if_true]
  · by_cases h2 : i < off + x.length
    · simp only [h1, h2, if_true, if_false]
    · simp only [h1, h2, if_false]
      congr 1
      omega

theorem writeAt_length {b : Bytes} {off : Nat} {x : Bytes} (h : off + x.length ≤ b.length) :
    (writeAt b off x).length = b.length := by
  unfold writeAt
  simp only [List.length_append, List.length_take, List.length_drop]
  omega

theorem getElem?_writeAt_out {b : Bytes} {off : Nat} {x : Bytes} (h : off + x.length ≤ b.length)
    {i : Nat} (hi : i < off ∨ off + x.length ≤ i) : (writeAt b off x)[i]? = b[i]? := by
  rw [getElem?_writeAt h]
  by_cases h1 : i < off
  · simp only [h1, if_true]
  · have h2 : ¬ i < off + x.length := by omega
    simp only [h1, h2, if_false]

theorem slice_writeAt_same {b : Bytes} {off : Nat} {x : Bytes} (h : off + x.length ≤ b.length) :
    slice (writeAt b off x) off x.length = x := by
  apply List.ext_getElem?
  intro i
  rw [getElem?_slice, getElem?_writeAt h]
  by_cases h1 : i < x.length
  · have h2 : ¬ off + i < off := by omega
    have h3 : off + i < off + x.length := by omega
    simp only [h1, h2, h3, if_true, if_false]
    congr 1
    omega
  · simp only [h1, if_false]
    exact (List.getElem?_eq_none (by omega)).symm

theorem slice_writeAt_other {b : Bytes} {off : Nat} {x : Bytes} (h : off + x.length ≤ b.length)
    {off' w' : Nat} (hd : off' + w' ≤ off ∨ off + x.length ≤ off') :
    slice (writeAt b off x) off' w' = slice b off' w' := by
  apply List.ext_getElem?
  intro i
  rw [getElem?_slice, getElem?_slice]
  by_cases h1 : i < w'
  · simp only [h1, if_true]
    exact getElem?_writeAt_out h (by omega)
  · simp only [h1, if_false]

theorem writeAt_writeAt_same {b : Bytes} {off : Nat} {x y : Bytes} (h : off + x.length ≤ b.length)
    (hxy : y.length = x.length) : writeAt (writeAt b off x) off y = writeAt b off y := by
  have hl := writeAt_length h
  apply List.ext_getElem?
  intro i
  rw [getElem?_writeAt (b := writeAt b off x) (x := y) (by omega), getElem?_writeAt h,
    getElem?_writeAt (b := b) (x := y) (by omega), hxy]
  by_cases h1 : i < off <;> by_cases h2 : i < off + x.length <;>
    simp only [h1, h2, if_true, if_false]

theorem writeAt_slice_self {b : Bytes} {off w : Nat} (h : off + w ≤ b.length) :
    writeAt b off (slice b off w) = b := by
  have hl := slice_length h
  apply List.ext_getElem?
  intro i
  rw [getElem?_writeAt (by omega), hl, getElem?_slice]
  by_cases h1 : i < off
  · simp only [h1, if_true]
  · by_cases h2 : i < off + w
    · have h3 : i - off < w := by omega
      simp only [h1, h2, h3, if_true, if_false]
      congr 1
      omega
    · simp only [h1, h2, if_false]

theorem writeAt_comm {b : Bytes} {off off' : Nat} {x y : Bytes} (h : off + x.length ≤ b.length)
    (h' : off' + y.length ≤ b.length) (hd : off' + y.length ≤ off ∨ off + x.length ≤ off') :
    writeAt (writeAt b off' y) off x = writeAt (writeAt b off x) off' y := by
  have hl := writeAt_length h
  have hl' := writeAt_length h'
  apply List.ext_getElem?
  intro i
  rw [getElem?_writeAt (b := writeAt b off' y) (off := off) (x := x) (by omega),
    getElem?_writeAt (b := writeAt b off x) (off := off') (x := y) (by omega),
    getElem?_writeAt h, getElem?_writeAt h']
  by_cases h1 : i < off <;> by_cases h2 : i < off + x.length <;>
    by_cases h3 : i < off' <;> by_cases h4 : i < off' + y.length <;>
    first
      | (exfalso; omega)
      | simp only [h1, h2, h3, h4, if_true, if_false]

/-! ## words in a byte string -/

theorem pow256 (w : Nat) : 256 ^ w = 2 ^ (8 * w) := by
  rw [Nat.pow_mul]

theorem beAt_lt {b : Bytes} {off w : Nat} (h : off + w ≤ b.length) : beAt b off w < 2 ^ (8 * w) := by
  have := beDec_lt (slice b off w)
  rw [slice_length h, pow256] at this
  exact this

theorem beAt_writeAt_same {b : Bytes} {off w X : Nat} (h : off + w ≤ b.length)
    (hX : X < 2 ^ (8 * w)) : beAt (writeAt b off (beEnc w X)) off w = X := by
  have hl : (beEnc w X).length = w := beEnc_length w X
  have hs := slice_writeAt_same (b := b) (off := off) (x := beEnc w X) (by omega)
  rw [hl] at hs
  unfold beAt
  rw [hs, beDec_beEnc, pow256]
  exact Nat.mod_eq_of_lt hX

theorem beAt_writeAt_other {b : Bytes} {off : Nat} {x : Bytes} (h : off + x.length ≤ b.length)
    {off' w' : Nat} (hd : off' + w' ≤ off ∨ off + x.length ≤ off') :
    beAt (writeAt b off x) off' w' = beAt b off' w' := by
  unfold beAt
  rw [slice_writeAt_other h hd]

theorem getField_eq (f : Field) (b : Bytes) :
    getField f b = ext f.shift f.bits (beAt b f.off f.w) := rfl

theorem setField_eq (f : Field) (v : Nat) (b : Bytes) :
    setField f v b =
      writeAt b f.off (beEnc f.w (upd f.shift f.bits v (beAt b f.off f.w))) := rfl

/-- same word, disjoint absolute bit intervals: the shift ranges are disjoint -/
theorem shifts_disjoint {f g : Field} (hf : f.shift + f.bits ≤ 8 * f.w)
    (hg : g.shift + g.bits ≤ 8 * g.w) (ho : f.off = g.off) (hw : f.w = g.w)
    (hd : f.disjoint g = true) :
    g.shift + g.bits ≤ f.shift ∨ f.shift + f.bits ≤ g.shift := by
  unfold Field.disjoint at hd
  simp only [Bool.or_eq_true, decide_eq_true_eq] at hd
  unfold Field.lo Field.hi at hd
  omega

section field
variable {f : Field} {b : Bytes}

theorem setField_length' (v : Nat) (hb : f.off + f.w ≤ b.length) :
    (setField f v b).length = b.length := by
  rw [setField_eq]
  exact writeAt_length (by rw [beEnc_length]; exact hb)

theorem beAt_setField_same {v : Nat} (hs : f.shift + f.bits ≤ 8 * f.w)
    (hb : f.off + f.w ≤ b.length) (hv : v < 2 ^ f.bits) :
    beAt (setField f v b) f.off f.w = upd f.shift f.bits v (beAt b f.off f.w) := by
  rw [setField_eq]
  exact beAt_writeAt_same hb (upd_lt (beAt_lt hb) hs hv)

theorem beAt_setField_other {v : Nat} (hb : f.off + f.w ≤ b.length) {off' w' : Nat}
    (hd : off' + w' ≤ f.off ∨ f.off + f.w ≤ off') :
    beAt (setField f v b) off' w' = beAt b off' w' := by
  rw [setField_eq]
  exact beAt_writeAt_other (by rw [beEnc_length]; exact hb) (by rw [beEnc_length]; exact hd)

theorem get_set_same' {v : Nat} (hs : f.shift + f.bits ≤ 8 * f.w)
    (hb : f.off + f.w ≤ b.length) (hv : v < 2 ^ f.bits) :
    getField f (setField f v b) = v := by
  rw [getField_eq, beAt_setField_same hs hb hv]
  exact ext_upd_same _ hv

theorem get_set_other' {g : Field} {v : Nat} (hs : f.shift + f.bits ≤ 8 * f.w)
    (hb : f.off + f.w ≤ b.length) (hgs : g.shift + g.bits ≤ 8 * g.w)
    (hv : v < 2 ^ f.bits) (hd : f.disjoint g = true)
    (hw : (f.off = g.off ∧ f.w = g.w) ∨ f.off + f.w ≤ g.off ∨ g.off + g.w ≤ f.off) :
    getField g (setField f v b) = getField g b := by
  rw [getField_eq, getField_eq]
  rcases hw with ⟨ho, hw⟩ | hw
  · rw [← ho, ← hw, beAt_setField_same hs hb hv]
    exact ext_upd_other _ hv (shifts_disjoint hs hgs ho hw hd)
  · rw [beAt_setField_other hb (by omega)]

theorem set_frame' (v : Nat) (hb : f.off + f.w ≤ b.length) {i : Nat}
    (hi : i < f.off ∨ f.off + f.w ≤ i) : (setField f v b)[i]? = b[i]? := by
  rw [setField_eq]
  exact getElem?_writeAt_out (by rw [beEnc_length]; exact hb) (by rw [beEnc_length]; exact hi)

theorem set_set_same' {u v : Nat} (hs : f.shift + f.bits ≤ 8 * f.w)
    (hb : f.off + f.w ≤ b.length) (hu : u < 2 ^ f.bits) (hv : v < 2 ^ f.bits) :
    setField f v (setField f u b) = setField f v b := by
  rw [setField_eq f v (setField f u b), beAt_setField_same hs hb hu, upd_upd_same _ hu hv,
    setField_eq f u b, setField_eq f v b]
  exact writeAt_writeAt_same (by rw [beEnc_length]; exact hb) (by rw [beEnc_length, beEnc_length])

theorem set_get_id' (hb : f.off + f.w ≤ b.length) : setField f (getField f b) b = b := by
  rw [setField_eq, getField_eq, upd_ext_id]
  have := beEnc_beDec (slice b f.off f.w)
  rw [slice_length hb] at this
  unfold beAt
  rw [this]
  exact writeAt_slice_self hb

theorem set_is_be' {v : Nat} (hb : f.off + f.w ≤ b.length) (h0 : f.shift = 0)
    (hbits : f.bits = 8 * f.w) (hv : v < 2 ^ f.bits) :
    slice (setField f v b) f.off f.w = beEnc f.w v := by
  rw [setField_eq, h0, hbits, upd_full (beAt_lt hb) (hbits ▸ hv)]
  have := slice_writeAt_same (b := b) (off := f.off) (x := beEnc f.w v)
    (by rw [beEnc_length]; exact hb)
  rw [beEnc_length] at this
  exact this

theorem set_set_comm' {g : Field} {u v : Nat} (hs : f.shift + f.bits ≤ 8 * f.w)
    (hb : f.off + f.w ≤ b.length) (hgs : g.shift + g.bits ≤ 8 * g.w)
    (hgb : g.off + g.w ≤ b.length) (hu : u < 2 ^ g.bits) (hv : v < 2 ^ f.bits)
    (hd : f.disjoint g = true)
    (hw : (f.off = g.off ∧ f.w = g.w) ∨ f.off + f.w ≤ g.off ∨ g.off + g.w ≤ f.off) :
    setField f v (setField g u b) = setField g u (setField f v b) := by
  rw [setField_eq f v (setField g u b), setField_eq g u (setField f v b)]
  rcases hw with ⟨ho, hw⟩ | hw
  · have hsd := shifts_disjoint hs hgs ho hw hd
    have key1 : beAt (setField g u b) f.off f.w = upd g.shift g.bits u (beAt b f.off f.w) := by
      have := beAt_setField_same hgs hgb hu
      rw [← ho, ← hw] at this
      exact this
    have key2 : beAt (setField f v b) g.off g.w = upd f.shift f.bits v (beAt b g.off g.w) := by
      have := beAt_setField_same hs hb hv
      rw [ho, hw] at this
      exact this
    rw [key1, key2, setField_eq g u b, setField_eq f v b, ← ho, ← hw, upd_upd_comm _ hv hu hsd,
      writeAt_writeAt_same (by rw [beEnc_length]; exact hb) (by rw [beEnc_length, beEnc_length]),
      writeAt_writeAt_same (by rw [beEnc_length]; exact hb) (by rw [beEnc_length, beEnc_length])]
  · rw [beAt_setField_other hgb (by omega), beAt_setField_other hb (by omega),
      setField_eq g u b, setField_eq f v b]
    exact writeAt_comm (by rw [beEnc_length]; exact hb) (by rw [beEnc_length]; exact hgb)
      (by rw [beEnc_length, beEnc_length]; omega)

end field

end AsamCmp.C11
