/-
  Source-level encoder, part 2: the translated private methods of `Encoder` (GeneratedSrcObj.lean), one lemma each: from a state
  that satisfies the invariant the method is defined and is the corresponding function of the low-level model (EncoderLL.lean);
  next to it the model-level lemma that the invariant is kept.
-/
import AsamCmp.Lemmas.SrcEncPrim
set_option linter.unusedSimpArgs false
namespace AsamCmp.SrcEnc
open AsamCmp AsamCmp.Src AsamCmp.SrcGen

/-- the model state as the record of data members (`ofLL` of Props/SrcEncoder.lean, which imports this file) -/
def stOf (l : EncLL) : Encoder_St :=
  { f_minBytesPerMessage := l.min, f_maxBytesPerMessage := l.max, f_deviceId := l.dev, f_streamId := l.stream,
    f_cmpFrameTemplate := l.tmpl, f_bytesLeft := l.bytesLeft, f_sequenceCounter := l.seqc, f_messageType := l.mt,
    f_cmpFrames := l.frames }

/-- what the encoder reads from a packet of the model (`pktIn` of Props/SrcEncoder.lean) -/
def pkOf (p : Packet) : PktIn :=
  { messageType := p.mt, payloadLength := p.payloadLength, rawPayload := p.data,
    rawCmpHeader := frameHeader (p.version % 256) p.deviceId p.mt p.streamId p.seq,
    rawMsgHeader := msgHeader p (p.flags % 256 &&& 0x0C) p.payloadLength }

theorem stOf_min (l : EncLL) : (stOf l).f_minBytesPerMessage = l.min := rfl
theorem stOf_max (l : EncLL) : (stOf l).f_maxBytesPerMessage = l.max := rfl
theorem stOf_dev (l : EncLL) : (stOf l).f_deviceId = l.dev := rfl
theorem stOf_stream (l : EncLL) : (stOf l).f_streamId = l.stream := rfl
theorem stOf_tmpl (l : EncLL) : (stOf l).f_cmpFrameTemplate = l.tmpl := rfl
theorem stOf_bytesLeft (l : EncLL) : (stOf l).f_bytesLeft = l.bytesLeft := rfl
theorem stOf_seqc (l : EncLL) : (stOf l).f_sequenceCounter = l.seqc := rfl
theorem stOf_mt (l : EncLL) : (stOf l).f_messageType = l.mt := rfl
theorem stOf_frames (l : EncLL) : (stOf l).f_cmpFrames = l.frames := rfl
theorem pkOf_mt (p : Packet) : (pkOf p).messageType = p.mt := rfl
theorem pkOf_len (p : Packet) : (pkOf p).payloadLength = p.payloadLength := rfl
theorem pkOf_data (p : Packet) : (pkOf p).rawPayload = p.data := rfl
theorem pkOf_fh (p : Packet) : (pkOf p).rawCmpHeader = frameHeader (p.version % 256) p.deviceId p.mt p.streamId p.seq := rfl
theorem pkOf_mh (p : Packet) : (pkOf p).rawMsgHeader = msgHeader p (p.flags % 256 &&& 0x0C) p.payloadLength := rfl

/-- a state written field by field is `stOf` of the model state with these fields -/
theorem mk_eq_stOf (a b c d : Nat) (e : Bytes) (f g h : Nat) (i : List Bytes) :
    ({ f_minBytesPerMessage := a, f_maxBytesPerMessage := b, f_deviceId := c, f_streamId := d, f_cmpFrameTemplate := e,
       f_bytesLeft := f, f_sequenceCounter := g, f_messageType := h, f_cmpFrames := i } : Encoder_St) =
    stOf { min := a, max := b, dev := c, stream := d, tmpl := e, bytesLeft := f, seqc := g, mt := h, frames := i } := rfl

/-! ### the invariant

  Closed frames (all but the last) are unconstrained; so are the ids, the counter and the message type. -/

/-- a valid configuration; the template is empty or allocated at `max` bytes -/
structure Cfg (l : EncLL) : Prop where
  max_ge : 25 ≤ l.max
  max_lt : l.max < 2 ^ 32
  min_le : l.min ≤ l.max
  tmpl : l.tmpl = [] ∨ l.tmpl.length = l.max

/-- the frame being filled is allocated at `max` bytes and `bytesLeft` lies inside its payload area -/
def Last (l : EncLL) : Prop := (lastD l.frames).length = l.max ∧ l.bytesLeft ≤ l.max - 8

/-- between public calls -/
structure Inv (l : EncLL) : Prop where
  cfg : Cfg l
  last : l.frames = [] ∨ Last l

/-- with a frame being filled (inside `putPacket`, and after it) -/
structure Open (l : EncLL) : Prop where
  cfg : Cfg l
  ne : l.frames ≠ []
  last : Last l

theorem Open.inv {l : EncLL} (h : Open l) : Inv l := ⟨h.cfg, Or.inr h.last⟩

/-- normal form of a translated method body on the state `stOf l`: member reads, `Option` steps, `size_t` arithmetic that does
    not wrap (side conditions by `omega` from the context); extra rewrite rules in brackets -/
macro "st_norm" " [" ls:Lean.Parser.Tactic.simpLemma,* "]" : tactic =>
  `(tactic| simp (disch := omega) only [stOf_min, stOf_max, stOf_dev, stOf_stream, stOf_tmpl, stOf_bytesLeft, stOf_seqc, stOf_mt,
      stOf_frames, pkOf_mt, pkOf_len, pkOf_data, pkOf_fh, pkOf_mh, bind, pure, some_bind, usub_eq', SrcTie.uadd_eq, beq_iff_eq, bne_iff_ne, ne_eq, ite_not, not_true_eq_false, not_false_eq_true, if_true, if_false, ite_true, ite_false,
      Bool.false_eq_true, $ls,*])

theorem closeLastFrame_src (l : EncLL) (h : Inv l) :
    Encoder_closeLastFrame_obj (stOf l) = some (stOf l.closeLastFrame, ()) := by
  obtain ⟨⟨h1, h2, h3, h4⟩, h5⟩ := h
  unfold Encoder_closeLastFrame_obj EncLL.closeLastFrame
  by_cases hf : l.frames = []
  · st_norm [hf, List.isEmpty_nil, List.getLast?_nil]
  · obtain ⟨h6, h7⟩ := h5.resolve_left hf
    rw [getLast?_of_ne hf]
    by_cases hb : l.bytesLeft = l.max - 8
    · st_norm [isEmpty_of_ne hf, nonEmpty_of_ne hf, hb]
      rfl
    · st_norm [isEmpty_of_ne hf, nonEmpty_of_ne hf, hb]
      rfl

theorem closeLastFrame_keeps (l : EncLL) :
    l.closeLastFrame.min = l.min ∧ l.closeLastFrame.max = l.max ∧ l.closeLastFrame.tmpl = l.tmpl ∧
    l.closeLastFrame.dev = l.dev ∧ l.closeLastFrame.stream = l.stream := by
  unfold EncLL.closeLastFrame
  split
  · simp
  · split <;> simp [EncLL.setLast]

theorem closeLastFrame_cfg {l : EncLL} (h : Cfg l) : Cfg l.closeLastFrame := by
  obtain ⟨e1, e2, e3, _, _⟩ := closeLastFrame_keeps l
  exact ⟨by rw [e2]; exact h.max_ge, by rw [e2]; exact h.max_lt, by rw [e1, e2]; exact h.min_le, by rw [e2, e3]; exact h.tmpl⟩

theorem createTemplate_length (l : EncLL) (p : Packet) (h : 8 ≤ l.max) : (l.createTemplate p).length = l.max := by
  have hfh := frameHeader_length (p.version % 256) p.deviceId p.mt p.streamId p.seq
  unfold EncLL.createTemplate
  len_omega

theorem createTemplate_src (l : EncLL) (p : Packet) (hc : Cfg l) (ht : l.tmpl = []) :
    Encoder_createCmpFrameTemplate_obj (stOf l) (pkOf p) = some (stOf { l with tmpl := l.createTemplate p }, ()) := by
  have h1 := hc.max_ge
  have h2 := hc.max_lt
  have hfh := frameHeader_length (p.version % 256) p.deviceId p.mt p.streamId p.seq
  unfold Encoder_createCmpFrameTemplate_obj EncLL.createTemplate
  st_norm [ht, resize_nil]
  simp (disch := len_omega) only [SrcTie.wrBytes_eq, setDeviceId_eq, setStreamId_eq, SrcTie.take_all, some_bind, Nat.zero_add]
  rfl


/-! ### `addNewCMPFrame` -/

theorem addNewCMPFrame_src (l : EncLL) (p : Packet) (h : Inv l) :
    Encoder_addNewCMPFrame_obj (stOf l) (pkOf p) = some (stOf (l.addNewCMPFrame p), ()) := by
  have hc := closeLastFrame_cfg h.cfg
  unfold Encoder_addNewCMPFrame_obj EncLL.addNewCMPFrame
  rw [closeLastFrame_src l h]
  generalize l.closeLastFrame = l1 at hc ⊢
  have h1 := hc.max_ge
  have h2 := hc.max_lt
  cases hte : l1.tmpl.isEmpty with
  | true =>
    have ht : l1.tmpl = [] := List.isEmpty_iff.mp hte
    have hl := createTemplate_length l1 p (by omega)
    st_norm [hte, createTemplate_src l1 p hc ht, nonEmpty_of_ne (concat_ne _ _), lastD_concat, setLast_concat]
    simp (disch := len_omega) only [setSequenceCounter_eq, some_bind, Nat.zero_add]
    rfl
  | false =>
    have ht : l1.tmpl ≠ [] := by intro e; rw [e] at hte; exact absurd hte (by decide)
    have hl := hc.tmpl.resolve_left ht
    st_norm [hte, nonEmpty_of_ne (concat_ne _ _), lastD_concat, setLast_concat]
    simp (disch := len_omega) only [setSequenceCounter_eq, some_bind, Nat.zero_add]
    rfl

theorem addNewCMPFrame_open (l : EncLL) (p : Packet) (h : Cfg l) :
    Open (l.addNewCMPFrame p) ∧ (l.addNewCMPFrame p).bytesLeft = l.max - 8 ∧ (l.addNewCMPFrame p).max = l.max ∧ (l.addNewCMPFrame p).min = l.min := by
  have hc := closeLastFrame_cfg h
  obtain ⟨e1, e2, _⟩ := closeLastFrame_keeps l
  unfold EncLL.addNewCMPFrame
  generalize l.closeLastFrame = l1 at hc e1 e2 ⊢
  have h1 := hc.max_ge
  cases hte : l1.tmpl.isEmpty with
  | true =>
    have hl := createTemplate_length l1 p (by omega)
    simp only [hte, if_true]
    refine ⟨⟨⟨hc.max_ge, hc.max_lt, hc.min_le, Or.inr hl⟩, concat_ne _ _, ?_, Nat.le_refl _⟩, by rw [e2], e2, e1⟩
    simp only [lastD_concat]
    len_omega
  | false =>
    have ht : l1.tmpl ≠ [] := by intro e; rw [e] at hte; exact absurd hte (by decide)
    have hl := hc.tmpl.resolve_left ht
    simp only [hte, Bool.false_eq_true, if_false]
    refine ⟨⟨⟨hc.max_ge, hc.max_lt, hc.min_le, hc.tmpl⟩, concat_ne _ _, ?_, Nat.le_refl _⟩, by rw [e2], e2, e1⟩
    simp only [lastD_concat]
    len_omega


theorem addNewCMPFrame_mt (l : EncLL) (p : Packet) : (l.addNewCMPFrame p).mt = l.mt := by
  have e : l.closeLastFrame.mt = l.mt := by
    unfold EncLL.closeLastFrame
    split
    · rfl
    · split <;> rfl
  unfold EncLL.addNewCMPFrame
  simp only
  split <;> exact e

/-! ### `setMessageType` -/

theorem retype_inv {l : EncLL} (h : Inv l) (mt : Nat) : Inv { l with mt := mt, tmpl := [] } :=
  ⟨⟨h.cfg.max_ge, h.cfg.max_lt, h.cfg.min_le, Or.inl rfl⟩, h.last⟩

theorem setMessageType_src (l : EncLL) (p : Packet) (h : Inv l) :
    Encoder_setMessageType_obj (stOf l) (pkOf p) = some (stOf (l.setMessageType p), ()) := by
  unfold Encoder_setMessageType_obj EncLL.setMessageType
  st_norm [mk_eq_stOf, addNewCMPFrame_src _ p (retype_inv h p.mt)]

theorem setMessageType_open (l : EncLL) (p : Packet) (h : Inv l) : Open (l.setMessageType p) :=
  (addNewCMPFrame_open _ p (retype_inv h p.mt).cfg).1

theorem setMessageType_mt (l : EncLL) (p : Packet) : (l.setMessageType p).mt = p.mt := by
  unfold EncLL.setMessageType
  rw [addNewCMPFrame_mt]


/-! ### `addNewDataHeader` -/

theorem addNewDataHeader_src (l : EncLL) (p : Packet) (n seg : Nat) (h : Open l) (hb : 16 ≤ l.bytesLeft) :
    Encoder_addNewDataHeader_obj (stOf l) (pkOf p) n seg = some (stOf (l.addNewDataHeader p n seg), ()) := by
  obtain ⟨hc, hne, h6, h7⟩ := h
  have h1 := hc.max_ge
  have h2 := hc.max_lt
  have hh := msgHeader_length p (p.flags % 256 &&& 0x0C) p.payloadLength
  unfold Encoder_addNewDataHeader_obj EncLL.addNewDataHeader
  rw [getLast?_of_ne hne]
  st_norm [nonEmpty_of_ne hne, lastD_setLast, setLast_setLast]
  simp (disch := len_omega) only [SrcTie.wrBytes_eq, setPayloadLength_eq, setSegmentType_eq, SrcTie.take_all, some_bind]
  rw [dataHeader_bytes _ _ _ _ _ hh (by omega)]
  rfl


theorem addNewDataHeader_open (l : EncLL) (p : Packet) (n seg : Nat) (h : Open l) (hb : 16 ≤ l.bytesLeft) :
    Open (l.addNewDataHeader p n seg) ∧ (l.addNewDataHeader p n seg).bytesLeft = l.bytesLeft - 16 ∧
      (l.addNewDataHeader p n seg).max = l.max := by
  obtain ⟨hc, hne, h6, h7⟩ := h
  have hh := msgHeader_length p (p.flags % 256 &&& 0x0C) p.payloadLength
  unfold EncLL.addNewDataHeader
  rw [getLast?_of_ne hne]
  simp only [EncLL.setLast]
  refine ⟨⟨⟨hc.max_ge, hc.max_lt, hc.min_le, hc.tmpl⟩, concat_ne _ _, ?_, ?_⟩, ?_⟩
  · simp only [lastD_concat]
    rw [C11.writeAt_length]
    · exact h6
    · len_omega
  · show l.bytesLeft - 16 ≤ l.max - 8
    omega
  · trivial

/-! ### `checkIfSegmented`, `buildSegmentationFlag` -/

theorem plen_lt (p : Packet) : p.payloadLength < 65536 := by
  unfold Packet.payloadLength; split <;> omega

theorem plen_le (p : Packet) : p.payloadLength ≤ p.data.length := by
  unfold Packet.payloadLength Packet.data
  split
  · exact Nat.zero_le _
  · exact Nat.mod_le _ _

theorem checkIfSegmented_src (l : EncLL) (p : Packet) (h : Inv l) :
    Encoder_checkIfSegmented_obj (stOf l) (pkOf p) = some (stOf (l.checkIfSegmented p).1, (l.checkIfSegmented p).2) := by
  have hl := plen_lt p
  unfold Encoder_checkIfSegmented_obj EncLL.checkIfSegmented
  st_norm []
  generalize (!l.frames.isEmpty && decide (l.bytesLeft < 16 + p.payloadLength)) = b
  cases b with
  | false => st_norm []
  | true => st_norm [addNewCMPFrame_src l p h] <;> rfl

theorem checkIfSegmented_open (l : EncLL) (p : Packet) (h : Open l) :
    Open (l.checkIfSegmented p).1 ∧ (0 < p.payloadLength → 17 ≤ (l.checkIfSegmented p).1.bytesLeft) := by
  have h1 := h.cfg.max_ge
  unfold EncLL.checkIfSegmented
  simp only [isEmpty_of_ne h.ne, Bool.not_false, Bool.true_and, decide_eq_true_eq]
  by_cases hb : l.bytesLeft < 16 + p.payloadLength
  · obtain ⟨ho, e, _⟩ := addNewCMPFrame_open l p h.cfg
    simp only [hb, if_true]
    exact ⟨ho, fun _ => by rw [e]; omega⟩
  · simp only [hb, if_false]
    exact ⟨h, fun _ => by omega⟩

theorem buildSegmentationFlag_src (s : Encoder_St) (isSeg : Bool) (segInd n len pos : Nat) (h : pos + n < 2 ^ 64) :
    Encoder_buildSegmentationFlag_obj s isSeg segInd n len pos = some (s, EncLL.segFlag isSeg segInd n len pos) := by
  unfold Encoder_buildSegmentationFlag_obj EncLL.segFlag
  src_norm
  (repeat' split) <;> first | rfl | omega

end AsamCmp.SrcEnc
