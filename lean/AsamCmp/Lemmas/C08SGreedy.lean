/-
  Helper lemmas for Props/C08S.lean: the greedy-fill fold invariant of Lemmas/EncStruct.lean
  (`putPacket_greedy` / `foldl_greedy`, which need `1 ≤ payloadLength` of EVERY packet), redone for
  batches that may contain empty payloads — provided an empty payload has the message type of the
  packet in front of it (or is the first of the batch).  Nothing here changes an existing definition.
-/
import AsamCmp.Lemmas.EncStruct
namespace AsamCmp.C08S
open AsamCmp

/-- "an empty payload has the message type of its predecessor": over the batch given as
    (message type, payload length) per packet, as `P_C08` takes it; `prev` is the message type of the
    packet in front (`none` at the start of the batch: a leading empty payload is harmless) -/
def emptyFollows : Option Nat → List (Nat × Nat) → Bool
  | _, [] => true
  | prev, (mt, len) :: r =>
    (decide (len ≠ 0) || prev == none || prev == some mt) && emptyFollows (some mt) r

/-- a batch without empty payloads satisfies `emptyFollows` trivially -/
theorem emptyFollows_of_pos : ∀ (b : List (Nat × Nat)) (prev : Option Nat),
    (∀ x ∈ b, 1 ≤ x.2) → emptyFollows prev b = true := by
  intro b
  induction b with
  | nil => intro _ _; rfl
  | cons x r ih =>
    intro prev h
    obtain ⟨mt, len⟩ := x
    have h1 : 1 ≤ len := h (mt, len) (by simp)
    have h2 : decide (len ≠ 0) = true := decide_eq_true (by omega)
    simp only [emptyFollows, h2, Bool.true_or, Bool.true_and]
    exact ih _ (fun y hy => h y (by simp [hy]))

/-- between two packets, empty payloads allowed: an empty open frame follows a segment, or a frame
    with fewer than 16 free bytes (which no message fits) -/
def BtwE (c : Ctx) (s : Enc) : Prop :=
  (s.cur = none → s.closed = []) ∧
  (∀ l f, s.closed.getLast? = some l → s.cur = some f → f.msgs = [] → HasSeg l ∨ c.cap < l.used + 16)

theorem st1_whyE {c : Ctx} {s : Enc} (p : Packet) (n : Nat) (hn : 16 ≤ n) (hb : Basic c s) (h : BtwE c s) :
    Why c n (st1 s p) := by
  unfold st1
  split
  · rename_i hcond
    intro l F hl hF hF0
    obtain ⟨q, hq⟩ := Enc.addNew_cur (s.retype p.mt) p
    rw [hq] at hF
    cases hF
    rcases addNew_last _ p l hl with ⟨f, hf, hf0, rfl⟩ | ⟨hf, hl'⟩
    · right; left
      have hf' : s.cur = some l := hf
      have hmt := (hb.curmt l hf').1
      simp [hf'] at hcond
      simp [Enc.retype]
      omega
    · cases hc : s.cur with
      | none =>
        have := h.1 hc
        have hl'' : s.closed.getLast? = some l := hl'
        simp [this] at hl''
      | some f =>
        rcases h.2 l f hl' hc (hf f hc) with h' | h'
        · exact Or.inl h'
        · right; right; omega
  · intro l f hl hf hf0
    rcases h.2 l f hl hf hf0 with h' | h'
    · exact Or.inl h'
    · right; right; omega

theorem st2_whyE {c : Ctx} {s : Enc} (p : Packet) (hb : Basic c s) (h : BtwE c s) :
    Why c (16 + p.payloadLength) (st2 c s p) := by
  have h1 := st1_whyE (c := c) p (16 + p.payloadLength) (by omega) hb h
  have hb1 := st1_basic p hb
  unfold st2
  split
  · rename_i hlt
    intro l F hl hF hF0
    obtain ⟨q, hq⟩ := Enc.addNew_cur (st1 s p) p
    rw [hq] at hF
    cases hF
    have hs := st1_cur s p
    cases hc : (st1 s p).cur with
    | none => simp [hc] at hs
    | some f =>
      have hm := hb1.1.curmt f hc
      have htm : ((st1 s p).tmpl.getD (p.version % 256, p.mt)).2 = f.mt := by
        cases ht : (st1 s p).tmpl with
        | none => have := hm.2.1; simp [ht] at this
        | some t => simp [(hb1.1.tm t ht).1, hm.1]
      rcases addNew_last _ p l hl with ⟨f', hf', hf0', rfl⟩ | ⟨hf', hl'⟩
      · rw [hc] at hf'
        cases hf'
        right; right
        simp only [Enc.left, hc] at hlt
        omega
      · have := h1 l f hl' hc (hf' f hc)
        simpa [htm] using this
  · exact h1

theorem putSegs_curMt (p : Packet) (ms : List EMsg) :
    ∀ s : Enc, (putSegs s p ms).curMt = s.curMt := by
  induction ms with
  | nil => intro s; rfl
  | cons m ms ih =>
    intro s
    rw [putSegs, ih, Enc.addNew_curMt, add_curMtS]

/-- after `putPacket` the encoder's message type is the packet's -/
theorem putPacket_curMt {c : Ctx} {s : Enc} (ip : Nat × Packet) (hb : Basic c s) :
    (putPacket c s ip).curMt = ip.2.mt := by
  obtain ⟨i, p⟩ := ip
  rw [putPacket_eqS]
  have h1 := st1_basic p hb
  have h2 := st2_basic (c := c) p hb
  split
  · exact h2.2
  · split
    · rw [add_curMtS]; exact h2.2
    · rw [putSegs_curMt, Enc.addNew_curMt]; exact h1.2

/-- `putPacket_greedy` for a packet whose payload may be empty, if then the open frame (when there is
    one) already has the packet's message type -/
theorem putPacket_greedyE {c : Ctx} (hcap : 17 ≤ c.cap) {s : Enc} (ip : Nat × Packet)
    (hlen : ip.2.payloadLength = 0 → s.cur.isSome → s.curMt = ip.2.mt)
    (hb : Basic c s) (hg : GV c s) (h : BtwE c s) :
    GV c (putPacket c s ip) ∧ BtwE c (putPacket c s ip) := by
  obtain ⟨i, p⟩ := ip
  simp only at hlen
  rw [putPacket_eqS]
  have hle : p.payloadLength ≤ p.data.length := by rw [payloadLength_eq]; exact Nat.mod_le _ _
  by_cases h0 : p.payloadLength = 0
  · rw [if_pos h0]
    refine ⟨by unfold GV; rw [st2_vis]; exact hg, ?_, ?_⟩
    · intro hn
      have := st2_cur c s p
      simp [hn] at this
    · intro l f hl hf hf0
      cases hc : s.cur with
      | none =>
        have e1 : st1 s p = (s.retype p.mt).addNew p := by
          unfold st1; rw [if_pos (by simp [hc])]
        have e2 : st2 c s p = st1 s p := by
          unfold st2
          rw [if_neg]
          rw [e1, Enc.addNew_left]; omega
        rw [e2, e1, Enc.addNew_closed, retype_vis] at hl
        unfold Enc.vis at hl
        rw [hc, h.1 hc] at hl
        simp at hl
      | some g =>
        have hmt : s.curMt = p.mt := hlen h0 (by simp [hc])
        have e1 : st1 s p = s := by
          unfold st1; rw [if_neg (by simp [hc, hmt])]
        by_cases hlt : s.left c < 16 + p.payloadLength
        · have e2 : st2 c s p = s.addNew p := by
            unfold st2; rw [e1, if_pos hlt]
          rw [e2] at hl
          rcases addNew_last s p l hl with ⟨f', hf', hf0', rfl⟩ | ⟨hf', hl'⟩
          · right
            simp only [Enc.left, hf'] at hlt
            omega
          · exact h.2 l g hl' hc (hf' g hc)
        · have e2 : st2 c s p = s := by
            unfold st2; rw [e1, if_neg hlt]
          rw [e2] at hl hf
          exact h.2 l f hl hf hf0
  · rw [if_neg h0]
    by_cases hfit : 16 + p.payloadLength ≤ c.cap
    · rw [if_pos hfit]
      have hw := st2_whyE (c := c) p hb h
      have hc2 := st2_cur c s p
      refine ⟨?_, ?_⟩
      · apply add_GV
        · unfold GV; rw [st2_vis]; exact hg
        · intro l f hl hf hf0
          apply G_of_why _ _ rfl
          have := hw l f hl hf hf0
          simpa [EMsg.size, List.length_take, Nat.min_eq_left hle] using this
      · cases hc : (st2 c s p).cur with
        | none => simp [hc] at hc2
        | some f =>
          rw [Enc.add_some _ _ f hc]
          refine ⟨by simp, ?_⟩
          intro l g _ hg' hg0
          simp at hg'
          subst hg'
          simp at hg0
    · rw [if_neg hfit]
      have hseg : ∀ m ∈ segMsgs i p true (chunks (c.cap - 16) (p.data.take p.payloadLength)), m.seg ≠ 0 := by
        intro m hm
        obtain ⟨_, _, h3, _⟩ := segMsgs_mem _ _ _ _ m hm
        omega
      have hne : segMsgs i p true (chunks (c.cap - 16) (p.data.take p.payloadLength)) ≠ [] := by
        have : p.data.take p.payloadLength ≠ [] := by
          intro e
          have := congrArg List.length e
          rw [List.length_take, List.length_nil] at this
          omega
        rw [chunks_cons _ _ (by omega) this]
        simp [segMsgs]
      refine ⟨?_, ?_⟩
      · apply putSegs_GV p _ _ _ hseg
        unfold GV; rw [Enc.addNew_vis, st1_vis]; exact hg
      · obtain ⟨h1, l, h2, h3⟩ := putSegs_last p _ _ (addNew_curEmpty (st1 s p) p) hne hseg
        refine ⟨?_, ?_⟩
        · intro hn; simp [hn] at h1
        · intro l' f hl' _ _
          rw [h2] at hl'
          cases hl'
          exact Or.inl h3

theorem foldl_greedyE {c : Ctx} (hcap : 17 ≤ c.cap) (ib : List (Nat × Packet)) :
    ∀ (s : Enc) (prev : Option Nat), Basic c s → GV c s → BtwE c s →
      (s.cur.isSome → prev = some s.curMt) →
      emptyFollows prev (ib.map fun ip => (ip.2.mt, ip.2.payloadLength)) = true →
      GV c (ib.foldl (putPacket c) s) := by
  induction ib with
  | nil => intro s _ _ h _ _ _; exact h
  | cons ip ib ih =>
    intro s prev hb hg h hprev hef
    simp only [List.map_cons, emptyFollows, Bool.and_eq_true, Bool.or_eq_true, decide_eq_true_eq,
      beq_iff_eq] at hef
    have hstep := putPacket_greedyE hcap ip (by
      intro h0 hs
      have hp := hprev hs
      rcases hef.1 with (h1 | h1) | h1
      · exact absurd h0 h1
      · rw [hp] at h1; cases h1
      · rw [hp] at h1; exact Option.some.inj h1) hb hg h
    rw [List.foldl_cons]
    exact ih _ (some ip.2.mt) (putPacket_basic hcap ip hb) hstep.1 hstep.2
      (fun _ => by rw [putPacket_curMt ip hb]) hef.2

/-- the greedy chain of the frames of one `encode` call, for batches with empty payloads that keep the
    message type of their predecessor -/
theorem encode_greedyE (e : Enc) (batch : List Packet) (c : Ctx) (hcap : 17 ≤ c.cap)
    (hef : emptyFollows none (batch.map fun p => (p.mt, p.payloadLength)) = true) :
    GreedyE c (e.encode batch c).2 := by
  rw [encode_frames]
  apply foldl_greedyE hcap _ _ none (start_basic c e)
  · simp [GV, Enc.vis, Enc.start, GreedyE]
  · simp [BtwE, Enc.start]
  · simp [Enc.start]
  · have : ((List.range batch.length).zip batch).map (fun ip => (ip.2.mt, ip.2.payloadLength)) =
        (((List.range batch.length).zip batch).map Prod.snd).map (fun p => (p.mt, p.payloadLength)) := by
      rw [List.map_map]; rfl
    rw [this, zip_snd]
    exact hef

end AsamCmp.C08S
