/-
  C06 on bytes, part 2: the abstract sent stream (`SStream`) of what the encoder model emits.
-/
import AsamCmp.Lemmas.FaultBytesRun
namespace AsamCmp.C06b
open AsamCmp AsamCmp.C01

/-- everything known about the frames of one `encode` call -/
structure Setup where
  c : Ctx
  min : Nat
  dev : Nat
  stream : Nat
  v : Nat
  ib : List (Nat × Packet)
  fs : List EFrame
  hcap : 17 ≤ c.cap
  hdev : dev < 65536
  hstream : stream < 256
  hv1 : 1 ≤ v
  hv : v < 256
  hwf : ∀ ip ∈ ib, ip.2.WF
  hver : ∀ ip ∈ ib, ip.2.version = v
  hg : GoodL dev stream v fs
  hflat : fs.flatMap (·.msgs) = ib.flatMap (fun ip => pieces c ip.1 ip.2)
  hN : fs.length < 65536

/-! ### ghost coordinates of a segment frame -/

/-- segment flag of the first message of frame `i` (0 if there is none) -/
def headSegAt (fs : List EFrame) (i : Nat) : Nat :=
  match fs[i]? with
  | some f => (match f.msgs with | m :: _ => m.seg | [] => 0)
  | none => 0

/-- position of frame `i` in its run: frames since the last first-segment -/
def kOf (fs : List EFrame) : Nat → Nat
  | 0 => 0
  | i+1 => if headSegAt fs (i+1) = 4 then 0 else kOf fs i + 1

/-- number of segments of the packet of `m` -/
def nOf (c : Ctx) (m : EMsg) : Nat := (chunks (c.cap - 16) m.pkt.data).length

theorem chunks_len2 (n : Nat) (hn : 0 < n) (l : Bytes) (hl : n < l.length) : 2 ≤ (chunks n l).length := by
  have hne : l ≠ [] := by intro e; simp [e] at hl
  have hd : l.drop n ≠ [] := by
    intro e
    have := congrArg List.length e
    simp at this; omega
  rw [chunks_cons n l hn hne, chunks_cons n _ hn hd]
  simp

theorem segCode_ne_zero (k n : Nat) : segCode k n ≠ 0 := by
  rcases segCode_cases k n with h | h | h <;> omega

theorem headSegAt_run {c : Ctx} {fs : List EFrame} {i0 : Nat} {ip : Nat × Packet}
    (h : InRun c fs i0 ip) (j : Nat) (hj : j < (chunks (c.cap - 16) ip.2.data).length) :
    headSegAt fs (i0 + j) = segCode j (chunks (c.cap - 16) ip.2.data).length := by
  have : ∃ x, (segMsgs ip.1 ip.2 true (chunks (c.cap - 16) ip.2.data))[j]? = some x := by
    rw [← segMsgs_length ip.1 ip.2 true] at hj
    exact ⟨_, List.getElem?_eq_getElem hj⟩
  obtain ⟨m, hm⟩ := this
  obtain ⟨f, hf, hfm⟩ := h.2 j m hm
  obtain ⟨x, _, hx⟩ := segMsgs_true_get _ _ _ _ _ hm
  simp [headSegAt, hf, hfm, hx]

theorem kOf_run {c : Ctx} {fs : List EFrame} {i0 : Nat} {ip : Nat × Packet}
    (h : InRun c fs i0 ip) : ∀ j, j < (chunks (c.cap - 16) ip.2.data).length → kOf fs (i0 + j) = j := by
  intro j
  induction j with
  | zero =>
    intro hj
    cases i0 with
    | zero => rfl
    | succ i =>
      have := headSegAt_run h 0 hj
      simp only [Nat.add_zero] at this ⊢
      simp [kOf, this, segCode]
  | succ j ih =>
    intro hj
    have := headSegAt_run h (j + 1) hj
    have h4 : segCode (j + 1) (chunks (c.cap - 16) ip.2.data).length ≠ 4 := by
      simp only [segCode]
      split
      · omega
      · split <;> omega
    rw [show i0 + (j + 1) = (i0 + j) + 1 by omega] at this ⊢
    simp only [kOf, this, h4, if_false, ih (by omega)]

/-! ### the sent stream -/

def sentOf (X : Setup) (i : Nat) : Option Sent :=
  match X.fs[i]? with
  | none => none
  | some f =>
    match f.msgs with
    | m :: _ =>
      if m.seg = 0 then some (.unsegF (PF X.min f).unseg (PF X.min f).term)
      else some (.segF ⟨X.v, f.mt, m.idx, kOf X.fs i, nOf X.c m, msgHeader m.pkt m.seg m.body.length, m.body⟩)
    | [] => some (.unsegF (PF X.min f).unseg (PF X.min f).term)

theorem sentOf_isSome (X : Setup) (i : Nat) : (sentOf X i).isSome ↔ i < X.fs.length := by
  unfold sentOf
  constructor
  · intro h
    cases hf : X.fs[i]? with
    | none => simp [hf] at h
    | some f => exact (List.getElem?_eq_some_iff.mp hf).1
  · intro h
    rw [List.getElem?_eq_getElem h]
    simp only
    split
    · split <;> rfl
    · rfl

theorem sentOf_seg (X : Setup) {i : Nat} {f : EFrame} {m : EMsg} {ms : List EMsg}
    (hf : X.fs[i]? = some f) (hm : f.msgs = m :: ms) (hs : m.seg ≠ 0) :
    sentOf X i = some (.segF ⟨X.v, f.mt, m.idx, kOf X.fs i, nOf X.c m,
      msgHeader m.pkt m.seg m.body.length, m.body⟩) := by
  simp [sentOf, hf, hm, hs]

theorem sentOf_unseg (X : Setup) {i : Nat} {f : EFrame}
    (hf : X.fs[i]? = some f) (hall : ∀ m ∈ f.msgs, m.seg = 0) :
    sentOf X i = some (.unsegF (PF X.min f).unseg (PF X.min f).term) := by
  unfold sentOf
  rw [hf]
  simp only
  split
  · rename_i m ms hm
    rw [if_pos (hall m (by rw [hm]; simp))]
  · rfl

theorem frame_mem (X : Setup) {i : Nat} {f : EFrame} (hf : X.fs[i]? = some f) : f ∈ X.fs :=
  List.mem_of_getElem? hf

/-- an unsegmented entry of the stream comes from a frame of unsegmented messages -/
theorem sentOf_unseg_inv (X : Setup) {i : Nat} {pkts : List Packet} {t : Term}
    (h : sentOf X i = some (.unsegF pkts t)) :
    ∃ f, X.fs[i]? = some f ∧ (∀ m ∈ f.msgs, m.seg = 0) ∧ pkts = (PF X.min f).unseg ∧ t = (PF X.min f).term := by
  unfold sentOf at h
  cases hf : X.fs[i]? with
  | none => simp [hf] at h
  | some f =>
    have hfo := X.hg.1 f (frame_mem X hf)
    rw [hf] at h
    simp only at h
    split at h
    · rename_i m ms hm
      by_cases hs : m.seg = 0
      · rw [if_pos hs] at h
        simp only [Option.some.injEq, Sent.unsegF.injEq] at h
        exact ⟨f, rfl, head_unseg hfo hm hs, h.1.symm, h.2.symm⟩
      · rw [if_neg hs] at h
        simp at h
    · rename_i hm
      exact absurd hm hfo.ne

/-- a segment entry of the stream: the frame, its message, and the run it lies in -/
theorem sentOf_seg_inv (X : Setup) {i : Nat} {sf : SF} (h : sentOf X i = some (.segF sf)) :
    ∃ f ip i0 j x, X.fs[i]? = some f ∧ ip ∈ X.ib ∧ i = i0 + j ∧ InRun X.c X.fs i0 ip ∧
      2 ≤ (chunks (X.c.cap - 16) ip.2.data).length ∧
      (chunks (X.c.cap - 16) ip.2.data)[j]? = some x ∧
      f.msgs = [⟨ip.1, ip.2, segCode j (chunks (X.c.cap - 16) ip.2.data).length, x⟩] ∧
      f.mt = ip.2.mt ∧
      sf = ⟨X.v, ip.2.mt, ip.1, j, (chunks (X.c.cap - 16) ip.2.data).length,
        msgHeader ip.2 (segCode j (chunks (X.c.cap - 16) ip.2.data).length) x.length, x⟩ := by
  cases hf : X.fs[i]? with
  | none => simp [sentOf, hf] at h
  | some f =>
    have hfo := X.hg.1 f (frame_mem X hf)
    cases hm : f.msgs with
    | nil => exact absurd hm hfo.ne
    | cons m ms =>
      by_cases hs : m.seg = 0
      · rw [sentOf_unseg X hf (head_unseg hfo hm hs)] at h
        simp at h
      · have hms : ms = [] := head_seg hfo hm hs
        subst hms
        rw [sentOf_seg X hf hm hs] at h
        simp only [Option.some.injEq, Sent.segF.injEq] at h
        obtain ⟨ip, hip, i0, j, hij, hrun, hj⟩ := runs X.c X.ib X.hwf X.fs X.hg X.hflat i f m [] hf hm hs
        obtain ⟨x, hx, hmx⟩ := segMsgs_true_get _ _ _ _ _ hj
        have hjn : j < (chunks (X.c.cap - 16) ip.2.data).length := (List.getElem?_eq_some_iff.mp hx).1
        have hk := kOf_run hrun j hjn
        have hmt : f.mt = ip.2.mt := by
          have := hfo.mts m (by rw [hm]; simp)
          rw [← this, hmx]
        have hd := wf_data (X.hwf ip hip)
        have h2 := chunks_len2 (X.c.cap - 16) (by have := X.hcap; omega) ip.2.data (by have := hrun.1; omega)
        refine ⟨f, ip, i0, j, x, rfl, hip, hij, hrun, h2, hx, by rw [hm, hmx], hmt, ?_⟩
        rw [← h, hij, hk, hmt, hmx]
        simp [nOf]

/-- conversely, the entries along a run -/
theorem sentOf_run (X : Setup) {i0 : Nat} {ip : Nat × Packet} (_hip : ip ∈ X.ib)
    (hrun : InRun X.c X.fs i0 ip) (j : Nat) (x : Bytes)
    (hx : (chunks (X.c.cap - 16) ip.2.data)[j]? = some x) :
    sentOf X (i0 + j) = some (.segF ⟨X.v, ip.2.mt, ip.1, j, (chunks (X.c.cap - 16) ip.2.data).length,
        msgHeader ip.2 (segCode j (chunks (X.c.cap - 16) ip.2.data).length) x.length, x⟩) := by
  have hjn : j < (chunks (X.c.cap - 16) ip.2.data).length := (List.getElem?_eq_some_iff.mp hx).1
  have : ∃ m, (segMsgs ip.1 ip.2 true (chunks (X.c.cap - 16) ip.2.data))[j]? = some m := by
    rw [← segMsgs_length ip.1 ip.2 true] at hjn
    exact ⟨_, List.getElem?_eq_getElem hjn⟩
  obtain ⟨m, hm⟩ := this
  obtain ⟨x', hx', hmx⟩ := segMsgs_true_get _ _ _ _ _ hm
  rw [hx] at hx'
  cases hx'
  obtain ⟨f, hf, hfm⟩ := hrun.2 j m hm
  have hfo := X.hg.1 f (frame_mem X hf)
  have hmt : f.mt = ip.2.mt := by
    have := hfo.mts m (by rw [hfm]; simp)
    rw [← this, hmx]
  rw [sentOf_seg X hf hfm (by rw [hmx]; exact segCode_ne_zero _ _), kOf_run hrun j hjn, hmt, hmx]
  simp [nOf]

/-- counter of frame `i` -/
def s0Of (fs : List EFrame) : Nat := match fs with | f :: _ => f.seq | [] => 0

theorem chain_seq : ∀ (fs : List EFrame), Chain fs → (∀ f ∈ fs, f.seq < 65536) →
    ∀ i f, fs[i]? = some f → f.seq = (s0Of fs + i) % 65536 := by
  intro fs
  induction fs with
  | nil => intro _ _ i f h; simp at h
  | cons f1 fs ih =>
    intro hc hlt i f hi
    cases i with
    | zero =>
      have hf1 := hlt f1 (by simp)
      simp at hi; subst hi
      simp [s0Of]; omega
    | succ i =>
      simp only [List.getElem?_cons_succ] at hi
      have := ih hc.tail (fun g hg => hlt g (by simp [hg])) i f hi
      rw [this]
      cases fs with
      | nil => simp at hi
      | cons f2 r =>
        have h2 : f2.seq = (f1.seq + 1) % 65536 := hc.1
        simp only [s0Of, h2]
        omega

def Setup.S (X : Setup) : SStream where
  ep := (X.dev, X.stream)
  N := X.fs.length
  s0 := s0Of X.fs
  at_ := sentOf X
  hN := X.hN
  dom := sentOf_isSome X
  unsegT := by
    intro i pkts t h m hm
    obtain ⟨f, hf, hall, _, ht⟩ := sentOf_unseg_inv X h
    have hfo := X.hg.1 f (frame_mem X hf)
    obtain ⟨t', ht', hp⟩ := parse_unseg X.min f hfo.toHdrOk X.hdev X.hstream X.hv
      (fun m hm => ⟨(hfo.msgs m hm).wf, hfo.mts m hm, hall m hm, (hfo.msgs m hm).whole (hall m hm)⟩)
    have : t = t' := by rw [ht]; unfold PF; rw [hp]
    subst this
    rcases ht' with rfl | rfl <;> cases hm
  next := by
    intro i sf h hk
    obtain ⟨f, ip, i0, j, x, hf, hip, hij, hrun, h2, hx, hfm, hmt, rfl⟩ := sentOf_seg_inv X h
    simp only at hk
    have : ∃ y, (chunks (X.c.cap - 16) ip.2.data)[j + 1]? = some y :=
      ⟨_, List.getElem?_eq_getElem hk⟩
    obtain ⟨y, hy⟩ := this
    have := sentOf_run X hip hrun (j + 1) y hy
    rw [show i0 + (j + 1) = i + 1 by omega] at this
    exact ⟨_, this, rfl, rfl, rfl, rfl, rfl⟩
  kn := by
    intro i sf h
    obtain ⟨f, ip, i0, j, x, hf, hip, hij, hrun, h2, hx, hfm, hmt, rfl⟩ := sentOf_seg_inv X h
    exact ⟨(List.getElem?_eq_some_iff.mp hx).1, h2⟩
  hdrOk := by
    intro i sf h
    obtain ⟨f, ip, i0, j, x, hf, hip, hij, hrun, h2, hx, hfm, hmt, rfl⟩ := sentOf_seg_inv X h
    refine ⟨msgHeader_length .., ?_⟩
    apply segTypeOf_hdr
    rcases segCode_cases j (chunks (X.c.cap - 16) ip.2.data).length with h | h | h <;> simp [h]

end AsamCmp.C06b
