/-
  Source-level encoder, part 1: what the translated methods of `Encoder` (GeneratedSrcObj.lean) are made of.

  * lists of byte vectors: `back()` / `pop_back()` / assignment through `back()` (`lastD`, `setLast`, `nonEmpty` of Src/Obj.lean);
  * the translated header writers (`CmpHeader_set…`, `MessageHeader_set…` of GeneratedSrc.lean) as `writeAt`s;
  * the three writes of `addNewDataHeader` into the frame as ONE write of the rewritten 16-byte header (what the model does);
  * `size_t` / `int` arithmetic that provably does not wrap.

  Nothing here mentions a translated `Encoder` method.
-/
import AsamCmp.GeneratedSrcObj
import AsamCmp.EncoderLL
import AsamCmp.Lemmas.SrcBuilders
import AsamCmp.Lemmas.BitProgMem
import AsamCmp.Lemmas.TileBytes
set_option linter.unusedSimpArgs false
namespace AsamCmp.SrcEnc
open AsamCmp AsamCmp.Src AsamCmp.SrcGen

/-! ### `Option` steps (non-`rfl` restatements, see Lemmas/SrcPrim.lean) -/

theorem some_bind {α β : Type} (a : α) (f : α → Option β) : (some a).bind f = f a := SrcTie.some_bind a f

theorem some_map {α β : Type} (a : α) (f : α → β) : (some a).map f = some (f a) := by
  rw [Option.map_some]

/-! ### vectors of byte vectors -/

theorem nonEmpty_of_ne {l : List Bytes} (h : l ≠ []) : nonEmpty l = some () := by
  cases l with
  | nil => exact absurd rfl h
  | cons a t => rfl

theorem isEmpty_of_ne {l : List Bytes} (h : l ≠ []) : l.isEmpty = false := by
  cases l with
  | nil => exact absurd rfl h
  | cons a t => rfl

theorem getLast?_of_ne {l : List Bytes} (h : l ≠ []) : l.getLast? = some (lastD l) := by
  induction l using snocInd with
  | hnil => exact absurd rfl h
  | hsnoc xs x _ => simp [lastD]

theorem lastD_concat (l : List Bytes) (x : Bytes) : lastD (l ++ [x]) = x := by simp [lastD]

theorem setLast_concat (l : List Bytes) (x y : Bytes) : Src.setLast (l ++ [x]) y = l ++ [y] := by
  simp [Src.setLast]

theorem lastD_setLast (l : List Bytes) (y : Bytes) : lastD (Src.setLast l y) = y := lastD_concat _ _

theorem setLast_setLast (l : List Bytes) (y z : Bytes) : Src.setLast (Src.setLast l y) z = Src.setLast l z :=
  setLast_concat _ _ _

theorem setLast_ne (l : List Bytes) (y : Bytes) : Src.setLast l y ≠ [] := by simp [Src.setLast]

theorem concat_ne (l : List Bytes) (y : Bytes) : l ++ [y] ≠ [] := by simp

/-! ### bytes -/

theorem resize_nil (n : Nat) : resize [] n = zeros n := by
  unfold resize zeros
  cases n with
  | zero => rfl
  | succ k => simp

theorem byteAt_writeAt_inner {M X : Bytes} {a i : Nat} (hX : a + X.length ≤ M.length) (hi : i < X.length) :
    byteAt (writeAt M a X) (a + i) = byteAt X i := by
  unfold byteAt
  have h1 : ¬ a + i < a := by omega
  have h2 : a + i < a + X.length := by omega
  have h3 : a + i - a = i := by omega
  rw [List.getD_eq_getElem?_getD, List.getD_eq_getElem?_getD, C11.getElem?_writeAt hX, if_neg h1, if_pos h2, h3]

theorem byteAt_singleton_write {M : Bytes} {a : Nat} (x : UInt8) (h : a + 1 ≤ M.length) :
    byteAt (writeAt M a [x]) a = x.toNat := by
  have := byteAt_writeAt_inner (M := M) (X := [x]) (a := a) (i := 0) (by simpa using h) (by simp)
  simpa [byteAt] using this

theorem and_not12 (b : Nat) (h : b < 256) : (b &&& bnot 32 12) % 256 = b &&& 0xF3 := by
  have e : bnot 32 12 = 4294967283 := by decide
  have := Nat.and_mod_two_pow (a := b) (b := 4294967283) (n := 8)
  simp only [Nat.reducePow, Nat.reduceMod] at this
  rw [e, this, Nat.mod_eq_of_lt h]

/-! ### the translated header writers -/

theorem setDeviceId_eq (t : Bytes) (a d : Nat) (h : a + 4 ≤ t.length) :
    CmpHeader_setDeviceId t a d = some (writeAt t (a + 2) (beEnc 2 d)) := by
  simp (disch := omega) only [CmpHeader_setDeviceId, bind, pure, some_bind, SrcTie.swap16_bytes, SrcTie.wr_eq,
    SrcTie.leEnc_swap16]

theorem setSequenceCounter_eq (t : Bytes) (a d : Nat) (h : a + 8 ≤ t.length) :
    CmpHeader_setSequenceCounter t a d = some (writeAt t (a + 6) (beEnc 2 d)) := by
  simp (disch := omega) only [CmpHeader_setSequenceCounter, bind, pure, some_bind, SrcTie.swap16_bytes, SrcTie.wr_eq,
    SrcTie.leEnc_swap16]

theorem setStreamId_eq (t : Bytes) (a d : Nat) (h : a + 6 ≤ t.length) :
    CmpHeader_setStreamId t a d = some (writeAt t (a + 5) [UInt8.ofNat d]) := by
  simp (disch := omega) only [CmpHeader_setStreamId, bind, pure, some_bind, SrcTie.wr_eq, SrcTie.leEnc_one]

theorem setPayloadLength_eq (t : Bytes) (a d : Nat) (h : a + 16 ≤ t.length) :
    MessageHeader_setPayloadLength t a d = some (writeAt t (a + 14) (beEnc 2 d)) := by
  simp (disch := omega) only [MessageHeader_setPayloadLength, bind, pure, some_bind, SrcTie.swap16_bytes, SrcTie.wr_eq,
    SrcTie.leEnc_swap16]

/-- `flags = (flags & ~0x0C) | type` on the byte at offset 12 -/
theorem setSegmentType_eq (t : Bytes) (a seg : Nat) (h : a + 13 ≤ t.length) :
    MessageHeader_setSegmentType t a seg =
      some (writeAt t (a + 12) [UInt8.ofNat ((byteAt t (a + 12) &&& 0xF3) ||| seg)]) := by
  have hb := SrcTie.byteAt_lt t (a + 12)
  have hl : (writeAt t (a + 12) [UInt8.ofNat (byteAt t (a + 12) &&& 0xF3)]).length = t.length :=
    C11.writeAt_length (by simpa using h)
  have hm : (byteAt t (a + 12) &&& 0xF3) % 256 = byteAt t (a + 12) &&& 0xF3 :=
    Nat.mod_eq_of_lt (Nat.lt_of_le_of_lt Nat.and_le_right (by decide))
  simp only [MessageHeader_setSegmentType, bind, pure]
  -- calls whose value is known by unfolding (`to_underlying`, whatever its generated name is) / reads and writes
  repeat (first
    | (guard_target =~ Option.bind _ _ = _; refine SrcTie.bind_of_eq rfl ?_)
    | (simp (disch := len_omega) only [some_bind, SrcTie.rd_eq, SrcTie.leAt_one, and_not12 _ hb, SrcTie.wr_eq,
        SrcTie.leEnc_one, byteAt_singleton_write, hl]))
  try rw [SrcTie.u8_ofNat_mod]
  rw [C11.writeAt_writeAt_same (by simpa using h) (by simp), UInt8.toNat_ofNat', hm]

/-! ### `addNewDataHeader`: raw header, payload length, segment type — one write of the rewritten header -/

theorem dataHeader_bytes (f hdr : Bytes) (pos n seg : Nat) (hh : hdr.length = 16) (hp : pos + 16 ≤ f.length) :
    writeAt (writeAt (writeAt f pos hdr) (pos + 14) (beEnc 2 n)) (pos + 12)
      [UInt8.ofNat ((byteAt (writeAt (writeAt f pos hdr) (pos + 14) (beEnc 2 n)) (pos + 12) &&& 0xF3) ||| seg)] =
    writeAt f pos
      (writeAt (writeAt hdr 14 (beEnc 2 n)) 12
        [UInt8.ofNat ((byteAt (writeAt hdr 14 (beEnc 2 n)) 12 &&& 0xF3) ||| seg)]) := by
  have hw : pos + hdr.length ≤ f.length := by omega
  have hh1 : (writeAt hdr 14 (beEnc 2 n)).length = 16 := by
    rw [C11.writeAt_length (by simp [hh])]; exact hh
  rw [Src.Bit.writeAt_writeAt_inner hw (by simp [hh]), byteAt_writeAt_inner (by omega) (by omega),
    Src.Bit.writeAt_writeAt_inner (by omega) (by simp [hh1])]

/-! ### arithmetic -/

theorem usub_eq' (x y : Nat) (h1 : y ≤ x) (h2 : x < 2 ^ 64) : usub 64 x y = x - y := SrcTie.usub_eq x y h1 h2

theorem sadd_one (x : Nat) (h : x < 65536) : sadd 32 x 1 = some (x + 1) := SrcTie.sadd_small x 1 (by omega)

end AsamCmp.SrcEnc
