/-
  Packet value mode, part 1: the representation of model values as the generated records (`plRepr`, `repr`, inverse `abs`), the
  predicate `Packet.Fits`, and the translated `PayloadType` / `Payload` functions (GeneratedSrcObj.lean, section "packet value
  mode") evaluated on represented values.
-/
import AsamCmp.GeneratedSrcObj
import AsamCmp.Values
import AsamCmp.Lemmas.SrcPacket
import AsamCmp.Lemmas.SrcSegPkt
set_option linter.unusedSimpArgs false
set_option linter.unusedVariables false

namespace AsamCmp

/-- the payload's members within their C types: `PayloadType::type` is a `uint32_t`, the size of a vector a `size_t` -/
def Payload.Fits (p : Payload) : Prop := p.ty < 2 ^ 32 ∧ p.data.length < 2 ^ 64

/-- the packet's members within their C types (`uint8_t version`, `uint16_t deviceId`, `uint8_t streamId`,
    `uint16_t sequenceCounter`, `uint64_t timestamp`, `uint32_t interfaceId`, `uint16_t vendorId`, `uint8_t commonFlags`,
    `SegmentType : uint8_t`), and so the owned payload's, if there is one -/
def Packet.Fits (p : Packet) : Prop :=
  p.version < 256 ∧ p.deviceId < 65536 ∧ p.streamId < 256 ∧ p.seq < 65536 ∧ p.ts < 2 ^ 64 ∧ p.ifId < 2 ^ 32 ∧
  p.vendorId < 65536 ∧ p.flags < 256 ∧ p.segType < 256 ∧ ∀ pl, p.payload = some pl → pl.Fits

end AsamCmp

namespace AsamCmp.SrcPv
open AsamCmp AsamCmp.Src AsamCmp.SrcGen AsamCmp.SrcTie

/-! ### representation -/

/-- a payload of the model as the generated record of `Payload`'s data members -/
def plRepr (p : Payload) : Payload_St := { f_payloadData := p.data, f_type := p.ty }
def plAbs (s : Payload_St) : Payload := { ty := s.f_type, data := s.f_payloadData }

/-- a packet of the model as the generated record of `Packet`'s data members (the `unique_ptr` as an `Option`) -/
def repr (p : Packet) : PacketV_St :=
  { f_payload := p.payload.map plRepr, f_version := p.version, f_deviceId := p.deviceId, f_streamId := p.streamId,
    f_sequenceCounter := p.seq, f_timestamp := p.ts, f_interfaceId := p.ifId, f_vendorId := p.vendorId,
    f_commonFlags := p.flags, f_segmentType := p.segType }

def abs (s : PacketV_St) : Packet :=
  { payload := s.f_payload.map plAbs, version := s.f_version, deviceId := s.f_deviceId, streamId := s.f_streamId,
    seq := s.f_sequenceCounter, ts := s.f_timestamp, ifId := s.f_interfaceId, vendorId := s.f_vendorId,
    flags := s.f_commonFlags, segType := s.f_segmentType }

theorem plAbs_plRepr (p : Payload) : plAbs (plRepr p) = p := rfl
theorem plRepr_plAbs (s : Payload_St) : plRepr (plAbs s) = s := rfl

theorem abs_repr (p : Packet) : abs (repr p) = p := by
  cases p with
  | mk pl v d st sq ts i vd f sg => cases pl <;> rfl

theorem repr_abs (s : PacketV_St) : repr (abs s) = s := by
  cases s with
  | mk pl v d st sq ts i vd f sg => cases pl <;> rfl

/-- every state is the representation of a model packet -/
theorem st_cases (s : PacketV_St) : ∃ p, s = repr p := ⟨abs s, (repr_abs s).symm⟩
theorem pl_cases (s : Payload_St) : ∃ p, s = plRepr p := ⟨plAbs s, rfl⟩

/-! ### `PayloadType` -/

theorem pt_getType (ty : Nat) : PayloadType_getType_pv ty = some (ty, ty) := rfl

theorem pt_ctor32 (ty : Nat) : PayloadType_ctor_u32_pv ty = some ty := rfl

theorem pt_opEq (a b : Nat) : opEq_PayloadType_pv a b = some (a == b) := rfl

theorem pt_opNe (a b : Nat) : opNe_PayloadType_pv a b = some (a != b) := rfl

theorem and_65280 (ty : Nat) : ty &&& 65280 = (ty / 256 % 256) * 256 := by
  rw [and_mask1, Nat.shiftRight_eq_div_pow, Nat.shiftLeft_eq]

theorem pt_getMessageType (ty : Nat) : PayloadType_getMessageType_pv ty = some (ty, ty / 256 % 256) := by
  unfold PayloadType_getMessageType_pv ushr
  rw [if_pos (by decide), and_65280, Nat.shiftRight_eq_div_pow]
  simp only [bind, some_bind, pure, Nat.reducePow, Nat.mul_div_cancel _ (by decide : 0 < 256), Nat.mod_mod]

theorem and_255 (ty : Nat) : ty &&& 255 = ty % 256 := by
  have e : (255 : Nat) = 2 ^ 8 - 1 := by decide
  rw [e, Nat.and_two_pow_sub_one_eq_mod]

theorem pt_getRaw (ty : Nat) : PayloadType_getRawPayloadType_pv ty = some (ty, ty % 256) := by
  unfold PayloadType_getRawPayloadType_pv
  rw [and_255, Nat.mod_mod]; rfl

theorem pt_isValid (ty : Nat) :
    PayloadType_isValid_pv ty = some (ty, (ty % 256 != 0 && ty / 256 % 256 != 0)) := by
  unfold PayloadType_isValid_pv
  rw [and_255, and_65280]
  have e : ((ty / 256 % 256 * 256 != 0) = (ty / 256 % 256 != 0)) := by
    rw [Bool.eq_iff_iff]; simp only [bne_iff_ne, ne_eq]; omega
  rw [e]; rfl

/-- `PayloadType(msgType, rawPayloadType)`: both arguments are `uint8_t`s -/
theorem pt_ctor8 (mt raw : Nat) (hmt : mt < 256) (hraw : raw < 256) :
    PayloadType_ctor_u8_u8_pv mt raw = some (mt * 256 + raw) := by
  unfold PayloadType_ctor_u8_u8_pv
  refine bind_of_eq (a := mt) rfl ?_
  have e : sshl 32 mt 8 = some (mt * 256) := by
    unfold sshl
    rw [Nat.shiftLeft_eq, if_pos ⟨by decide, by omega, by omega⟩]
  rw [e]
  simp only [bind, some_bind, pure, or_byte _ _ hraw]

/-! ### `Payload`: getters -/

theorem pl_getType (p : Payload) : Payload_getType_pv (plRepr p) = some (plRepr p, p.ty) := rfl

theorem pl_getLength (p : Payload) : Payload_getLength_pv (plRepr p) = some (plRepr p, p.data.length) := rfl

theorem pl_getMessageType (p : Payload) : Payload_getMessageType_pv (plRepr p) = some (plRepr p, p.mt) := by
  unfold Payload_getMessageType_pv
  simp only [plRepr, pt_getMessageType, bind, some_bind, pure, Payload.mt]

theorem pl_getRaw (p : Payload) : Payload_getRawPayloadType_pv (plRepr p) = some (plRepr p, p.raw) := by
  unfold Payload_getRawPayloadType_pv
  simp only [plRepr, pt_getRaw, bind, some_bind, pure, Payload.raw]

theorem pl_isValid (p : Payload) : Payload_isValid_pv (plRepr p) = some (plRepr p, p.isValid) := by
  unfold Payload_isValid_pv
  simp only [plRepr, pt_isValid, bind, some_bind, pure, Payload.isValid, Payload.raw, Payload.mt]

theorem pl_copy (p : Payload) : Payload_ctor_copy_pv (plRepr p) = some (plRepr p) := rfl

/-! ### `Payload(type, data, size)` -/

theorem take_mid (pre d post : Bytes) : ((pre ++ d ++ post).drop pre.length).take d.length = d := by
  rw [SrcDec.drop_mid]; simp

/-- the constructor on the bytes `d` at address `pre.length`: `size` zero bytes, overwritten with `d` unless the type is
    `invalid` (then the object keeps the zeros) -/
theorem pl_ctor (ty : Nat) (pre d post : Bytes) :
    Payload_ctor_PayloadType_ptr_u64_pv (pre ++ d ++ post) ty pre.length d.length =
      some (plRepr (if ty = 0 then ⟨0, zeros d.length⟩ else ⟨ty, d⟩)) := by
  unfold Payload_ctor_PayloadType_ptr_u64_pv
  simp only [pt_ctor32, pt_opNe, bind, some_bind, pure]
  have hw : wrBytes (zeros d.length) 0 ((pre ++ d ++ post).drop pre.length) d.length = some d := by
    rw [wrBytes_eq _ _ _ _ (by rw [SrcDec.drop_mid]; simp) (by simp [zeros]), take_mid,
      SrcDec.writeAt_zeros _ _ rfl]
  by_cases h0 : d.length = 0
  · have hd : d = [] := List.eq_nil_of_length_eq_zero h0
    subst hd
    by_cases ht : ty = 0
    · subst ht; simp [plRepr, zeros]
    · simp [plRepr, zeros, ht]
  · by_cases ht : ty = 0
    · subst ht; simp [plRepr, h0]
    · simp only [bne_iff_ne, ne_eq, h0, not_false_eq_true, ht, if_true, if_false, decide_true, hw, some_bind,
        plRepr, ite_true, ite_false, Bool.not_eq_true', decide_eq_false_iff_not]

end AsamCmp.SrcPv
