/-
  Source-level encoder, part 4: the translated public methods — `putPacket`, `clearEncodingMetadata`, `init`, `getEncodedData` —
  against the model, and the fold of `putPacket` over a batch.
-/
import AsamCmp.Lemmas.SrcEncLoop
set_option linter.unusedSimpArgs false
namespace AsamCmp.SrcEnc
open AsamCmp AsamCmp.Src AsamCmp.SrcGen

/-! ### `putPacket` -/

/-- with a frame of the packet's message type open: `checkIfSegmented`, then the loop -/
theorem putPacket_src_open (l : EncLL) (p : Packet) (fuel : Nat) (h : Open l) (hmt : l.mt = p.mt) (hf : 65536 ≤ fuel) :
    Open (l.putPacket p) ∧ Encoder_putPacket_obj fuel (stOf l) (pkOf p) = some (stOf (l.putPacket p), ()) := by
  have hl := plen_lt p
  have hc : (l.frames.isEmpty || l.mt != p.mt) = false := by
    rw [isEmpty_of_ne h.ne, hmt]; simp
  obtain ⟨o2, b2⟩ := checkIfSegmented_open l p h
  obtain ⟨o3, a, b, e3⟩ := loop_src p (l.checkIfSegmented p).2 p.payloadLength fuel (p.payloadLength + 1)
    (l.checkIfSegmented p).1 0 0 o2 (fun hp => by have := b2 hp; omega) (by omega) (by omega) (by omega) (Nat.le_refl 0)
  constructor
  · unfold EncLL.putPacket
    simp only [hc, Bool.false_eq_true, if_false]
    exact o3
  · unfold Encoder_putPacket_obj EncLL.putPacket
    st_norm [hc, checkIfSegmented_src l p h.inv, e3]

/-- otherwise `setMessageType` opens one, and the rest is `putPacket` from that state -/
theorem putPacket_src_retype (l : EncLL) (p : Packet) (fuel : Nat) (h : Inv l)
    (hc : (l.frames.isEmpty || l.mt != p.mt) = true) :
    l.putPacket p = (l.setMessageType p).putPacket p ∧
    Encoder_putPacket_obj fuel (stOf l) (pkOf p) = Encoder_putPacket_obj fuel (stOf (l.setMessageType p)) (pkOf p) := by
  have hc' : ((l.setMessageType p).frames.isEmpty || (l.setMessageType p).mt != p.mt) = false := by
    rw [isEmpty_of_ne (setMessageType_open l p h).ne, setMessageType_mt]; simp
  constructor
  · unfold EncLL.putPacket
    simp only [hc, hc', if_true, Bool.false_eq_true, if_false]
  · unfold Encoder_putPacket_obj
    st_norm [hc, hc', setMessageType_src l p h]

theorem putPacket_src (l : EncLL) (p : Packet) (fuel : Nat) (h : Inv l) (hf : 65536 ≤ fuel) :
    Open (l.putPacket p) ∧ Encoder_putPacket_obj fuel (stOf l) (pkOf p) = some (stOf (l.putPacket p), ()) := by
  cases hc : (l.frames.isEmpty || l.mt != p.mt) with
  | true =>
    obtain ⟨e1, e2⟩ := putPacket_src_retype l p fuel h hc
    rw [e1, e2]
    exact putPacket_src_open _ p fuel (setMessageType_open l p h) (setMessageType_mt l p) hf
  | false =>
    have hne : l.frames ≠ [] := by
      intro e; rw [e] at hc; simp at hc
    have hmt : l.mt = p.mt := by
      rw [isEmpty_of_ne hne, Bool.false_or] at hc
      simpa using hc
    exact putPacket_src_open l p fuel ⟨h.cfg, hne, h.last.resolve_left hne⟩ hmt hf


/-! ### `clearEncodingMetadata`, `init`, `getEncodedData` -/

theorem clear_src (l : EncLL) (b : Bool) :
    Encoder_clearEncodingMetadata_obj (stOf l) b =
      some (stOf { l with bytesLeft := 0, frames := [], tmpl := [], seqc := if b then 0 else l.seqc }, ()) := by
  unfold Encoder_clearEncodingMetadata_obj
  cases b <;> st_norm [] <;> rfl

theorem init_src (l : EncLL) (mn mx : Nat) :
    Encoder_init_obj (stOf l) mn mx = some (stOf (l.init ⟨mn, mx⟩), ()) := by
  unfold Encoder_init_obj EncLL.init
  st_norm [clear_src] <;> rfl

theorem init_inv (l : EncLL) (c : Ctx) (hc : c.ok = true) (hmax : c.max < 2 ^ 32) : Inv (l.init c) := by
  simp only [Ctx.ok, Bool.and_eq_true, decide_eq_true_eq] at hc
  exact ⟨⟨hc.1, hmax, hc.2, Or.inl rfl⟩, Or.inl rfl⟩

theorem getEncodedData_src (l : EncLL) (h : Inv l) :
    Encoder_getEncodedData_obj (stOf l) =
      some (stOf { l.closeLastFrame with bytesLeft := 0, frames := [], tmpl := [] }, l.closeLastFrame.frames) := by
  unfold Encoder_getEncodedData_obj
  st_norm [closeLastFrame_src l h, mk_eq_stOf, clear_src] <;> rfl

/-! ### the fold over the batch -/

theorem fold_src (fuel : Nat) (hf : 65536 ≤ fuel) : ∀ (batch : List Packet) (l : EncLL), Inv l →
    Inv (batch.foldl EncLL.putPacket l) ∧
    batch.foldlM (fun s p => (Encoder_putPacket_obj fuel s (pkOf p)).map (·.1)) (stOf l) =
      some (stOf (batch.foldl EncLL.putPacket l)) := by
  intro batch
  induction batch with
  | nil => intro l h; exact ⟨h, rfl⟩
  | cons p ps ih =>
    intro l h
    obtain ⟨o1, e1⟩ := putPacket_src l p fuel h hf
    rw [List.foldlM_cons, List.foldl_cons, e1, some_map]
    simp only [bind, some_bind]
    exact ih _ o1.inv

end AsamCmp.SrcEnc
