/-
  Source-level decoder, part 1: the translated `unordered_map` operations on the image of a model table.
-/
import AsamCmp.GeneratedSrcObj
import AsamCmp.DecoderLL
import AsamCmp.Lemmas.DecLLLoop
import AsamCmp.Props.SrcSegPkt
namespace AsamCmp.SrcDec
open AsamCmp AsamCmp.Src AsamCmp.SrcGen AsamCmp.C17b

/-- the association list of the decoder's member for a model table (this is `tblSt t`'s field) -/
def tmap (t : Table) : SMap Decoder_SegmentedPacket_St := t.map fun x => (x.1, spSt x.2)

theorem default_eq : Decoder_SegmentedPacket_default = spSt {} := rfl

theorem map_erase (t : Table) (k : Ep) : mapErase (tmap t) k = tmap (t.erase k) := by
  unfold mapErase tmap Table.erase
  rw [List.filter_map]
  rfl

theorem map_find (t : Table) (k : Ep) : mapFind (tmap t) k = (t.find k).map spSt := by
  unfold mapFind tmap Table.find
  rw [List.find?_map, Option.map_map, Option.map_map]
  rfl

theorem map_put (t : Table) (k : Ep) (v : SegPkt) : mapPut (tmap t) k (spSt v) = tmap (t.set k v) := by
  unfold mapPut
  rw [map_erase]
  rfl

theorem map_index (t : Table) (k : Ep) :
    mapIndex (tmap t) k Decoder_SegmentedPacket_default = (tmap (t.index k).1, spSt (t.index k).2) := by
  unfold mapIndex Table.index
  rw [map_find]
  cases h : t.find k with
  | none => simp only [Option.map_none, default_eq, map_put]
  | some v => simp only [Option.map_some]

/-! ### the invariants -/

/-- entries within their C types and far from exhausting the address space (this is `TableReg`) -/
def Reg (t : Table) : Prop := ∀ x ∈ t, x.2.seq < 65536 ∧ x.2.payload.length + 65536 < 2 ^ 64

theorem reg_erase (t : Table) (k : Ep) (h : Reg t) : Reg (t.erase k) :=
  fun x hx => h x (List.mem_filter.mp hx).1

theorem reg_find (t : Table) (k : Ep) (v : SegPkt) (h : Reg t) (hf : t.find k = some v) :
    v.seq < 65536 ∧ v.payload.length + 65536 < 2 ^ 64 :=
  h _ (find_mem t k v hf)

end AsamCmp.SrcDec
