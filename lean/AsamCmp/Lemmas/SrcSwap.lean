/-
  Source-level tie, part 2: the library's `swapEndian` overloads.  Every masked term `v & (0xFF << k)` is one byte of `v`
  in its place, `((v >>> k) % 256) <<< k`; shifting moves the byte, and or-ing bytes at distinct places is addition.
-/
import AsamCmp.GeneratedSrc
import AsamCmp.Lemmas.SrcPrim
namespace AsamCmp.SrcTie
open AsamCmp AsamCmp.Src AsamCmp.SrcGen

/-! ### one byte of a value, selected by a mask -/

theorem and_byte_mask (v k : Nat) : v &&& (255 <<< k) = (v >>> k % 256) <<< k := by
  apply Nat.eq_of_testBit_eq
  intro j
  have e1 : (255 : Nat) = 2 ^ 8 - 1 := by decide
  have e2 : (256 : Nat) = 2 ^ 8 := by decide
  rw [e1, e2]
  simp only [Nat.testBit_and, Nat.testBit_shiftLeft, Nat.testBit_two_pow_sub_one, Nat.testBit_mod_two_pow,
    Nat.testBit_shiftRight]
  by_cases h : k ≤ j
  · have e : k + (j - k) = j := by omega
    rw [e]
    cases v.testBit j <;> cases decide (j - k < 8) <;> simp [h]
  · have h' : ¬ j ≥ k := h
    simp [h']

theorem and_mask0 (v : Nat) : v &&& 255 = (v >>> 0 % 256) <<< 0 := and_byte_mask v 0
theorem and_mask1 (v : Nat) : v &&& 65280 = (v >>> 8 % 256) <<< 8 := and_byte_mask v 8
theorem and_mask2 (v : Nat) : v &&& 16711680 = (v >>> 16 % 256) <<< 16 := and_byte_mask v 16
theorem and_mask3 (v : Nat) : v &&& 4278190080 = (v >>> 24 % 256) <<< 24 := and_byte_mask v 24
theorem and_mask4 (v : Nat) : v &&& 1095216660480 = (v >>> 32 % 256) <<< 32 := and_byte_mask v 32
theorem and_mask5 (v : Nat) : v &&& 280375465082880 = (v >>> 40 % 256) <<< 40 := and_byte_mask v 40
theorem and_mask6 (v : Nat) : v &&& 71776119061217280 = (v >>> 48 % 256) <<< 48 := and_byte_mask v 48
theorem and_mask7 (v : Nat) : v &&& 18374686479671623680 = (v >>> 56 % 256) <<< 56 := and_byte_mask v 56

/-! ### moving a byte -/

theorem shl_shr (y a n : Nat) (h : n ≤ a) : (y <<< a) >>> n = y <<< (a - n) := by
  obtain ⟨d, rfl⟩ : ∃ d, a = d + n := ⟨a - n, by omega⟩
  rw [Nat.shiftLeft_add, Nat.shiftLeft_shiftRight, Nat.add_sub_cancel]

theorem byte_shl_lt (x a w : Nat) (h : a + 8 ≤ w) : (x % 256) <<< a < 2 ^ w := by
  rw [Nat.shiftLeft_eq]
  have h1 : x % 256 < 2 ^ 8 := Nat.mod_lt _ (by decide)
  calc x % 256 * 2 ^ a < 2 ^ 8 * 2 ^ a := Nat.mul_lt_mul_of_pos_right h1 (Nat.two_pow_pos a)
    _ = 2 ^ (8 + a) := (Nat.pow_add 2 8 a).symm
    _ ≤ 2 ^ w := Nat.pow_le_pow_right (by decide) (by omega)

theorem ushr_byte (w x a n : Nat) (hn : n < w) (h : n ≤ a) :
    ushr w ((x % 256) <<< a) n = some ((x % 256) <<< (a - n)) := by
  unfold ushr; rw [if_pos hn, shl_shr _ _ _ h]

theorem ushl_byte_shl (w x a n : Nat) (hn : n < w) (h : a + n + 8 ≤ w) :
    ushl w ((x % 256) <<< a) n = some ((x % 256) <<< (a + n)) := by
  unfold ushl
  rw [if_pos hn, ← Nat.shiftLeft_add, Nat.mod_eq_of_lt (byte_shl_lt x (a + n) w h)]

theorem sshr_byte (w x a n : Nat) (hn : n < w) (h : n ≤ a) (ha : a + 8 ≤ w - 1) :
    sshr w ((x % 256) <<< a) n = some ((x % 256) <<< (a - n)) := by
  unfold sshr; rw [if_pos ⟨hn, byte_shl_lt x a (w - 1) ha⟩, shl_shr _ _ _ h]

theorem sshl_byte_shl (w x a n : Nat) (hn : n < w) (h : a + n + 8 ≤ w - 1) :
    sshl w ((x % 256) <<< a) n = some ((x % 256) <<< (a + n)) := by
  unfold sshl
  rw [← Nat.shiftLeft_add, if_pos ⟨hn, byte_shl_lt x a (w - 1) (by omega), byte_shl_lt x (a + n) (w - 1) h⟩]

/-! ### or-ing values at distinct places -/

theorem or_shl (a y k : Nat) (h : a < 2 ^ k) : a ||| y <<< k = a + y <<< k := by
  rw [Nat.or_comm, ← Nat.shiftLeft_add_eq_or_of_lt h, Nat.add_comm]

theorem shl_or (a y k : Nat) (h : a < 2 ^ k) : y <<< k ||| a = y <<< k + a := by
  rw [← Nat.shiftLeft_add_eq_or_of_lt h]

/-- normalisation of a `swapEndian` body: masks, shifts, ors -/
macro "swap_norm" : tactic =>
  `(tactic| simp (disch := omega) only [and_mask0, and_mask1, and_mask2, and_mask3, and_mask4, and_mask5, and_mask6,
      and_mask7, ushr_byte, ushl_byte_shl, sshr_byte, sshl_byte_shl, or_shl, shl_or, bind, some_bind, pure,
      Nat.reduceAdd, Nat.reduceSub])

/-- the normal form is a sum of bytes in their places: arithmetic -/
macro "swap_arith" : tactic =>
  `(tactic| (simp only [Nat.shiftLeft_eq, Nat.shiftRight_eq_div_pow, Nat.reducePow, Nat.div_one, Nat.mul_one] <;> (congr 1; omega)))

/-! ### the three overloads -/

theorem swap16_bytes (v : Nat) : swapEndian_u16 v = some (v / 256 % 256 + v % 256 * 256) := by
  unfold swapEndian_u16
  swap_norm
  swap_arith

theorem swap32_bytes (v : Nat) :
    swapEndian_u32 v = some (v / 16777216 % 256 + v / 65536 % 256 * 256 + v / 256 % 256 * 65536 + v % 256 * 16777216) := by
  unfold swapEndian_u32
  swap_norm
  swap_arith

theorem swap64_bytes (v : Nat) :
    swapEndian_u64 v = some (v / 72057594037927936 % 256 + v / 281474976710656 % 256 * 256
      + v / 1099511627776 % 256 * 65536 + v / 4294967296 % 256 * 16777216 + v / 16777216 % 256 * 4294967296
      + v / 65536 % 256 * 1099511627776 + v / 256 % 256 * 281474976710656 + v % 256 * 72057594037927936) := by
  unfold swapEndian_u64
  swap_norm
  swap_arith

/-! ### a little-endian member read followed by `swapEndian` is the big-endian value of the bytes -/

theorem swap16_leAt (b : Bytes) (i : Nat) (h : i + 2 ≤ b.length) :
    swapEndian_u16 (leAt b i 2) = some (beAt b i 2) := by
  rw [swap16_bytes, leAt_two, beAt_two b i h]
  have := byteAt_lt b i; have := byteAt_lt b (i + 1)
  congr 1; omega

theorem swap32_leAt (b : Bytes) (i : Nat) (h : i + 4 ≤ b.length) :
    swapEndian_u32 (leAt b i 4) = some (beAt b i 4) := by
  rw [swap32_bytes, leAt_four, beAt_four b i h]
  have := byteAt_lt b i; have := byteAt_lt b (i + 1); have := byteAt_lt b (i + 2); have := byteAt_lt b (i + 3)
  congr 1; omega

/-- byte `j` of a little-endian object -/
theorem leAt_byte (b : Bytes) (i w j : Nat) (h : j < w) : leAt b i w / 256 ^ j % 256 = byteAt b (i + j) := by
  induction j generalizing i w with
  | zero =>
    obtain ⟨w', rfl⟩ : ∃ w', w = w' + 1 := ⟨w - 1, by omega⟩
    rw [leAt_succ]; have := byteAt_lt b i
    simp only [Nat.pow_zero, Nat.div_one, Nat.add_zero]; omega
  | succ j ih =>
    obtain ⟨w', rfl⟩ : ∃ w', w = w' + 1 := ⟨w - 1, by omega⟩
    have e : (byteAt b i + 256 * leAt b (i + 1) w') / 256 = leAt b (i + 1) w' := by
      have := byteAt_lt b i; omega
    rw [leAt_succ, Nat.pow_succ, Nat.mul_comm (256 ^ j) 256, ← Nat.div_div_eq_div_mul, e, ih (i + 1) w' (by omega)]
    congr 1; omega

theorem swap64_leAt (b : Bytes) (i : Nat) (h : i + 8 ≤ b.length) :
    swapEndian_u64 (leAt b i 8) = some (beAt b i 8) := by
  have h0 := leAt_byte b i 8 0 (by omega); have h1 := leAt_byte b i 8 1 (by omega)
  have h2 := leAt_byte b i 8 2 (by omega); have h3 := leAt_byte b i 8 3 (by omega)
  have h4 := leAt_byte b i 8 4 (by omega); have h5 := leAt_byte b i 8 5 (by omega)
  have h6 := leAt_byte b i 8 6 (by omega); have h7 := leAt_byte b i 8 7 (by omega)
  simp only [Nat.reducePow, Nat.div_one, Nat.add_zero] at h0 h1 h2 h3 h4 h5 h6 h7
  rw [swap64_bytes, h0, h1, h2, h3, h4, h5, h6, h7, beAt_eight b i h, beAt_four b i (by omega),
    beAt_four b (i + 4) (by omega)]
  simp only [Nat.add_assoc, Nat.reduceAdd]
  congr 1; omega

theorem rd_swap16 (m : Bytes) (a : Nat) (h : a + 2 ≤ m.length) :
    (rd m a 2).bind swapEndian_u16 = some (beAt m a 2) := by
  rw [rd_eq m a 2 h, some_bind, swap16_leAt m a h]

theorem rd_swap32 (m : Bytes) (a : Nat) (h : a + 4 ≤ m.length) :
    (rd m a 4).bind swapEndian_u32 = some (beAt m a 4) := by
  rw [rd_eq m a 4 h, some_bind, swap32_leAt m a h]

theorem rd_swap64 (m : Bytes) (a : Nat) (h : a + 8 ≤ m.length) :
    (rd m a 8).bind swapEndian_u64 = some (beAt m a 8) := by
  rw [rd_eq m a 8 h, some_bind, swap64_leAt m a h]

end AsamCmp.SrcTie
