/-
  C04 helper lemmas: parse ∘ serialise for the protocol's message / frame layout written down
  independently of the encoder model.  The layout is given by a "view" of an arbitrary message
  type, so that `Props/C04.lean` can instantiate it with its own `WMsg`.
-/
import AsamCmp.Tecmp
import AsamCmp.Lemmas.TileBytes
import AsamCmp.Lemmas.WalkBytes
namespace AsamCmp.C04
open AsamCmp

/-- a type of messages together with its wire layout: timestamp u64 @0, id word u32 @8, flags u8
    @12, payload type u8 @13, payload length u16 @14, payload -/
structure MsgView (α : Type) where
  bytes : α → Bytes
  ts : α → Nat
  idw : α → Nat
  flags : α → Nat
  ptype : α → Nat
  body : α → Bytes
  bytes_eq : ∀ a, bytes a =
    beEnc 8 (ts a) ++ beEnc 4 (idw a) ++ [UInt8.ofNat (flags a), UInt8.ofNat (ptype a)] ++
      beEnc 2 (body a).length ++ body a

namespace MsgView
variable {α : Type} (V : MsgView α)

def WF (a : α) : Prop :=
  V.ts a < 2 ^ 64 ∧ V.idw a < 2 ^ 32 ∧ V.flags a < 256 ∧ V.flags a &&& 0x4C = 0 ∧ 1 ≤ V.ptype a ∧
    V.ptype a < 256 ∧ (V.body a).length < 65536

/-- the packet the decoder must report -/
def pkt (ver dev mt stream : Nat) (a : α) : Packet :=
  { payload := some (create (mt * 256 + V.ptype a) (V.body a)), version := ver, deviceId := dev,
    streamId := stream, seq := 0, ts := V.ts a, ifId := if mt = 1 then V.idw a else 0,
    vendorId := if mt = 3 ∨ mt = 0xFF then V.idw a % 65536 else 0, flags := V.flags a, segType := 0 }

end MsgView

/-! ### bit facts -/

set_option maxRecDepth 10000 in
theorem flags_bits : ∀ x, x < 256 → x &&& 0x4C = 0 → x &&& 0x40 = 0 ∧ x &&& 0x0C = 0 := by
  decide

theorem beEnc4_split (n : Nat) : beEnc 4 n = beEnc 2 (n / 65536) ++ beEnc 2 n := by
  simp only [beEnc, List.nil_append, List.cons_append]
  have : n / 256 / 256 = n / 65536 := by omega
  have : n / 256 / 256 / 256 = n / 65536 / 256 := by omega
  simp [*]

/-! ### one message, read back -/

section one
variable {α : Type} (V : MsgView α) (a : α) (rest : Bytes)

theorem msg_length : (V.bytes a ++ rest).length = 16 + (V.body a).length + rest.length := by
  rw [V.bytes_eq]; simp; omega

theorem msg_len (h : V.WF a) : beAt (V.bytes a ++ rest) 14 2 = (V.body a).length := by
  unfold beAt
  rw [V.bytes_eq, List.append_assoc _ (V.body a), slice_mid _ _ _ 14 2 (by simp) (by simp), beDec_beEnc]
  exact Nat.mod_eq_of_lt h.2.2.2.2.2.2

theorem msg_ts (h : V.WF a) : beAt (V.bytes a ++ rest) 0 8 = V.ts a := by
  unfold beAt
  have e : V.bytes a ++ rest = [] ++ beEnc 8 (V.ts a) ++ (beEnc 4 (V.idw a) ++
      [UInt8.ofNat (V.flags a), UInt8.ofNat (V.ptype a)] ++ beEnc 2 (V.body a).length ++ V.body a ++ rest) := by
    rw [V.bytes_eq]; simp
  rw [e, slice_mid _ _ _ 0 8 rfl (by simp), beDec_beEnc]
  exact Nat.mod_eq_of_lt h.1

theorem msg_idw (h : V.WF a) : beAt (V.bytes a ++ rest) 8 4 = V.idw a := by
  unfold beAt
  have e : V.bytes a ++ rest = beEnc 8 (V.ts a) ++ beEnc 4 (V.idw a) ++
      ([UInt8.ofNat (V.flags a), UInt8.ofNat (V.ptype a)] ++ beEnc 2 (V.body a).length ++ V.body a ++ rest) := by
    rw [V.bytes_eq]; simp
  rw [e, slice_mid _ _ _ 8 4 (by simp) (by simp), beDec_beEnc]
  exact Nat.mod_eq_of_lt h.2.1

theorem msg_idw_low : beAt (V.bytes a ++ rest) 10 2 = V.idw a % 65536 := by
  unfold beAt
  have e : V.bytes a ++ rest = (beEnc 8 (V.ts a) ++ beEnc 2 (V.idw a / 65536)) ++ beEnc 2 (V.idw a) ++
      ([UInt8.ofNat (V.flags a), UInt8.ofNat (V.ptype a)] ++ beEnc 2 (V.body a).length ++ V.body a ++ rest) := by
    rw [V.bytes_eq, beEnc4_split]; simp
  rw [e, slice_mid _ _ _ 10 2 (by simp) (by simp), beDec_beEnc]

theorem msg_flags (h : V.WF a) : byteAt (V.bytes a ++ rest) 12 = V.flags a := by
  have e : V.bytes a ++ rest = (beEnc 8 (V.ts a) ++ beEnc 4 (V.idw a)) ++ UInt8.ofNat (V.flags a) ::
      ([UInt8.ofNat (V.ptype a)] ++ beEnc 2 (V.body a).length ++ V.body a ++ rest) := by
    rw [V.bytes_eq]; simp
  rw [e, byteAt_mid _ _ _ 12 (by simp), UInt8.toNat_ofNat']
  exact Nat.mod_eq_of_lt h.2.2.1

theorem msg_ptype (h : V.WF a) : byteAt (V.bytes a ++ rest) 13 = V.ptype a := by
  have e : V.bytes a ++ rest = (beEnc 8 (V.ts a) ++ beEnc 4 (V.idw a) ++ [UInt8.ofNat (V.flags a)]) ++
      UInt8.ofNat (V.ptype a) :: (beEnc 2 (V.body a).length ++ V.body a ++ rest) := by
    rw [V.bytes_eq]; simp
  rw [e, byteAt_mid _ _ _ 13 (by simp), UInt8.toNat_ofNat']
  exact Nat.mod_eq_of_lt h.2.2.2.2.2.1

theorem msg_body : slice (V.bytes a ++ rest) 16 (V.body a).length = V.body a := by
  rw [V.bytes_eq]
  exact slice_mid _ _ _ 16 _ (by simp) rfl

theorem msg_drop : (V.bytes a ++ rest).drop (16 + (V.body a).length) = rest := by
  apply List.drop_left'
  rw [V.bytes_eq]; simp; omega

theorem msg_valid (h : V.WF a) : msgValid (V.bytes a ++ rest) = true := by
  have hb := (flags_bits _ h.2.2.1 h.2.2.2.1).1
  have hp := h.2.2.2.2.1
  simp only [msgValid, msg_length, msg_len V a rest h, msg_flags V a rest h, msg_ptype V a rest h, hb,
    Bool.and_eq_true, decide_eq_true_eq, beq_iff_eq, bne_iff_ne, ne_eq]
  exact ⟨⟨⟨by omega, by omega⟩, trivial⟩, by omega⟩

/-- the delivered packet of a message in front -/
theorem msg_packet (h : V.WF a) (ver dev mt stream : Nat) :
    tagPacket (dev, stream) ver (Packet.ofMsg mt (V.bytes a ++ rest)) = V.pkt ver dev mt stream a := by
  simp only [tagPacket, Packet.ofMsg, MsgView.pkt, msg_len V a rest h, msg_body, msg_ts V a rest h,
    msg_idw V a rest h, msg_idw_low, msg_flags V a rest h, msg_ptype V a rest h]

/-- an unsegmented message in front: delivered, and the walk goes on behind it -/
theorem walk_cons (h : V.WF a) (ver dev mt stream : Nat) :
    walk (dev, stream) ver mt (V.bytes a ++ rest) =
      (V.pkt ver dev mt stream a :: (walk (dev, stream) ver mt rest).1, (walk (dev, stream) ver mt rest).2) := by
  have hs := (flags_bits _ h.2.2.1 h.2.2.2.1).2
  have h0 : ¬ (V.bytes a ++ rest).length = 0 := by rw [msg_length]; omega
  rw [walk]
  simp only [h0, dite_false, msg_valid V a rest h, Bool.not_true, Bool.false_eq_true, if_false,
    msg_len V a rest h, msg_flags V a rest h, hs, bne_self_eq_false, msg_drop, msg_packet V a rest h]

/-- a message cut short is not delivered: the walk ends at it -/
theorem walk_cut (h : V.WF a) (ver dev mt stream k : Nat) (hk : k < 16 + (V.body a).length) :
    ∃ t, (t = Term.done ∨ t = Term.invalid) ∧
      walk (dev, stream) ver mt ((V.bytes a ++ rest).take k) = ([], t) := by
  have hlen : (V.bytes a).length = 16 + (V.body a).length := by
    have := msg_length V a []
    simpa using this
  rw [List.take_append_of_le_length (by omega)]
  have hrl : ((V.bytes a).take k).length = k := by simp [hlen]; omega
  by_cases h0 : k = 0
  · subst h0
    refine ⟨.done, Or.inl rfl, ?_⟩
    rw [walk]; simp
  · refine ⟨.invalid, Or.inr rfl, ?_⟩
    have hv : msgValid ((V.bytes a).take k) = false := by
      by_cases h16 : k < 16
      · have : ¬ 16 ≤ k := by omega
        simp [msgValid, hrl, this]
      · -- the length field is intact and asks for more than is left
        have hl : beAt ((V.bytes a).take k) 14 2 = (V.body a).length := by
          have := msg_len V a [] h
          rw [List.append_nil] at this
          unfold beAt slice at this ⊢
          rw [← this]
          rw [List.drop_take, List.take_take]
          have : min 2 (k - 14) = 2 := by omega
          rw [this]
        simp only [msgValid, hrl, hl, Bool.and_eq_false_iff, decide_eq_false_iff_not]
        left; left; right
        omega
    rw [walk]
    simp [hrl, h0, hv]

end one

/-! ### runs of messages -/

section many
variable {α : Type} (V : MsgView α) (ver dev mt stream : Nat)

theorem walk_nil : walk (dev, stream) ver mt [] = ([], Term.done) := by
  rw [walk]; simp

/-- whole messages in front of anything -/
theorem walk_msgs (l : List α) (hl : ∀ a ∈ l, V.WF a) (tail : Bytes) :
    walk (dev, stream) ver mt (l.flatMap V.bytes ++ tail) =
      (l.map (V.pkt ver dev mt stream) ++ (walk (dev, stream) ver mt tail).1,
        (walk (dev, stream) ver mt tail).2) := by
  induction l with
  | nil => simp
  | cons a l ih =>
    simp only [List.flatMap_cons, List.append_assoc, List.map_cons, List.cons_append]
    rw [walk_cons V a _ (hl a (by simp)), ih (fun x hx => hl x (by simp [hx]))]

/-- the messages cut after `k` bytes: exactly those wholly inside are delivered.  `fc` is any
    function satisfying the equations of `fitCount` -/
theorem walk_take (fc : Nat → List α → Nat) (h0 : ∀ n, fc n [] = 0)
    (h1 : ∀ n a l, fc n (a :: l) =
      if 16 + (V.body a).length ≤ n then 1 + fc (n - (16 + (V.body a).length)) l else 0) :
    ∀ (l : List α), (∀ a ∈ l, V.WF a) → ∀ k, ∃ t, (t = Term.done ∨ t = Term.invalid) ∧
      walk (dev, stream) ver mt ((l.flatMap V.bytes).take k) =
        ((l.take (fc k l)).map (V.pkt ver dev mt stream), t) := by
  intro l
  induction l with
  | nil =>
    intro _ k
    exact ⟨.done, Or.inl rfl, by simp [walk_nil, h0]⟩
  | cons a l ih =>
    intro hl k
    have ha := hl a (by simp)
    have hlen : (V.bytes a).length = 16 + (V.body a).length := by
      have := msg_length V a []
      simpa using this
    simp only [List.flatMap_cons]
    by_cases hk : 16 + (V.body a).length ≤ k
    · obtain ⟨t, ht, hw⟩ := ih (fun x hx => hl x (by simp [hx])) (k - (16 + (V.body a).length))
      refine ⟨t, ht, ?_⟩
      rw [List.take_append, List.take_of_length_le (by omega), hlen, walk_cons V a _ ha, hw, h1, if_pos hk,
        Nat.add_comm 1, List.take_succ_cons]
      simp
    · obtain ⟨t, ht, hw⟩ := walk_cut V a (l.flatMap V.bytes) ha ver dev mt stream k (by omega)
      refine ⟨t, ht, ?_⟩
      rw [hw, h1, if_neg hk]
      simp

end many

/-! ### the frame header -/

def hdr8 (ver reserved dev mt stream seq : Nat) : Bytes :=
  [UInt8.ofNat ver, UInt8.ofNat reserved] ++ beEnc 2 dev ++ [UInt8.ofNat mt, UInt8.ofNat stream] ++ beEnc 2 seq

theorem hdr8_length (ver reserved dev mt stream seq : Nat) : (hdr8 ver reserved dev mt stream seq).length = 8 := by
  simp [hdr8]

theorem hdr8_fields (ver reserved dev mt stream seq : Nat) (rest : Bytes) :
    let b := hdr8 ver reserved dev mt stream seq ++ rest
    byteAt b 0 = ver % 256 ∧ beAt b 2 2 = dev % 65536 ∧ byteAt b 4 = mt % 256 ∧
    byteAt b 5 = stream % 256 ∧ beAt b 6 2 = seq % 65536 ∧ b.drop 8 = rest := by
  refine ⟨?_, ?_, ?_, ?_, ?_, List.drop_left' (hdr8_length ..)⟩
  · have e : hdr8 ver reserved dev mt stream seq ++ rest = [] ++ UInt8.ofNat ver ::
        ([UInt8.ofNat reserved] ++ beEnc 2 dev ++ [UInt8.ofNat mt, UInt8.ofNat stream] ++ beEnc 2 seq ++ rest) := by
      simp [hdr8]
    rw [e, byteAt_mid _ _ _ 0 rfl]; exact UInt8.toNat_ofNat'
  · have e : hdr8 ver reserved dev mt stream seq ++ rest = [UInt8.ofNat ver, UInt8.ofNat reserved] ++ beEnc 2 dev ++
        ([UInt8.ofNat mt, UInt8.ofNat stream] ++ beEnc 2 seq ++ rest) := by
      simp [hdr8]
    unfold beAt
    rw [e, slice_mid _ _ _ 2 2 rfl (by simp), beDec_beEnc]
  · have e : hdr8 ver reserved dev mt stream seq ++ rest = ([UInt8.ofNat ver, UInt8.ofNat reserved] ++ beEnc 2 dev) ++
        UInt8.ofNat mt :: ([UInt8.ofNat stream] ++ beEnc 2 seq ++ rest) := by
      simp [hdr8]
    rw [e, byteAt_mid _ _ _ 4 (by simp)]; exact UInt8.toNat_ofNat'
  · have e : hdr8 ver reserved dev mt stream seq ++ rest = ([UInt8.ofNat ver, UInt8.ofNat reserved] ++ beEnc 2 dev ++
        [UInt8.ofNat mt]) ++ UInt8.ofNat stream :: (beEnc 2 seq ++ rest) := by
      simp [hdr8]
    rw [e, byteAt_mid _ _ _ 5 (by simp)]; exact UInt8.toNat_ofNat'
  · have e : hdr8 ver reserved dev mt stream seq ++ rest = ([UInt8.ofNat ver, UInt8.ofNat reserved] ++ beEnc 2 dev ++
        [UInt8.ofNat mt, UInt8.ofNat stream]) ++ beEnc 2 seq ++ rest := by
      simp [hdr8]
    unfold beAt
    rw [e, slice_mid _ _ _ 6 2 (by simp) (by simp), beDec_beEnc]

/-- in-range header values -/
def HdrWF (ver reserved dev mt stream seq : Nat) : Prop :=
  1 ≤ ver ∧ ver < 256 ∧ reserved < 256 ∧ dev < 65536 ∧ mt < 256 ∧ stream < 256 ∧ seq < 65536

/-- a buffer starting with a frame header is decoded by the message walk behind it -/
theorem decode_hdr (d : DecState) {ver reserved dev mt stream seq : Nat}
    (h : HdrWF ver reserved dev mt stream seq) (body : Bytes) :
    decode d (some (hdr8 ver reserved dev mt stream seq ++ body)) =
      step d { ep := (dev, stream), ver := ver, mt := mt, seq := seq,
               unseg := (walk (dev, stream) ver mt body).1, term := (walk (dev, stream) ver mt body).2 } := by
  obtain ⟨h1, h2, _, h4, h5, h6, h7⟩ := h
  obtain ⟨f0, f2, f4, f5, f6, f8⟩ := hdr8_fields ver reserved dev mt stream seq body
  have hl : ¬ (hdr8 ver reserved dev mt stream seq ++ body).length < 8 := by
    rw [List.length_append, hdr8_length]; omega
  have hb : ¬ byteAt (hdr8 ver reserved dev mt stream seq ++ body) 0 = 0 := by
    rw [f0, Nat.mod_eq_of_lt h2]; omega
  unfold decode decodeWith
  simp only [hl, hb, if_false]
  unfold parseFrame
  simp only [f0, f2, f4, f5, f6, f8, Nat.mod_eq_of_lt h2, Nat.mod_eq_of_lt h4, Nat.mod_eq_of_lt h5,
    Nat.mod_eq_of_lt h6, Nat.mod_eq_of_lt h7]

theorem step_unseg_only (d : DecState) (f : PFrame) (h : f.term = Term.done ∨ f.term = Term.invalid) :
    (step d f).2 = f.unseg := by
  show (localStep (d f.ep) f).2 = f.unseg
  unfold localStep
  rcases h with h | h <;> simp [h]

/-! ### the three statements of C04, for any view -/

section final
variable {α : Type} (V : MsgView α) {ver reserved dev mt stream seq : Nat}
  (h : HdrWF ver reserved dev mt stream seq) (l : List α) (hl : ∀ a ∈ l, V.WF a) (d : DecState)
include h hl

theorem wire_pad (k : Nat) :
    (decode d (some (hdr8 ver reserved dev mt stream seq ++ l.flatMap V.bytes ++ zeros k))).2 =
      l.map (V.pkt ver dev mt stream) := by
  rw [List.append_assoc, decode_hdr d h, step_unseg_only]
  · simp only [walk_msgs V ver dev mt stream l hl, C01.walk_zeros, List.append_nil]
  · simp only [walk_msgs V ver dev mt stream l hl, C01.walk_zeros]
    split
    · exact Or.inl rfl
    · exact Or.inr rfl

theorem wire_whole :
    (decode d (some (hdr8 ver reserved dev mt stream seq ++ l.flatMap V.bytes))).2 =
      l.map (V.pkt ver dev mt stream) := by
  have := wire_pad V h l hl d 0
  simpa [zeros] using this

theorem wire_truncate (fc : Nat → List α → Nat) (h0 : ∀ n, fc n [] = 0)
    (h1 : ∀ n a l, fc n (a :: l) =
      if 16 + (V.body a).length ≤ n then 1 + fc (n - (16 + (V.body a).length)) l else 0) (n : Nat) :
    (decode d (some ((hdr8 ver reserved dev mt stream seq ++ l.flatMap V.bytes).take n))).2 =
      (l.take (fc (n - 8) l)).map (V.pkt ver dev mt stream) := by
  by_cases hn : n < 8
  · have hlen : ((hdr8 ver reserved dev mt stream seq ++ l.flatMap V.bytes).take n).length < 8 := by
      rw [List.length_take]; omega
    have hz : n - 8 = 0 := by omega
    have hfc : fc 0 l = 0 := by
      cases l with
      | nil => exact h0 0
      | cons a l => rw [h1]; simp
    unfold decode decodeWith
    simp only [hlen, if_true, hz, hfc, List.take_zero, List.map_nil]
  · obtain ⟨t, ht, hw⟩ := walk_take V ver dev mt stream fc h0 h1 l hl (n - 8)
    rw [List.take_append, List.take_of_length_le (by rw [hdr8_length]; omega), hdr8_length,
      decode_hdr d h, step_unseg_only]
    · rw [hw]
    · rw [hw]; exact ht

end final
end AsamCmp.C04
