/-
  Packet value mode, part 3: the byte loop of the translated `operator==(const Payload&, const Payload&)` (recursion on fuel, a
  `return` inside the loop), the two `operator==`, `swap`, and the getters of `Packet` that go through the owned payload.
-/
import AsamCmp.Lemmas.SrcPacketValue
set_option linter.unusedSimpArgs false
set_option linter.unusedVariables false
namespace AsamCmp.SrcPv
open AsamCmp AsamCmp.Src AsamCmp.SrcGen AsamCmp.SrcTie

/-! ### the comparison loop -/

theorem rd_byte (b : Bytes) (i : Nat) (h : i < b.length) : Src.rd b (0 + i) 1 = some (byteAt b i) := by
  rw [Nat.zero_add, rd_eq b i 1 (by omega), leAt_one]

theorem drop_cons (b : Bytes) (i : Nat) (h : i < b.length) : b.drop i = b.getD i 0 :: b.drop (i + 1) := by
  rw [List.drop_eq_getElem_cons h]
  simp [List.getD_eq_getElem?_getD, List.getElem?_eq_getElem h]

theorem byteAt_eq_iff (a b : Bytes) (i : Nat) : byteAt a i = byteAt b i ↔ a.getD i 0 = b.getD i 0 := by
  unfold byteAt
  exact UInt8.toNat_inj

/-- from index `i` on: `none` (loop ran to the end) iff the remaining bytes agree, `some false` at the first difference -/
theorem loop_eq (a b : Payload_St) (g : Bool) (hlen : a.f_payloadData.length = b.f_payloadData.length)
    (h64 : a.f_payloadData.length < 2 ^ 64) :
    ∀ (k i fuel : Nat), i + k = a.f_payloadData.length → k < fuel →
      ∃ j, opEq_Payload_pv_loop1 fuel g a b 0 0 i =
        some (if a.f_payloadData.drop i = b.f_payloadData.drop i then none else some false, j) := by
  intro k
  induction k with
  | zero =>
    intro i fuel hi hf
    obtain ⟨f, rfl⟩ : ∃ f, fuel = f + 1 := ⟨fuel - 1, by omega⟩
    refine ⟨i, ?_⟩
    have hc : ¬ i < a.f_payloadData.length := by omega
    have e1 : a.f_payloadData.drop i = [] := List.drop_eq_nil_of_le (by omega)
    have e2 : b.f_payloadData.drop i = [] := List.drop_eq_nil_of_le (by omega)
    unfold opEq_Payload_pv_loop1
    simp only [Payload_getLength_pv, bind, some_bind, pure, hc, decide_false, Bool.false_eq_true, if_false, e1, e2,
      if_true]
  | succ k ih =>
    intro i fuel hi hf
    obtain ⟨f, rfl⟩ : ∃ f, fuel = f + 1 := ⟨fuel - 1, by omega⟩
    have hc : i < a.f_payloadData.length := by omega
    have hcb : i < b.f_payloadData.length := by omega
    have hu : uadd 64 i 1 = i + 1 := uadd_eq i 1 (by omega)
    unfold opEq_Payload_pv_loop1
    simp only [Payload_getLength_pv, bind, some_bind, pure, hc, decide_true, if_true, rd_byte _ i hc, rd_byte _ i hcb,
      bne_iff_ne, ne_eq, hu]
    rw [drop_cons _ i hc, drop_cons _ i hcb]
    by_cases hb : byteAt a.f_payloadData i = byteAt b.f_payloadData i
    · obtain ⟨j, hj⟩ := ih (i + 1) f (by omega) (by omega)
      refine ⟨j, ?_⟩
      have hb' := (byteAt_eq_iff _ _ i).mp hb
      simp only [hb, not_true_eq_false, if_false, hj, hb', List.cons.injEq, true_and]
    · refine ⟨i, ?_⟩
      have hb' : ¬ a.f_payloadData.getD i 0 = b.f_payloadData.getD i 0 := fun h => hb ((byteAt_eq_iff _ _ i).mpr h)
      simp only [hb, not_false_eq_true, if_true, List.cons.injEq, hb', false_and, if_false]

/-- `operator==(const Payload&, const Payload&)`; `g` answers the pointer comparison `lhsRaw == rhsRaw` -/
theorem plEq (a b : Payload) (g : Bool) (fuel : Nat) (hg : g = true → a.data = b.data) (h64 : a.data.length < 2 ^ 64)
    (hf : a.data.length < fuel) :
    opEq_Payload_pv fuel g (plRepr a) (plRepr b) = some (payloadEq a b) := by
  obtain ⟨ta, da⟩ := a
  obtain ⟨tb, db⟩ := b
  unfold opEq_Payload_pv
  simp only [Payload_getType_pv, Payload_getLength_pv, pt_opNe, bind, some_bind, pure, plRepr, bne_iff_ne, ne_eq,
    payloadEq]
  by_cases ht : ta = tb
  · subst ht
    by_cases hl : da.length = db.length
    · cases g with
      | true =>
        have hd : da = db := hg rfl
        simp only [hl, hd, not_true_eq_false, if_false, if_true, beq_self_eq_true, Bool.and_self]
      | false =>
        obtain ⟨j, hj⟩ := loop_eq (plRepr ⟨ta, da⟩) (plRepr ⟨ta, db⟩) false hl h64 da.length 0 fuel (by simp [plRepr]) hf
        simp only [plRepr, List.drop_zero] at hj
        by_cases hd : da = db
        · simp only [hd, if_true] at hj
          simp only [hl, not_true_eq_false, if_false, Bool.false_eq_true, hj, some_bind, beq_self_eq_true, Bool.true_and,
            hd]
        · simp only [hd, if_false] at hj
          simp only [hl, not_true_eq_false, if_false, Bool.false_eq_true, hj, some_bind, beq_self_eq_true, Bool.true_and,
            beq_eq_false_iff_ne.mpr hd]
    · simp only [hl, not_true_eq_false, not_false_eq_true, if_false, if_true, beq_eq_false_iff_ne.mpr hl,
        Bool.and_false, Bool.false_and, beq_self_eq_true, Bool.true_and]
  · simp only [ht, not_false_eq_true, if_true, beq_eq_false_iff_ne.mpr ht, Bool.false_and]

/-! ### `swap(Packet&, Packet&)` -/

theorem swap_eq (a b : PacketV_St) : swap_Packet_pv a b = some (b, a) := by
  cases a; cases b; rfl

/-! ### the getters of `Packet` -/

theorem pk_getVersion (s : PacketV_St) : Packet_getVersion_pv s = some (s, s.f_version) := rfl
theorem pk_getDeviceId (s : PacketV_St) : Packet_getDeviceId_pv s = some (s, s.f_deviceId) := rfl
theorem pk_getStreamId (s : PacketV_St) : Packet_getStreamId_pv s = some (s, s.f_streamId) := rfl
theorem pk_getSeq (s : PacketV_St) : Packet_getSequenceCounter_pv s = some (s, s.f_sequenceCounter) := rfl
theorem pk_getTs (s : PacketV_St) : Packet_getTimestamp_pv s = some (s, s.f_timestamp) := rfl
theorem pk_getIf (s : PacketV_St) : Packet_getInterfaceId_pv s = some (s, s.f_interfaceId) := rfl
theorem pk_getVendor (s : PacketV_St) : Packet_getVendorId_pv s = some (s, s.f_vendorId) := rfl
theorem pk_getFlags (s : PacketV_St) : Packet_getCommonFlags_pv s = some (s, s.f_commonFlags) := rfl
theorem pk_getSeg (s : PacketV_St) : Packet_getSegmentType_pv s = some (s, s.f_segmentType) := rfl

theorem pk_getMt (p : Packet) (pl : Payload) (hp : p.payload = some pl) :
    Packet_getMessageType_pv (repr p) = some (repr p, p.mt) := by
  unfold Packet_getMessageType_pv
  simp only [repr, hp, Option.map_some, bind, some_bind, pure, pl_getMessageType, Packet.mt]

theorem pk_getPt (p : Packet) (pl : Payload) (hp : p.payload = some pl) :
    Packet_getPayloadType_pv (repr p) = some (repr p, p.rawType) := by
  unfold Packet_getPayloadType_pv
  simp only [repr, hp, Option.map_some, bind, some_bind, pure, pl_getRaw, Packet.rawType]

theorem pk_getPayload (p : Packet) (pl : Payload) (hp : p.payload = some pl) :
    Packet_getPayload_pv (repr p) = some (repr p, plRepr pl) := by
  unfold Packet_getPayload_pv
  simp only [repr, hp, Option.map_some, bind, some_bind, pure]

theorem pk_getLen (p : Packet) : Packet_getPayloadLength_pv (repr p) = some (repr p, p.payloadLength) := by
  unfold Packet_getPayloadLength_pv
  cases hp : p.payload with
  | none => simp only [repr, hp, Option.map_none, Option.isSome_none, Bool.false_eq_true, if_false, bind, some_bind, pure,
      Packet.payloadLength, Nat.zero_mod]
  | some pl => simp only [repr, hp, Option.map_some, Option.isSome_some, if_true, bind, some_bind, pure, pl_getLength,
      Packet.payloadLength, Nat.mod_mod]

theorem pk_isValid (p : Packet) : Packet_isValid_pv (repr p) = some (repr p, p.isValid) := by
  unfold Packet_isValid_pv
  cases hp : p.payload with
  | none => simp only [repr, hp, Option.map_none, Option.isSome_none, Bool.false_eq_true, if_false, bind, some_bind, pure,
      Packet.isValid]
  | some pl => simp only [repr, hp, Option.map_some, Option.isSome_some, if_true, bind, some_bind, pure, pl_isValid,
      Packet.isValid]

/-- without payload the three getters that dereference the pointer are undefined -/
theorem pk_null (p : Packet) (hp : p.payload = none) :
    Packet_getMessageType_pv (repr p) = none ∧ Packet_getPayloadType_pv (repr p) = none ∧
    Packet_getPayload_pv (repr p) = none := by
  unfold Packet_getMessageType_pv Packet_getPayloadType_pv Packet_getPayload_pv
  simp only [repr, hp, Option.map_none, bind, none_bind, and_self]

/-! ### `operator==(const Packet&, const Packet&)` -/

theorem eq_step (x y : Nat) (r : Option Bool) (m : Bool) (h : r = some m) :
    (if ¬ x = y then some false else r) = some ((x == y) && m) := by
  by_cases hxy : x = y
  · simp only [hxy, not_true_eq_false, if_false, h, beq_self_eq_true, Bool.true_and]
  · simp only [hxy, not_false_eq_true, if_true, beq_eq_false_iff_ne.mpr hxy, Bool.false_and]

/-- the payload part of the comparison: the real sizes, then the payloads if there is something to compare -/
theorem pkEq_tail (a b : Packet) (g : Bool) (fuel : Nat)
    (hg : ∀ x y, a.payload = some x → b.payload = some y → g = true → x.data = y.data)
    (h64 : a.fullLength < 2 ^ 64) (hf : a.fullLength < fuel) :
    (do
      let t21 ← (if ((repr a).f_payload).isSome then (do let d19 ← (repr a).f_payload; let (_, t20) ← Payload_getLength_pv d19; pure t20) else (do pure 0))
      let v_lhsLength := t21
      let t24 ← (if ((repr b).f_payload).isSome then (do let d22 ← (repr b).f_payload; let (_, t23) ← Payload_getLength_pv d22; pure t23) else (do pure 0))
      let v_rhsLength := t24
      if ((v_lhsLength == v_rhsLength) && (decide (v_lhsLength > 0))) then
        let (_, t25) ← Packet_getPayload_pv (repr a)
        let (_, t26) ← Packet_getPayload_pv (repr b)
        let t27 ← opEq_Payload_pv fuel g t25 t26
        pure t27
      else
        pure (v_lhsLength == v_rhsLength)) =
    some (if a.fullLength = b.fullLength ∧ 0 < a.fullLength then
            match a.payload, b.payload with
            | some x, some y => payloadEq x y
            | _, _ => false
          else a.fullLength == b.fullLength) := by
  cases ha : a.payload with
  | none =>
    cases hb : b.payload with
    | none =>
      simp only [repr, ha, hb, Option.map_none, Option.isSome_none, Bool.false_eq_true, if_false, bind, some_bind, pure,
        Packet.fullLength, beq_self_eq_true, gt_iff_lt, Nat.lt_irrefl, decide_false, Bool.and_false, and_false]
    | some y =>
      simp only [repr, ha, hb, Option.map_none, Option.map_some, Option.isSome_none, Option.isSome_some,
        Bool.false_eq_true, if_false, if_true, bind, some_bind, pure, pl_getLength, Packet.fullLength, gt_iff_lt,
        Nat.lt_irrefl, decide_false, Bool.and_false, and_false]
  | some x =>
    cases hb : b.payload with
    | none =>
      by_cases h0 : x.data.length = 0
      · simp only [repr, ha, hb, Option.map_none, Option.map_some, Option.isSome_none, Option.isSome_some,
          Bool.false_eq_true, if_false, if_true, bind, some_bind, pure, pl_getLength, Packet.fullLength, gt_iff_lt, h0,
          Nat.lt_irrefl, decide_false, Bool.and_false, and_false, beq_self_eq_true]
      · have hne : (x.data.length == 0) = false := beq_eq_false_iff_ne.mpr h0
        simp only [repr, ha, hb, Option.map_none, Option.map_some, Option.isSome_none, Option.isSome_some,
          Bool.false_eq_true, if_false, if_true, bind, some_bind, pure, pl_getLength, Packet.fullLength, gt_iff_lt, hne,
          Bool.false_and, h0, false_and]
    | some y =>
      have hgx : g = true → x.data = y.data := hg x y ha hb
      have h64x : x.data.length < 2 ^ 64 := by simpa [Packet.fullLength, ha] using h64
      have hfx : x.data.length < fuel := by simpa [Packet.fullLength, ha] using hf
      have hA : Packet_getPayload_pv (repr a) = some (repr a, plRepr x) := pk_getPayload a x ha
      have hB : Packet_getPayload_pv (repr b) = some (repr b, plRepr y) := pk_getPayload b y hb
      rw [hA, hB]
      simp only [repr, ha, hb, Option.map_some, Option.isSome_some, if_true, bind, some_bind, pure, pl_getLength,
        Packet.fullLength, gt_iff_lt, plEq x y g fuel hgx h64x hfx, Bool.and_eq_true, beq_iff_eq, decide_eq_true_eq]
      split <;> rfl

theorem pkEq (a b : Packet) (g : Bool) (fuel : Nat)
    (hg : ∀ x y, a.payload = some x → b.payload = some y → g = true → x.data = y.data)
    (h64 : a.fullLength < 2 ^ 64) (hf : a.fullLength < fuel) :
    opEq_Packet_pv fuel g (repr a) (repr b) = some (packetEq a b) := by
  have ht := pkEq_tail a b g fuel hg h64 hf
  unfold opEq_Packet_pv packetEq
  simp only [pk_getVersion, pk_getDeviceId, pk_getStreamId, pk_getSeq, pk_getTs, pk_getIf, pk_getVendor, pk_getFlags,
    pk_getSeg, bind, some_bind, pure, bne_iff_ne, ne_eq, Bool.and_assoc]
  refine eq_step _ _ _ _ ?_
  refine eq_step _ _ _ _ ?_
  refine eq_step _ _ _ _ ?_
  refine eq_step _ _ _ _ ?_
  refine eq_step _ _ _ _ ?_
  refine eq_step _ _ _ _ ?_
  refine eq_step _ _ _ _ ?_
  refine eq_step _ _ _ _ ?_
  refine eq_step _ _ _ _ ?_
  exact ht

end AsamCmp.SrcPv
