/-
  Helper lemmas for Props/C08S.lean §4: the clauses of `P_C08` plus "no empty frame" determine the frame layout
  (message type and (flag, length) list of every frame) uniquely.  Pure wire-level reasoning about `SFrame` lists.
-/
import AsamCmp.Tile
namespace AsamCmp.C08S
open AsamCmp

/-- the (flag, length) list of a frame -/
def K (f : SFrame) : List (Nat × Nat) := f.msgs.map fun m => (m.seg, m.body.length)

/-- the layout of a frame: announced message type and (flag, length) of its messages -/
def frameKey (f : SFrame) : Nat × List (Nat × Nat) := (f.mt, K f)

def szSum (l : List (Nat × Nat)) : Nat := (l.map fun x => 16 + x.2).sum

theorem used_K (f : SFrame) : f.used = szSum (K f) := by
  simp only [SFrame.used, K, szSum, List.map_map]
  rfl

theorem szSum_append (a b : List (Nat × Nat)) : szSum (a ++ b) = szSum a + szSum b := by
  simp [szSum]

/-- the frame-local clauses -/
structure FOk (cap : Nat) (f : SFrame) : Prop where
  ne : K f ≠ []
  alone : (∀ x ∈ K f, x.1 = 0) ∨ (K f).length = 1
  used : f.used ≤ cap

/-- the expected-message-type sequence -/
def mtsOf (fs : List SFrame) : List Nat := fs.flatMap fun f => (K f).map fun _ => f.mt

theorem greedy_head (cap : Nat) (f g : SFrame) (r : List SFrame) (h : greedyOk cap (f :: g :: r) = true) :
    (∀ x xs, K g = x :: xs → x.1 = 0 → f.mt = g.mt → (∀ z ∈ K f, z.1 = 0) → cap < f.used + (16 + x.2)) ∧
    greedyOk cap (g :: r) = true := by
  unfold greedyOk at h
  simp only [Bool.and_eq_true] at h
  refine ⟨?_, h.2⟩
  intro x xs hx hx0 hmt hall
  have h1 := h.1
  cases hg : g.msgs with
  | nil => simp [K, hg] at hx
  | cons y ys =>
    simp only [K, hg, List.map_cons, List.cons.injEq] at hx
    rw [hg] at h1
    simp only [Bool.or_eq_true, Bool.not_eq_true', SMsg.size] at h1
    rcases h1 with h1 | h1
    · exfalso
      have hy : y.seg = 0 := by rw [← hx.1] at hx0; exact hx0
      have hall' : f.msgs.all (fun x => x.seg == 0) = true := by
        rw [List.all_eq_true]
        intro m hm
        have := hall (m.seg, m.body.length) (by
          simp only [K, List.mem_map]
          exact ⟨m, hm, rfl⟩)
        simpa using this
      simp [hy, hmt, hall'] at h1
    · rw [← hx.1]
      simpa using h1

theorem mtsOf_cons (f : SFrame) (r : List SFrame) : mtsOf (f :: r) = (K f).map (fun _ => f.mt) ++ mtsOf r := by
  simp [mtsOf]

/-- the first frame of one layout cannot be a strict prefix of the first frame of another -/
theorem not_strict_prefix (cap : Nat) (f f' : SFrame) (r r' : List SFrame)
    (hf : FOk cap f) (hf' : FOk cap f') (hr : ∀ g ∈ r, FOk cap g) (hg : greedyOk cap (f :: r) = true)
    (x : Nat × Nat) (t : List (Nat × Nat))
    (h1 : K f' = K f ++ x :: t) (h2 : r.flatMap K = (x :: t) ++ r'.flatMap K)
    (hm : mtsOf (f :: r) = mtsOf (f' :: r')) : False := by
  -- the frame behind `f`
  cases r with
  | nil => simp at h2
  | cons g r2 =>
    have hgk := (hr g (by simp)).ne
    cases hkg : K g with
    | nil => exact hgk hkg
    | cons y ys =>
      simp only [List.flatMap_cons, hkg, List.cons_append, List.cons.injEq] at h2
      obtain ⟨hy, _⟩ := h2
      subst hy
      -- `f'` holds at least two messages: all unsegmented
      have hlen : (K f').length ≠ 1 := by
        have : (K f).length ≠ 0 := by
          intro h0; exact hf.ne (List.eq_nil_of_length_eq_zero h0)
        rw [h1, List.length_append, List.length_cons]
        omega
      have hall' : ∀ z ∈ K f', z.1 = 0 := by
        rcases hf'.alone with h | h
        · exact h
        · exact absurd h hlen
      have hallf : ∀ z ∈ K f, z.1 = 0 := fun z hz => hall' z (by rw [h1]; simp [hz])
      have hy0 : y.1 = 0 := hall' y (by rw [h1]; simp)
      -- message types
      rw [mtsOf_cons, mtsOf_cons, mtsOf_cons, hkg, h1] at hm
      simp only [List.map_append, List.map_cons, List.append_assoc, List.cons_append] at hm
      obtain ⟨hm1, hm2⟩ := List.append_inj hm (by simp)
      simp only [List.cons.injEq] at hm2
      have hmt' : g.mt = f'.mt := hm2.1
      have hmt : f.mt = f'.mt := by
        cases hkf : K f with
        | nil => exact absurd hkf hf.ne
        | cons a as =>
          rw [hkf] at hm1
          simp only [List.map_cons, List.cons.injEq] at hm1
          exact hm1.1
      have := (greedy_head cap f g r2 hg).1 y ys hkg hy0 (hmt.trans hmt'.symm) hallf
      have hu' := hf'.used
      rw [used_K, h1, szSum_append] at hu'
      rw [used_K] at this
      have : szSum (y :: t) = 16 + y.2 + szSum t := by simp [szSum]
      omega

theorem unique_aux (cap : Nat) : ∀ (fs fs' : List SFrame),
    (∀ f ∈ fs, FOk cap f) → (∀ f ∈ fs', FOk cap f) →
    greedyOk cap fs = true → greedyOk cap fs' = true →
    fs.flatMap K = fs'.flatMap K → mtsOf fs = mtsOf fs' →
    fs.map frameKey = fs'.map frameKey := by
  intro fs
  induction fs with
  | nil =>
    intro fs' _ hok' _ _ hk _
    cases fs' with
    | nil => rfl
    | cons f' r' =>
      exfalso
      have := (hok' f' (by simp)).ne
      simp only [List.flatMap_nil, List.flatMap_cons] at hk
      have h := (List.append_eq_nil_iff.mp hk.symm).1
      exact this h
  | cons f r ih =>
    intro fs' hok hok' hg hg' hk hm
    have hf := hok f (by simp)
    cases fs' with
    | nil =>
      exfalso
      simp only [List.flatMap_nil, List.flatMap_cons] at hk
      exact hf.ne (List.append_eq_nil_iff.mp hk).1
    | cons f' r' =>
      have hf' := hok' f' (by simp)
      have hr : ∀ g ∈ r, FOk cap g := fun g hg => hok g (by simp [hg])
      have hr' : ∀ g ∈ r', FOk cap g := fun g hg => hok' g (by simp [hg])
      simp only [List.flatMap_cons] at hk
      -- the first frames hold the same messages
      have hK : K f = K f' ∧ r.flatMap K = r'.flatMap K := by
        rcases List.append_eq_append_iff.mp hk with ⟨t, h1, h2⟩ | ⟨t, h1, h2⟩
        · cases t with
          | nil => simp at h1 h2; exact ⟨h1.symm, h2⟩
          | cons x t => exact absurd (not_strict_prefix cap f f' r r' hf hf' hr hg x t h1 h2 hm) id
        · cases t with
          | nil => simp at h1 h2; exact ⟨h1, h2.symm⟩
          | cons x t => exact absurd (not_strict_prefix cap f' f r' r hf' hf hr' hg' x t h1 h2 hm.symm) id
      rw [mtsOf_cons, mtsOf_cons, hK.1] at hm
      obtain ⟨hm1, hm2⟩ := List.append_inj hm (by simp)
      have hmt : f.mt = f'.mt := by
        cases hkf : K f' with
        | nil => exact absurd hkf hf'.ne
        | cons a as =>
          rw [hkf] at hm1
          simp only [List.map_cons, List.cons.injEq] at hm1
          exact hm1.1
      have hgr : greedyOk cap r = true := by
        cases r with
        | nil => rfl
        | cons g r2 => exact (greedy_head cap f g r2 hg).2
      have hgr' : greedyOk cap r' = true := by
        cases r' with
        | nil => rfl
        | cons g r2 => exact (greedy_head cap f' g r2 hg').2
      simp only [List.map_cons, List.cons.injEq]
      exact ⟨by simp [frameKey, hmt, hK.1], ih r' hr hr' hgr hgr' hK.2 hm2⟩

end AsamCmp.C08S
