/-
  Symbolic words / memories against the layout table: `fieldBits` evaluates to `getField`, `expectMem` to `setField`
  (Src/BitProg.lean, Fields.lean).
-/
import AsamCmp.Lemmas.BitProgMem
namespace AsamCmp.Src.Bit
open AsamCmp AsamCmp.Src

/-! ### bits of a big-endian word -/

/-- bit `p` of the big-endian word at `off` is bit `p % 8` of the byte `p / 8` places before the word's last byte -/
theorem testBit_beAt (b : Bytes) (off w p : Nat) (h : off + w ≤ b.length) (hp : p < 8 * w) :
    (beAt b off w).testBit p = (byteAt b (off + w - 1 - p / 8)).testBit (p % 8) := by
  induction w generalizing off with
  | zero => omega
  | succ w ih =>
    rw [SrcTie.beAt_succ b off w h, C11.pow256, Nat.mul_comm,
      Nat.testBit_two_pow_mul_add _ (C11.beAt_lt (b := b) (off := off + 1) (w := w) (by omega))]
    by_cases h1 : p < 8 * w
    · rw [if_pos h1, ih (off + 1) (by omega) h1]
      congr 2
      omega
    · rw [if_neg h1]
      congr 1
      · congr 1; omega
      · omega

/-- bit `j` of byte `i` inside the word is bit `(off + w - 1 - i) * 8 + j` of the word -/
theorem testBit_byteAt_word (b : Bytes) (off w i j : Nat) (h : off + w ≤ b.length) (hi : off ≤ i ∧ i < off + w)
    (hj : j < 8) : (byteAt b i).testBit j = (beAt b off w).testBit ((off + w - 1 - i) * 8 + j) := by
  rw [testBit_beAt b off w _ h (by omega)]
  congr 1
  · congr 1; omega
  · omega

theorem bytes_ext {a b : Bytes} (hl : a.length = b.length)
    (h : ∀ i, i < a.length → ∀ j, j < 8 → (byteAt a i).testBit j = (byteAt b i).testBit j) : a = b := by
  apply List.ext_getElem hl
  intro i h1 h2
  apply UInt8.toNat.inj
  have ea : byteAt a i = a[i].toNat := by
    simp [byteAt, List.getD_eq_getElem?_getD, List.getElem?_eq_getElem h1]
  have eb : byteAt b i = b[i].toNat := by
    simp [byteAt, List.getD_eq_getElem?_getD, List.getElem?_eq_getElem h2]
  rw [← ea, ← eb]
  apply Nat.eq_of_testBit_eq
  intro j
  by_cases hj : j < 8
  · exact h i h1 j hj
  · have hp : (2 : Nat) ^ 8 ≤ 2 ^ j := Nat.pow_le_pow_right (by decide) (by omega)
    rw [Nat.testBit_lt_two_pow (Nat.lt_of_lt_of_le (SrcTie.byteAt_lt a i) hp),
      Nat.testBit_lt_two_pow (Nat.lt_of_lt_of_le (SrcTie.byteAt_lt b i) hp)]

theorem byteAt_eq_of_getElem? {a b : Bytes} {i : Nat} (h : a[i]? = b[i]?) : byteAt a i = byteAt b i := by
  simp only [byteAt, List.getD_eq_getElem?_getD, h]

section
variable (obj : Bytes) (args : List Nat)

/-! ### getters -/

theorem eval_fieldBits (f : Field) (hs : f.shift + f.bits ≤ 8 * f.w) (hb : f.off + f.w ≤ obj.length) :
    SWord.eval obj args (fieldBits f) = getField f obj := by
  symm
  apply eq_eval
  intro j
  rw [C11.getField_eq, C11.testBit_ext]
  unfold fieldBits
  rw [bit_map_range]
  by_cases h : j < f.bits
  · rw [if_pos h, testBit_beAt obj f.off f.w _ hb (by omega)]
    simp only [h, decide_true, Bool.true_and]
    rfl
  · rw [if_neg h]
    simp [h]

theorem trimZeros_snoc (xs : SWord) (x : SBit) :
    trimZeros (xs ++ [x]) = if x = SBit.zero then trimZeros xs else xs ++ [x] := by
  unfold trimZeros
  rw [List.reverse_append, List.reverse_singleton, List.singleton_append, List.dropWhile_cons]
  by_cases h : x = SBit.zero
  · simp [h]
  · simp [h]

theorem eval_trimZeros (w : SWord) : SWord.eval obj args (trimZeros w) = SWord.eval obj args w := by
  induction w using snocInd with
  | hnil => rfl
  | hsnoc xs x ih =>
    rw [trimZeros_snoc]
    split
    · next h =>
      subst h
      rw [ih, eval_append]
      simp [eval_cons]
    · rfl

theorem same_eval {a b : SWord} (h : SWord.same a b = true) : SWord.eval obj args a = SWord.eval obj args b := by
  unfold SWord.same at h
  have e : trimZeros a = trimZeros b := by simpa using h
  rw [← eval_trimZeros obj args a, e, eval_trimZeros]

theorem eval_ne_zero_iff (w : SWord) : SWord.eval obj args w ≠ 0 ↔ ∃ b, b ∈ w ∧ b.eval obj args = true := by
  induction w with
  | nil => simp
  | cons x w ih =>
    rw [eval_cons]
    constructor
    · intro h
      cases hx : x.eval obj args
      · rw [hx] at h
        have : SWord.eval obj args w ≠ 0 := by
          intro e; rw [e] at h; simp at h
        obtain ⟨b, hb, hb'⟩ := ih.mp this
        exact ⟨b, by simp [hb], hb'⟩
      · exact ⟨x, by simp, hx⟩
    · rintro ⟨b, hb, hb'⟩
      simp only [List.mem_cons] at hb
      rcases hb with rfl | hb
      · rw [hb']; simp
      · have := ih.mpr ⟨b, hb, hb'⟩
        split <;> omega

theorem eval_filter_ne_zero_iff (w : SWord) :
    SWord.eval obj args (w.filter (· != SBit.zero)) ≠ 0 ↔ SWord.eval obj args w ≠ 0 := by
  rw [eval_ne_zero_iff, eval_ne_zero_iff]
  constructor
  · rintro ⟨b, hb, hb'⟩
    rw [List.mem_filter] at hb
    exact ⟨b, hb.1, hb'⟩
  · rintro ⟨b, hb, hb'⟩
    refine ⟨b, ?_, hb'⟩
    rw [List.mem_filter]
    refine ⟨hb, ?_⟩
    cases b <;> simp_all [SBit.eval]

/-! ### setters -/

theorem byteAt_memEval (sm : List SWord) (i : Nat) :
    byteAt (memEval obj args sm) i = SWord.eval obj args (fit 8 (sm.getD i [])) % 256 := by
  simp only [byteAt, memEval, List.getD_eq_getElem?_getD, List.getElem?_map]
  cases sm[i]? with
  | none =>
    simp only [Option.map_none, Option.getD_none]
    rw [eval_fit]
    simp
  | some w => simp

theorem testBit_byteAt_memEval (sm : List SWord) (i j : Nat) (hj : j < 8) :
    (byteAt (memEval obj args sm) i).testBit j = (bit (sm.getD i []) j).eval obj args := by
  rw [byteAt_memEval, eval_fit]
  have e : (256 : Nat) = 2 ^ 8 := rfl
  rw [e, Nat.testBit_mod_two_pow, Nat.testBit_mod_two_pow, testBit_eval]
  simp [hj]

theorem expectMem_length (size : Nat) (f : Field) (bits : SWord) : (expectMem size f bits).length = size := by
  simp [expectMem]

theorem expectMem_bit (size : Nat) (f : Field) (bits : SWord) (i j : Nat) (hi : i < size) (hj : j < 8) :
    bit ((expectMem size f bits).getD i []) j =
      if f.off ≤ i ∧ i < f.off + f.w then
        if f.shift ≤ (f.off + f.w - 1 - i) * 8 + j ∧ (f.off + f.w - 1 - i) * 8 + j < f.shift + f.bits then
          bit bits ((f.off + f.w - 1 - i) * 8 + j - f.shift)
        else SBit.mem i j
      else SBit.mem i j := by
  have e : (expectMem size f bits).getD i [] = (List.range 8).map fun j =>
      if f.off ≤ i ∧ i < f.off + f.w then
        if f.shift ≤ (f.off + f.w - 1 - i) * 8 + j ∧ (f.off + f.w - 1 - i) * 8 + j < f.shift + f.bits then
          bits.getD ((f.off + f.w - 1 - i) * 8 + j - f.shift) SBit.zero
        else SBit.mem i j
      else SBit.mem i j := by
    simp only [expectMem, List.getD_eq_getElem?_getD, List.getElem?_map, List.getElem?_range hi, Option.map_some,
      Option.getD_some]
  rw [e, bit_map_range, if_pos hj]
  rfl

theorem testBit_byteAt_setField (f : Field) (v : Nat) (hs : f.shift + f.bits ≤ 8 * f.w)
    (hb : f.off + f.w ≤ obj.length) (hv : v < 2 ^ f.bits) (i j : Nat) (hj : j < 8) :
    (byteAt (setField f v obj) i).testBit j =
      if f.off ≤ i ∧ i < f.off + f.w then
        if f.shift ≤ (f.off + f.w - 1 - i) * 8 + j ∧ (f.off + f.w - 1 - i) * 8 + j < f.shift + f.bits then
          v.testBit ((f.off + f.w - 1 - i) * 8 + j - f.shift)
        else (byteAt obj i).testBit j
      else (byteAt obj i).testBit j := by
  by_cases hi : f.off ≤ i ∧ i < f.off + f.w
  · rw [if_pos hi, testBit_byteAt_word _ f.off f.w i j (by rw [C11.setField_length' v hb]; exact hb) hi hj,
      C11.beAt_setField_same hs hb hv, C11.testBit_upd _ hv, testBit_byteAt_word obj f.off f.w i j hb hi hj]
  · rw [if_neg hi, byteAt_eq_of_getElem? (C11.set_frame' v hb (by omega))]

/-- the expected symbolic memory of a setter stands for `setField` -/
theorem memEval_expectMem (size : Nat) (f : Field) (bits : SWord) (hfit : f.fits size = true)
    (hobj : obj.length = size) (hv : SWord.eval obj args bits < 2 ^ f.bits) :
    memEval obj args (expectMem size f bits) = setField f (SWord.eval obj args bits) obj := by
  unfold Field.fits at hfit
  simp only [Bool.and_eq_true, decide_eq_true_eq] at hfit
  obtain ⟨⟨hs, hb⟩, _⟩ := hfit
  have hb' : f.off + f.w ≤ obj.length := by omega
  apply bytes_ext
  · rw [memEval_length, expectMem_length, C11.setField_length' _ hb', hobj]
  · intro i hi j hj
    rw [memEval_length, expectMem_length] at hi
    rw [testBit_byteAt_memEval _ _ _ _ _ hj, expectMem_bit size f bits i j hi hj,
      testBit_byteAt_setField obj f _ hs hb' hv i j hj]
    split
    · split
      · rw [testBit_eval]
      · rfl
    · rfl

end

end AsamCmp.Src.Bit
