/-
  Helper lemmas for C13 (payload builders).
-/
import AsamCmp.Access
import AsamCmp.Builders
import AsamCmp.Lemmas.Access
namespace AsamCmp.C13
open AsamCmp

/-! ### reading from explicitly appended byte strings -/

theorem slice_at (pre x post : Bytes) (off len : Nat) (h1 : pre.length = off) (h2 : x.length = len) :
    slice (pre ++ (x ++ post)) off len = x := by
  unfold slice
  rw [List.drop_left' h1, List.take_left' h2]

theorem beAt_at (pre post : Bytes) (off w n : Nat) (h1 : pre.length = off) :
    beAt (pre ++ (beEnc w n ++ post)) off w = n % 256 ^ w := by
  unfold beAt
  rw [slice_at _ _ _ _ _ h1 (beEnc_length w n), beDec_beEnc]

theorem beAt2_at (pre post : Bytes) (off n : Nat) (h1 : pre.length = off) (hn : n < 65536) :
    beAt (pre ++ (beEnc 2 n ++ post)) off 2 = n := by
  rw [beAt_at _ _ _ _ _ h1]
  exact Nat.mod_eq_of_lt hn

theorem byteAt_at (pre post : Bytes) (x : UInt8) (off : Nat) (h1 : pre.length = off) :
    byteAt (pre ++ (x :: post)) off = x.toNat := by
  subst h1
  simp [byteAt, List.getD_eq_getElem?_getD]

/-! ### bytes inside a preserved prefix -/

theorem slice_take (b : Bytes) (n off w : Nat) (hw : off + w ≤ n) :
    slice (b.take n) off w = slice b off w := by
  unfold slice
  rw [List.drop_take, List.take_take, Nat.min_eq_left (by omega)]

theorem beAt_of_take (o b : Bytes) (n off w : Nat) (h : o.take n = b.take n) (hw : off + w ≤ n) :
    beAt o off w = beAt b off w := by
  unfold beAt
  rw [← slice_take o n off w hw, h, slice_take b n off w hw]

theorem byteAt_of_take (o b : Bytes) (n i : Nat) (h : o.take n = b.take n) (hi : i < n) :
    byteAt o i = byteAt b i := by
  rw [← C03.beAt_one, ← C03.beAt_one]
  exact beAt_of_take o b n i 1 h (by omega)

/-! ### `setTail`, `writeAt` inside the header -/

theorem setTail_eq (hdr : Nat) (b d : Bytes) (h : hdr ≤ b.length) : setTail hdr b d = b.take hdr ++ d := by
  simp [setTail, resize, h, List.take_take]

theorem writeAt_setTail (hdr off : Nat) (b d v : Bytes) (hb : hdr ≤ b.length) (hv : off + v.length = hdr) :
    writeAt (setTail hdr b d) off v = b.take off ++ (v ++ d) := by
  have hl : (b.take hdr).length = hdr := by simp [hb]
  have h1 : (b.take hdr ++ d).take off = b.take off := by
    rw [List.take_append_of_le_length (by omega), List.take_take, Nat.min_eq_left (by omega)]
  have h2 : (b.take hdr ++ d).drop (off + v.length) = d := by
    rw [hv]; exact List.drop_left' hl
  rw [setTail_eq hdr b d hb, writeAt, h1, h2, List.append_assoc]

/-! ### `create` on an accepted payload -/

theorem create_of_valid (ty : Nat) (v : Bytes → Bool) (o : Bytes) (hv : validatorOf ty = some v)
    (h : v o = true) : create ty o = ⟨ty, o⟩ := by
  simp [create, hv, h]

theorem dlcOf_le (n : Nat) : dlcOf n ≤ 15 := by
  unfold dlcOf
  repeat' split
  all_goals omega

/-! ### normal forms of the simple builders -/

theorem canSetData_eq (b d : Bytes) (hb : 16 ≤ b.length) :
    canSetData b d =
      b.take 14 ++ ([UInt8.ofNat (dlcOf (d.length % 256)), UInt8.ofNat d.length] ++ d) :=
  writeAt_setTail 16 14 b d _ hb rfl

theorem linSetData_eq (b d : Bytes) (hb : 8 ≤ b.length) :
    linSetData b d = b.take 7 ++ ([UInt8.ofNat d.length] ++ d) :=
  writeAt_setTail 8 7 b d _ hb rfl

theorem ethSetData_eq (b d : Bytes) (hb : 6 ≤ b.length) :
    ethSetData b d = b.take 4 ++ (beEnc 2 d.length ++ d) :=
  writeAt_setTail 6 4 b d _ hb (by simp)

theorem analogSetData_eq (b d : Bytes) (hb : 16 ≤ b.length) :
    analogSetData b d = b.take 16 ++ d :=
  setTail_eq 16 b d hb

theorem take_length_of_le (b : Bytes) (n : Nat) (h : n ≤ b.length) : (b.take n).length = n := by
  simp [h]

theorem resize_take (b : Bytes) (n : Nat) (h : n ≤ b.length) : (resize b n).take n = b.take n := by
  simp [resize, h, List.take_take]

/-! ### interface status -/

theorem ifSetData_eq (b ids v : Bytes) (hb : 36 ≤ b.length) :
    ifSetData b ids v =
      b.take 36 ++ (beEnc 2 ids.length ++ (ids ++ (zeros (ids.length % 2) ++ (beEnc 2 v.length ++ v)))) := by
  simp only [ifSetData, resize_take b 36 hb, List.append_assoc]

theorem if_facts (b ids v o : Bytes)
    (ho : o = b.take 36 ++ (beEnc 2 ids.length ++ (ids ++ (zeros (ids.length % 2) ++ (beEnc 2 v.length ++ v)))))
    (hb : 36 ≤ b.length) (hi : ids.length < 65536) (hv : v.length < 65536) :
    o.take 36 = b.take 36 ∧ o.length = 36 + 2 + ids.length + ids.length % 2 + 2 + v.length ∧
    beAt o 36 2 = ids.length ∧ slice o 38 ids.length = ids ∧
    slice o (38 + ids.length) (ids.length % 2) = zeros (ids.length % 2) ∧
    beAt o (38 + ids.length + ids.length % 2) 2 = v.length ∧
    slice o (38 + ids.length + ids.length % 2 + 2) v.length = v ∧
    ifAccess o = some [dataView "streamIds" 38 ids.length,
      dataView "vendorData" (38 + ids.length + ids.length % 2 + 2) v.length] ∧
    (byteAt b 29 ≤ 2 → ifValid o = true ∧ create tyIf o = ⟨tyIf, o⟩) := by
  have hP : (b.take 36).length = 36 := take_length_of_le b 36 hb
  have hZ : (zeros (ids.length % 2)).length = ids.length % 2 := by simp [zeros]
  have hlen : o.length = 36 + 2 + ids.length + ids.length % 2 + 2 + v.length := by
    rw [ho]; simp only [List.length_append, hP, hZ, beEnc_length]; omega
  have htake : o.take 36 = b.take 36 := by rw [ho]; exact List.take_left' hP
  have hc : beAt o 36 2 = ids.length := by rw [ho]; exact beAt2_at _ _ 36 _ hP (by omega)
  have hids : slice o 38 ids.length = ids := by
    rw [ho, ← List.append_assoc]
    exact slice_at _ _ _ 38 _ (by simp [hP]) rfl
  have hpad : slice o (38 + ids.length) (ids.length % 2) = zeros (ids.length % 2) := by
    have e : o = (b.take 36 ++ beEnc 2 ids.length ++ ids) ++
        (zeros (ids.length % 2) ++ (beEnc 2 v.length ++ v)) := by
      rw [ho]; simp only [List.append_assoc]
    rw [e]
    exact slice_at _ _ _ _ _ (by simp [hP]; omega) hZ
  have hvl : beAt o (38 + ids.length + ids.length % 2) 2 = v.length := by
    have e : o = (b.take 36 ++ beEnc 2 ids.length ++ ids ++ zeros (ids.length % 2)) ++
        (beEnc 2 v.length ++ v) := by
      rw [ho]; simp only [List.append_assoc]
    rw [e]
    exact beAt2_at _ _ _ _ (by simp [hP, hZ]; omega) hv
  have hvd : slice o (38 + ids.length + ids.length % 2 + 2) v.length = v := by
    have e : o = (b.take 36 ++ beEnc 2 ids.length ++ ids ++ zeros (ids.length % 2) ++ beEnc 2 v.length) ++
        (v ++ []) := by
      rw [ho]; simp only [List.append_assoc, List.append_nil]
    rw [e]
    exact slice_at _ _ _ _ _ (by simp [hP, hZ]; omega) rfl
  refine ⟨htake, hlen, hc, hids, hpad, hvl, hvd, ?_, ?_⟩
  · simp only [ifAccess, C03.rd_ok o 0 36 (by omega), C03.rd_ok o 36 2 (by omega), hc, bind,
      Option.bind, pure, ← Nat.add_assoc,
      C03.rd_ok o (38 + ids.length + ids.length % 2) 2 (by omega), hvl]
  · intro h29
    have hvalid : ifValid o = true := by
      simp only [ifValid, Bool.and_eq_true, decide_eq_true_eq, hc, ← Nat.add_assoc, hvl, hlen,
        byteAt_of_take o b 36 29 htake (by omega)]
      omega
    exact ⟨hvalid, create_of_valid _ _ _ rfl hvalid⟩

/-! ### capture-module status -/

/-- length field of a string block: text + NUL, rounded up to even -/
def cmLen (s : Bytes) : Nat := s.length + 1 + (s.length + 1) % 2

theorem cmString_eq (s : Bytes) :
    cmString s = beEnc 2 (cmLen s) ++ (s ++ zeros (cmLen s - s.length)) := by
  simp only [cmString, cmLen, List.append_assoc]

theorem cmString_length (s : Bytes) : (cmString s).length = 2 + cmLen s := by
  rw [cmString_eq]
  simp only [List.length_append, beEnc_length, zeros, List.length_replicate, cmLen]
  omega

theorem block_at (pre post : Bytes) (n pos : Nat) (hpre : pre.length = pos) (hn : n < 65536) :
    cmBlock (pre ++ (beEnc 2 n ++ post)) pos = some (pos + 2, n, pos + 2 + n) := by
  have hlen : pos + 2 ≤ (pre ++ (beEnc 2 n ++ post)).length := by
    simp only [List.length_append, beEnc_length, hpre]; omega
  simp only [cmBlock, C03.rd_ok _ pos 2 hlen, beAt2_at pre post pos n hpre hn, bind, Option.bind, pure]

theorem cm_block_at (pre s post : Bytes) (pos : Nat) (hpre : pre.length = pos) (hs : s.length + 2 < 65536) :
    cmBlock (pre ++ (cmString s ++ post)) pos = some (pos + 2, cmLen s, pos + 2 + cmLen s) := by
  rw [cmString_eq, List.append_assoc]
  exact block_at pre _ (cmLen s) pos hpre (by unfold cmLen; omega)

theorem takeWhile_text (s : Bytes) (k : Nat) (h0 : (0 : UInt8) ∉ s) :
    (s ++ zeros k).takeWhile (· != 0) = s := by
  rw [List.takeWhile_append_of_pos]
  · simp [zeros]
  · intro a ha
    have : a ≠ 0 := fun h => h0 (h ▸ ha)
    simpa using this

theorem cm_trim_at (pre s post : Bytes) (pos : Nat) (hpre : pre.length = pos) (h0 : (0 : UInt8) ∉ s) :
    trimNul (pre ++ (cmString s ++ post)) (pos + 2) (cmLen s) = some s.length := by
  have hlen : pos + 2 + cmLen s ≤ (pre ++ (cmString s ++ post)).length := by
    simp only [List.length_append, cmString_length, hpre]; omega
  have hk : (s ++ zeros (cmLen s - s.length)).length = cmLen s := by
    simp only [List.length_append, zeros, List.length_replicate, cmLen]; omega
  have hsl : slice (pre ++ (cmString s ++ post)) (pos + 2) (cmLen s) = s ++ zeros (cmLen s - s.length) := by
    have e : pre ++ (cmString s ++ post) =
        (pre ++ beEnc 2 (cmLen s)) ++ ((s ++ zeros (cmLen s - s.length)) ++ post) := by
      rw [cmString_eq]; simp only [List.append_assoc]
    rw [e]
    exact slice_at _ _ _ _ _ (by simp [hpre]) hk
  simp only [trimNul, hlen, if_true, hsl, takeWhile_text s _ h0]

theorem cm_slice_at (pre s post : Bytes) (pos : Nat) (hpre : pre.length = pos) :
    slice (pre ++ (cmString s ++ post)) (pos + 2) s.length = s := by
  have e : pre ++ (cmString s ++ post) =
      (pre ++ beEnc 2 (cmLen s)) ++ (s ++ (zeros (cmLen s - s.length) ++ post)) := by
    rw [cmString_eq]; simp only [List.append_assoc]
  rw [e]
  exact slice_at _ _ _ _ _ (by simp [hpre]) rfl

theorem blocksOk_cons (k n : Nat) (body rest : Bytes) (hb : body.length = n) (hn : n < 65536) :
    blocksOk (k + 1) (beEnc 2 n ++ (body ++ rest)) = blocksOk k rest := by
  have h1 : (beEnc 2 n ++ (body ++ rest)).take 2 = beEnc 2 n := List.take_left' (beEnc_length 2 n)
  have h2 : (beEnc 2 n ++ (body ++ rest)).drop 2 = body ++ rest := List.drop_left' (beEnc_length 2 n)
  have h3 : beDec (beEnc 2 n) = n := by rw [beDec_beEnc]; exact Nat.mod_eq_of_lt hn
  have h4 : (body ++ rest).drop n = rest := List.drop_left' hb
  simp only [blocksOk, h1, h2, h3, h4, List.length_append, beEnc_length, hb]
  rw [if_neg (by omega), if_neg (by omega)]

theorem cm_blocksOk (k : Nat) (s rest : Bytes) (hs : s.length + 2 < 65536) :
    blocksOk (k + 1) (cmString s ++ rest) = blocksOk k rest := by
  rw [cmString_eq, List.append_assoc]
  exact blocksOk_cons k _ _ rest
    (by simp only [List.length_append, zeros, List.length_replicate, cmLen]; omega)
    (by unfold cmLen; omega)

theorem cmSetData_eq (b s1 s2 s3 s4 v : Bytes) (hb : 26 ≤ b.length) :
    cmSetData b s1 s2 s3 s4 v =
      b.take 26 ++ (cmString s1 ++ (cmString s2 ++ (cmString s3 ++ (cmString s4 ++ (beEnc 2 v.length ++ v))))) := by
  simp only [cmSetData, resize_take b 26 hb, List.append_assoc]

theorem cm_facts (b s1 s2 s3 s4 v o : Bytes)
    (ho : o = b.take 26 ++ (cmString s1 ++ (cmString s2 ++ (cmString s3 ++ (cmString s4 ++
      (beEnc 2 v.length ++ v))))))
    (hb : 26 ≤ b.length)
    (h1 : s1.length + 2 < 65536) (h2 : s2.length + 2 < 65536) (h3 : s3.length + 2 < 65536)
    (h4 : s4.length + 2 < 65536) (hv : v.length < 65536)
    (n1 : (0 : UInt8) ∉ s1) (n2 : (0 : UInt8) ∉ s2) (n3 : (0 : UInt8) ∉ s3) (n4 : (0 : UInt8) ∉ s4) :
    o.take 26 = b.take 26 ∧ cmValid o = true ∧ create tyCm o = ⟨tyCm, o⟩ ∧
    ∃ o1 o2 o3 o4 o5,
      cmAccess o = some [⟨"deviceDescription", some o1, s1.length⟩, ⟨"serialNumber", some o2, s2.length⟩,
                         ⟨"hardwareVersion", some o3, s3.length⟩, ⟨"softwareVersion", some o4, s4.length⟩,
                         ⟨"vendorData", some o5, v.length⟩] ∧
      slice o o1 s1.length = s1 ∧ slice o o2 s2.length = s2 ∧ slice o o3 s3.length = s3 ∧
      slice o o4 s4.length = s4 ∧ slice o o5 v.length = v := by
  have hP : (b.take 26).length = 26 := take_length_of_le b 26 hb
  have hlen : o.length = 26 + (2 + cmLen s1) + (2 + cmLen s2) + (2 + cmLen s3) + (2 + cmLen s4) + 2 + v.length := by
    rw [ho]; simp only [List.length_append, hP, cmString_length, beEnc_length]; omega
  -- the five ways of bracketing `o`
  have ho2 : o = (b.take 26 ++ cmString s1) ++ (cmString s2 ++ (cmString s3 ++ (cmString s4 ++
      (beEnc 2 v.length ++ v)))) := by rw [ho]; simp only [List.append_assoc]
  have ho3 : o = (b.take 26 ++ cmString s1 ++ cmString s2) ++ (cmString s3 ++ (cmString s4 ++
      (beEnc 2 v.length ++ v))) := by rw [ho]; simp only [List.append_assoc]
  have ho4 : o = (b.take 26 ++ cmString s1 ++ cmString s2 ++ cmString s3) ++ (cmString s4 ++
      (beEnc 2 v.length ++ v)) := by rw [ho]; simp only [List.append_assoc]
  have ho5 : o = (b.take 26 ++ cmString s1 ++ cmString s2 ++ cmString s3 ++ cmString s4) ++
      (beEnc 2 v.length ++ (v ++ [])) := by rw [ho]; simp only [List.append_assoc, List.append_nil]
  have hP2 : (b.take 26 ++ cmString s1).length = 26 + 2 + cmLen s1 := by
    simp only [List.length_append, hP, cmString_length]; omega
  have hP3 : (b.take 26 ++ cmString s1 ++ cmString s2).length = 26 + 2 + cmLen s1 + 2 + cmLen s2 := by
    simp only [List.length_append, hP, cmString_length]; omega
  have hP4 : (b.take 26 ++ cmString s1 ++ cmString s2 ++ cmString s3).length =
      26 + 2 + cmLen s1 + 2 + cmLen s2 + 2 + cmLen s3 := by
    simp only [List.length_append, hP, cmString_length]; omega
  have hP5 : (b.take 26 ++ cmString s1 ++ cmString s2 ++ cmString s3 ++ cmString s4).length =
      26 + 2 + cmLen s1 + 2 + cmLen s2 + 2 + cmLen s3 + 2 + cmLen s4 := by
    simp only [List.length_append, hP, cmString_length]; omega
  -- block reads
  have e1 : cmBlock o 26 = some (26 + 2, cmLen s1, 26 + 2 + cmLen s1) := by
    rw [ho]; exact cm_block_at _ _ _ 26 hP h1
  have t1 : trimNul o (26 + 2) (cmLen s1) = some s1.length := by
    rw [ho]; exact cm_trim_at _ _ _ 26 hP n1
  have c1 : slice o (26 + 2) s1.length = s1 := by
    rw [ho]; exact cm_slice_at _ _ _ 26 hP
  have e2 : cmBlock o (26 + 2 + cmLen s1) =
      some (26 + 2 + cmLen s1 + 2, cmLen s2, 26 + 2 + cmLen s1 + 2 + cmLen s2) := by
    rw [ho2]; exact cm_block_at _ _ _ _ hP2 h2
  have t2 : trimNul o (26 + 2 + cmLen s1 + 2) (cmLen s2) = some s2.length := by
    rw [ho2]; exact cm_trim_at _ _ _ _ hP2 n2
  have c2 : slice o (26 + 2 + cmLen s1 + 2) s2.length = s2 := by
    rw [ho2]; exact cm_slice_at _ _ _ _ hP2
  have e3 : cmBlock o (26 + 2 + cmLen s1 + 2 + cmLen s2) =
      some (26 + 2 + cmLen s1 + 2 + cmLen s2 + 2, cmLen s3, 26 + 2 + cmLen s1 + 2 + cmLen s2 + 2 + cmLen s3) := by
    rw [ho3]; exact cm_block_at _ _ _ _ hP3 h3
  have t3 : trimNul o (26 + 2 + cmLen s1 + 2 + cmLen s2 + 2) (cmLen s3) = some s3.length := by
    rw [ho3]; exact cm_trim_at _ _ _ _ hP3 n3
  have c3 : slice o (26 + 2 + cmLen s1 + 2 + cmLen s2 + 2) s3.length = s3 := by
    rw [ho3]; exact cm_slice_at _ _ _ _ hP3
  have e4 : cmBlock o (26 + 2 + cmLen s1 + 2 + cmLen s2 + 2 + cmLen s3) =
      some (26 + 2 + cmLen s1 + 2 + cmLen s2 + 2 + cmLen s3 + 2, cmLen s4,
        26 + 2 + cmLen s1 + 2 + cmLen s2 + 2 + cmLen s3 + 2 + cmLen s4) := by
    rw [ho4]; exact cm_block_at _ _ _ _ hP4 h4
  have t4 : trimNul o (26 + 2 + cmLen s1 + 2 + cmLen s2 + 2 + cmLen s3 + 2) (cmLen s4) = some s4.length := by
    rw [ho4]; exact cm_trim_at _ _ _ _ hP4 n4
  have c4 : slice o (26 + 2 + cmLen s1 + 2 + cmLen s2 + 2 + cmLen s3 + 2) s4.length = s4 := by
    rw [ho4]; exact cm_slice_at _ _ _ _ hP4
  have e5 : cmBlock o (26 + 2 + cmLen s1 + 2 + cmLen s2 + 2 + cmLen s3 + 2 + cmLen s4) =
      some (26 + 2 + cmLen s1 + 2 + cmLen s2 + 2 + cmLen s3 + 2 + cmLen s4 + 2, v.length,
        26 + 2 + cmLen s1 + 2 + cmLen s2 + 2 + cmLen s3 + 2 + cmLen s4 + 2 + v.length) := by
    rw [ho5]; exact block_at _ _ _ _ hP5 hv
  have c5 : slice o (26 + 2 + cmLen s1 + 2 + cmLen s2 + 2 + cmLen s3 + 2 + cmLen s4 + 2) v.length = v := by
    have e : o = (b.take 26 ++ cmString s1 ++ cmString s2 ++ cmString s3 ++ cmString s4 ++ beEnc 2 v.length) ++
        (v ++ []) := by rw [ho]; simp only [List.append_assoc, List.append_nil]
    rw [e]
    exact slice_at _ _ _ _ _ (by simp only [List.length_append, hP5, beEnc_length]) rfl
  have hvalid : cmValid o = true := by
    have hdrop : o.drop 26 = cmString s1 ++ (cmString s2 ++ (cmString s3 ++ (cmString s4 ++
        (beEnc 2 v.length ++ (v ++ []))))) := by
      rw [ho, List.append_nil]; exact List.drop_left' hP
    have hbl : blocksOk 5 (o.drop 26) = true := by
      rw [hdrop, cm_blocksOk 4 _ _ h1, cm_blocksOk 3 _ _ h2, cm_blocksOk 2 _ _ h3, cm_blocksOk 1 _ _ h4,
        blocksOk_cons 0 _ v [] rfl hv]
      rfl
    simp only [cmValid, hbl, Bool.and_true, decide_eq_true_eq]
    omega
  refine ⟨by rw [ho]; exact List.take_left' hP, hvalid, create_of_valid _ _ _ rfl hvalid,
    _, _, _, _, _, ?_, c1, c2, c3, c4, c5⟩
  simp only [cmAccess, C03.rd_ok o 0 26 (by omega), bind, Option.bind, pure, e1, t1, e2, t2, e3, t3,
    e4, t4, e5]

end AsamCmp.C13
