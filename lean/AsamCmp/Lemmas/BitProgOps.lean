/-
  The symbolic word operations of `symStep` (Src/BitProg.lean) compute what the concrete operations of `step` compute.
-/
import AsamCmp.Lemmas.BitProgBits
namespace AsamCmp.Src.Bit
open AsamCmp AsamCmp.Src

/-! ### `mapOpt` -/

theorem mapOpt_getElem? {α β : Type} (g : α → Option β) {l : List α} {r : List β} (h : mapOpt g l = some r) (j : Nat) :
    r[j]? = l[j]?.bind g := by
  induction l generalizing r j with
  | nil =>
    simp only [mapOpt, Option.some.injEq] at h
    subst h
    simp
  | cons x xs ih =>
    unfold mapOpt at h
    split at h
    · next y ys hy hys =>
      simp only [Option.some.injEq] at h
      subst h
      cases j with
      | zero => simp [hy]
      | succ j => simpa using ih hys j
    · cases h

theorem mapOpt_length {α β : Type} (g : α → Option β) {l : List α} {r : List β} (h : mapOpt g l = some r) :
    r.length = l.length := by
  induction l generalizing r with
  | nil =>
    simp only [mapOpt, Option.some.injEq] at h
    subst h
    rfl
  | cons x xs ih =>
    unfold mapOpt at h
    split at h
    · next y ys hy hys =>
      simp only [Option.some.injEq] at h
      subst h
      simp [ih hys]
    · cases h

section
variable (obj : Bytes) (args : List Nat)

/-! ### bitwise binary operations -/

theorem SBit.and_eval {x y z : SBit} (h : SBit.and x y = some z) :
    z.eval obj args = (x.eval obj args && y.eval obj args) := by
  cases x <;> cases y <;> simp only [SBit.and, Option.some.injEq] at h <;>
    first
      | (subst h; simp [SBit.eval])
      | (split at h
         · next e => simp only [Option.some.injEq] at h; subst h; rw [← e]; simp
         · cases h)

theorem SBit.or_eval {x y z : SBit} (h : SBit.or x y = some z) :
    z.eval obj args = (x.eval obj args || y.eval obj args) := by
  cases x <;> cases y <;> simp only [SBit.or, Option.some.injEq] at h <;>
    first
      | (subst h; simp [SBit.eval])
      | (split at h
         · next e => simp only [Option.some.injEq] at h; subst h; rw [← e]; simp
         · cases h)

theorem SBit.xor_eval {x y z : SBit} (h : SBit.xor x y = some z) :
    z.eval obj args = (x.eval obj args ^^ y.eval obj args) := by
  cases x <;> cases y <;> simp only [SBit.xor, Option.some.injEq] at h <;>
    first
      | (subst h; simp [SBit.eval])
      | cases h
      | (split at h
         · next e => simp only [Option.some.injEq] at h; subst h; rw [← e]; simp [SBit.eval]
         · cases h)

theorem SBit.not_eval {x z : SBit} (h : SBit.not x = some z) : z.eval obj args = !x.eval obj args := by
  cases x <;> simp only [SBit.not, Option.some.injEq] at h <;>
    first
      | (subst h; simp [SBit.eval])
      | cases h

theorem zipBits_bit {f : SBit → SBit → Option SBit} {g : Bool → Bool → Bool}
    (hf : ∀ x y z, f x y = some z → z.eval obj args = g (x.eval obj args) (y.eval obj args))
    (hg : g false false = false) {a b r : SWord} (h : zipBits f a b = some r) (j : Nat) :
    (bit r j).eval obj args = g ((bit a j).eval obj args) ((bit b j).eval obj args) := by
  unfold zipBits at h
  simp only at h
  have hl := mapOpt_length _ h
  have hj := mapOpt_getElem? _ h j
  simp only [List.length_zip, fit_length, Nat.min_self] at hl
  by_cases hlt : j < max a.length b.length
  · have h1 : ((fit (max a.length b.length) a).zip (fit (max a.length b.length) b))[j]? =
        some (bit (fit (max a.length b.length) a) j, bit (fit (max a.length b.length) b) j) := by
      rw [List.getElem?_eq_getElem (by simp; omega), List.getElem_zip,
        bit_eq_getElem _ _ (by simp; omega), bit_eq_getElem _ _ (by simp; omega)]
    rw [h1, List.getElem?_eq_getElem (by omega)] at hj
    simp only [Option.bind_some] at hj
    rw [bit_fit, bit_fit, if_pos hlt, if_pos hlt] at hj
    rw [bit_eq_getElem r j (by omega)]
    exact hf _ _ _ hj.symm
  · rw [bit_of_le r j (by omega), bit_of_le a j (by omega), bit_of_le b j (by omega)]
    simp [hg]

theorem zipBits_and {a b r : SWord} (h : zipBits SBit.and a b = some r) :
    SWord.eval obj args a &&& SWord.eval obj args b = SWord.eval obj args r := by
  apply eq_eval
  intro j
  rw [Nat.testBit_and, testBit_eval, testBit_eval,
    zipBits_bit obj args (g := (· && ·)) (fun _ _ _ => SBit.and_eval obj args) rfl h j]

theorem zipBits_or {a b r : SWord} (h : zipBits SBit.or a b = some r) :
    SWord.eval obj args a ||| SWord.eval obj args b = SWord.eval obj args r := by
  apply eq_eval
  intro j
  rw [Nat.testBit_or, testBit_eval, testBit_eval,
    zipBits_bit obj args (g := (· || ·)) (fun _ _ _ => SBit.or_eval obj args) rfl h j]

theorem zipBits_xor {a b r : SWord} (h : zipBits SBit.xor a b = some r) :
    SWord.eval obj args a ^^^ SWord.eval obj args b = SWord.eval obj args r := by
  apply eq_eval
  intro j
  rw [Nat.testBit_xor, testBit_eval, testBit_eval,
    zipBits_bit obj args (g := (· ^^ ·)) (fun _ _ _ => SBit.xor_eval obj args) rfl h j]

/-! ### complement -/

theorem bnot_sound {n : Nat} {w r : SWord} (h : mapOpt SBit.not (fit n w) = some r)
    (hz : allZero (w.drop n) = true) : bnot n (SWord.eval obj args w) = SWord.eval obj args r := by
  have hlt := allZero_drop_lt obj args hz
  have hl := mapOpt_length _ h
  rw [fit_length] at hl
  apply eq_eval
  intro j
  unfold bnot
  have e : 2 ^ n - 1 - SWord.eval obj args w = 2 ^ n - (SWord.eval obj args w + 1) := by omega
  rw [e, Nat.testBit_two_pow_sub_succ hlt, testBit_eval]
  by_cases hj : j < n
  · have hj' := mapOpt_getElem? _ h j
    rw [List.getElem?_eq_getElem (by omega), List.getElem?_eq_getElem (by simp; omega)] at hj'
    simp only [Option.bind_some] at hj'
    rw [← bit_eq_getElem r j (by omega), ← bit_eq_getElem _ j (by simp; omega), bit_fit, if_pos hj] at hj'
    rw [SBit.not_eval obj args hj'.symm]
    simp [hj]
  · rw [bit_of_le r j (by omega)]
    simp [hj]

/-! ### sign extension and shifts -/

theorem sext_sound {fb tb : Nat} {w : SWord} (hz : allZero (w.drop (fb - 1)) = true) :
    sext fb tb (SWord.eval obj args w) = SWord.eval obj args w := by
  unfold sext
  rw [if_pos (allZero_drop_lt obj args hz)]

theorem ushl_sound {bits n : Nat} (w : SWord) (h : n < bits) :
    ushl bits (SWord.eval obj args w) n =
      some (SWord.eval obj args ((List.replicate n SBit.zero ++ w).take bits)) := by
  unfold ushl
  rw [if_pos h, eval_take, eval_shl]

theorem pow_split {a n : Nat} (h : n ≤ a) : 2 ^ (a - n) * 2 ^ n = 2 ^ a := by
  rw [← Nat.pow_add]
  congr 1
  omega

theorem sshl_sound {bits n : Nat} (w : SWord) (h : n < bits) (hz : allZero (w.drop (bits - 1 - n)) = true) :
    sshl bits (SWord.eval obj args w) n = some (SWord.eval obj args (List.replicate n SBit.zero ++ w)) := by
  have hlt := allZero_drop_lt obj args hz
  unfold sshl
  have h1 : SWord.eval obj args w < 2 ^ (bits - 1) :=
    Nat.lt_of_lt_of_le hlt (Nat.pow_le_pow_right (by decide) (by omega))
  have h2 : SWord.eval obj args w <<< n < 2 ^ (bits - 1) := by
    rw [Nat.shiftLeft_eq, ← pow_split (a := bits - 1) (n := n) (by omega)]
    exact Nat.mul_lt_mul_of_pos_right hlt (Nat.two_pow_pos n)
  rw [if_pos ⟨h, h1, h2⟩, eval_shl]

theorem ushr_sound {bits n : Nat} (w : SWord) (h : n < bits) :
    ushr bits (SWord.eval obj args w) n = some (SWord.eval obj args (w.drop n)) := by
  unfold ushr
  rw [if_pos h, eval_drop]

theorem sshr_sound {bits n : Nat} (w : SWord) (h : n < bits) (hz : allZero (w.drop (bits - 1)) = true) :
    sshr bits (SWord.eval obj args w) n = some (SWord.eval obj args (w.drop n)) := by
  unfold sshr
  rw [if_pos ⟨h, allZero_drop_lt obj args hz⟩, eval_drop]

end

end AsamCmp.Src.Bit
