/-
  Byte-level lemmas: the tiler run on the serialised bytes of a structured frame finds the
  frame's shape (used by `tile_bytes` / `frame_length` in Props/C07).
-/
import AsamCmp.Tile
namespace AsamCmp

/-! ### slices of concatenations -/

theorem slice_mid (pre v post : Bytes) (off w : Nat) (h1 : pre.length = off) (h2 : v.length = w) :
    slice (pre ++ v ++ post) off w = v := by
  unfold slice
  rw [List.append_assoc, List.drop_left' h1, List.take_left' h2]

theorem byteAt_mid (pre post : Bytes) (x : UInt8) (i : Nat) (h : pre.length = i) :
    byteAt (pre ++ x :: post) i = x.toNat := by
  unfold byteAt
  rw [List.getD_eq_getElem?_getD, List.getElem?_append_right (by omega)]
  simp [h]

theorem beDec_zero (bs : Bytes) (h : ∀ b ∈ bs, b = 0) : beDec bs = 0 := by
  induction bs using snocInd with
  | hnil => rfl
  | hsnoc xs b ih =>
    rw [beDec_append_singleton, ih (fun x hx => h x (by simp [hx])), h b (by simp)]
    rfl

theorem beAt_of_allZero (r : Bytes) (off w : Nat) (h : allZero r = true) : beAt r off w = 0 := by
  unfold beAt slice
  apply beDec_zero
  intro b hb
  have hb' : b ∈ r := List.mem_of_mem_drop (List.mem_of_mem_take hb)
  have := (List.all_eq_true.mp h) b hb'
  simpa using this

theorem allZero_zeros (k : Nat) : allZero (zeros k) = true := by
  simp [allZero, zeros]

@[simp] theorem zeros_length (k : Nat) : (zeros k).length = k := by simp [zeros]

/-! ### the message header -/

/-- the 12 bytes in front of the flags byte -/
def hdrPre (p : Packet) : Bytes :=
  beEnc 8 p.ts ++
  (if p.mt = 1 then beEnc 4 p.ifId
   else if p.mt = 3 ∨ p.mt = 0xFF then [0, 0] ++ beEnc 2 p.vendorId
   else [0, 0, 0, 0])

theorem hdrPre_length (p : Packet) : (hdrPre p).length = 12 := by
  unfold hdrPre
  split
  · simp
  · split <;> simp

theorem msgHeader_eq (p : Packet) (seg len : Nat) :
    msgHeader p seg len =
      hdrPre p ++ UInt8.ofNat ((p.flags % 256 &&& 0xF3) ||| seg) :: (UInt8.ofNat p.rawType :: beEnc 2 len) := by
  simp [msgHeader, hdrPre]

@[simp] theorem msgHeader_length (p : Packet) (seg len : Nat) : (msgHeader p seg len).length = 16 := by
  rw [msgHeader_eq]
  simp [hdrPre_length]

theorem msgHeader_eq' (p : Packet) (seg len : Nat) :
    msgHeader p seg len =
      (hdrPre p ++ [UInt8.ofNat ((p.flags % 256 &&& 0xF3) ||| seg), UInt8.ofNat p.rawType]) ++ beEnc 2 len := by
  simp [msgHeader_eq]

set_option maxRecDepth 10000 in
theorem flagbits : ∀ x, x < 256 → ∀ s, s < 4 → ((x &&& 0xF3) ||| (4*s)) % 256 &&& 0x0C = 4*s := by
  decide

theorem flagbits' (x seg : Nat) (hs : seg = 0 ∨ seg = 4 ∨ seg = 8 ∨ seg = 12) :
    (UInt8.ofNat ((x % 256 &&& 0xF3) ||| seg)).toNat &&& 0x0C = seg := by
  have hx : x % 256 < 256 := Nat.mod_lt _ (by decide)
  have h : (UInt8.ofNat ((x % 256 &&& 0xF3) ||| seg)).toNat = ((x % 256 &&& 0xF3) ||| seg) % 256 :=
    UInt8.toNat_ofNat'
  rw [h]
  rcases hs with h | h | h | h <;> subst h
  · exact flagbits _ hx 0 (by decide)
  · exact flagbits _ hx 1 (by decide)
  · exact flagbits _ hx 2 (by decide)
  · exact flagbits _ hx 3 (by decide)

/-- the three fields the tiler reads from a serialised message followed by anything -/
theorem msg_fields (m : EMsg) (rest : Bytes) (hlen : m.body.length < 65536)
    (hs : m.seg = 0 ∨ m.seg = 4 ∨ m.seg = 8 ∨ m.seg = 12) :
    beAt (m.bytes ++ rest) 14 2 = m.body.length ∧
    byteAt (m.bytes ++ rest) 12 &&& 0x0C = m.seg ∧
    slice (m.bytes ++ rest) 16 m.body.length = m.body ∧
    (m.bytes ++ rest).drop (16 + m.body.length) = rest ∧
    (m.bytes ++ rest).length = 16 + m.body.length + rest.length := by
  refine ⟨?_, ?_, ?_, ?_, ?_⟩
  · have e : m.bytes ++ rest =
        (hdrPre m.pkt ++ [UInt8.ofNat ((m.pkt.flags % 256 &&& 0xF3) ||| m.seg), UInt8.ofNat m.pkt.rawType]) ++
          beEnc 2 m.body.length ++ (m.body ++ rest) := by
      simp [EMsg.bytes, msgHeader_eq]
    unfold beAt
    rw [e, slice_mid _ _ _ 14 2 (by simp [hdrPre_length]) (by simp), beDec_beEnc]
    exact Nat.mod_eq_of_lt hlen
  · unfold EMsg.bytes
    rw [msgHeader_eq, List.append_assoc, List.append_assoc]
    rw [List.cons_append, byteAt_mid _ _ _ 12 (hdrPre_length _)]
    exact flagbits' _ _ hs
  · unfold EMsg.bytes
    exact slice_mid _ _ _ _ _ (by simp) rfl
  · unfold EMsg.bytes
    rw [List.drop_left' (by simp)]
  · simp [EMsg.bytes]; omega

/-- the tiler on serialised messages followed by `k` zero bytes -/
theorem tileMsgs_bytes (msgs : List EMsg) (k : Nat)
    (hmsgs : ∀ m ∈ msgs, 1 ≤ m.body.length ∧ m.body.length < 65536 ∧
      (m.seg = 0 ∨ m.seg = 4 ∨ m.seg = 8 ∨ m.seg = 12)) :
    ∀ fuel, msgs.length < fuel →
      tileMsgs fuel (msgs.flatMap EMsg.bytes ++ zeros k) =
        some (msgs.map (fun m => ⟨m.seg, m.body⟩), k) := by
  induction msgs with
  | nil =>
    intro fuel hf
    cases fuel with
    | zero => omega
    | succ fuel => simp [tileMsgs, allZero_zeros]
  | cons m ms ih =>
    intro fuel hf
    cases fuel with
    | zero => omega
    | succ fuel =>
      have hm := hmsgs m (by simp)
      obtain ⟨h1, h2, h3, h4, h5⟩ := msg_fields m (ms.flatMap EMsg.bytes ++ zeros k) hm.2.1 hm.2.2
      have ih' := ih (fun x hx => hmsgs x (by simp [hx])) fuel (by simp at hf; omega)
      simp only [List.flatMap_cons, List.append_assoc]
      generalize hr : m.bytes ++ (ms.flatMap EMsg.bytes ++ zeros k) = r at *
      unfold tileMsgs
      have hz : allZero r = false := by
        cases hz : allZero r with
        | false => rfl
        | true =>
          have := beAt_of_allZero r 14 2 hz
          omega
      simp only [hz, Bool.false_eq_true, if_false, h1]
      rw [if_neg (by omega), if_neg (by omega), h4, ih', h2, h3]
      simp

theorem frameHeader_length (ver dev mt stream seq : Nat) :
    (frameHeader ver dev mt stream seq).length = 8 := by
  simp [frameHeader]

theorem frameHeader_mt (ver dev mt stream seq : Nat) (rest : Bytes) :
    byteAt (frameHeader ver dev mt stream seq ++ rest) 4 = mt % 256 := by
  have : frameHeader ver dev mt stream seq ++ rest =
      ([UInt8.ofNat ver, 0] ++ beEnc 2 dev) ++ UInt8.ofNat mt :: (UInt8.ofNat stream :: beEnc 2 seq ++ rest) := by
    simp [frameHeader]
  rw [this, byteAt_mid _ _ _ 4 (by simp)]
  simp

theorem flatMap_bytes_length (msgs : List EMsg) :
    (msgs.flatMap EMsg.bytes).length = (msgs.map EMsg.size).sum := by
  induction msgs with
  | nil => rfl
  | cons m ms ih => simp [EMsg.bytes, EMsg.size, ih]; omega

theorem shape_used (min : Nat) (f : EFrame) : (EFrame.shape min f).used = f.used := by
  simp only [EFrame.shape, SFrame.used, EFrame.used, List.map_map]
  rfl

end AsamCmp

