/-
  Helper definitions and lemmas for `AsamCmp/Props/C16S.lean` §4 (source level).

  * `Obs img`: a packet image `img : Packet → OPkt` keeps the three values the translated tracker reads; the theorems of
    Props/SrcStatus.lean (stated there for the 3-entry table `SrcSt.oPkt`) re-proved for EVERY such image (`*_img`);
  * `fullImg`: an injective image (every member, every payload byte), `fullImg_injective`, `stSt_fullImg_injective`;
  * `Small n s`: all vectors of the model state have at most `n` elements; one operation adds at most one (`small_step`).
-/
import AsamCmp.Props.SrcStatus
import AsamCmp.Lemmas.Status
set_option linter.unusedSimpArgs false
set_option linter.unusedVariables false
namespace AsamCmp.C16S
open AsamCmp AsamCmp.C16 AsamCmp.Src AsamCmp.SrcGen AsamCmp.SrcSt

/-- `img` keeps the three values the tracker reads from a packet -/
structure Obs (img : Packet → OPkt) : Prop where
  dev : ∀ p, opq (img p) "getDeviceId" = p.deviceId
  ty : ∀ p, opq (img p) "getPayload.getType" = p.pty
  ifid : ∀ p, opq (img p) "getPayload.as_InterfacePayload.getInterfaceId" = p.payloadIfId

theorem obs_oPkt : Obs oPkt := ⟨opq_dev, opq_ty, opq_if⟩

variable {img : Packet → OPkt}

theorem devSt_ifs' (d : DevSt) : (devSt img d).f_interfaces = d.ifs.map (ifSt img) := rfl
theorem devSt_pkt' (d : DevSt) : (devSt img d).f_devicePacket = img d.pkt := rfl
theorem stSt_devs' (s : StatusSt) : (stSt img s).f_devices = s.map (devSt img) := rfl
theorem ifSt_id' (i : IfSt) : (ifSt img i).f_interfaceId = i.id := rfl

macro "si_norm" H:ident " [" ls:Lean.Parser.Tactic.simpLemma,* "]" : tactic =>
  `(tactic| simp only [devSt_ifs', devSt_pkt', stSt_devs', ifSt_id', Obs.dev $H, Obs.ty $H, Obs.ifid $H, bind, pure,
      SrcSt.some_bind, findIdxD_map,
      List.length_map, beq_iff_eq, bne_iff_ne, ne_eq, decide_eq_true_eq, if_true, if_false, ite_true, ite_false,
      Bool.false_eq_true, not_true_eq_false, not_false_eq_true, $ls,*])

theorem indexOfIf_img (H : Obs img) (d : DevSt) (iid : Nat) :
    DeviceStatus_getIndexByInterfaceId_obj (devSt img d) iid = some (devSt img d, d.indexOfIf iid) := by
  unfold DeviceStatus_getIndexByInterfaceId_obj DevSt.indexOfIf
  si_norm H []

theorem indexOfDev_img (H : Obs img) (s : StatusSt) (id : Nat) :
    Status_getIndexByDeviceId_obj (stSt img s) id = some (stSt img s, indexOfDev s id) := by
  unfold Status_getIndexByDeviceId_obj indexOfDev
  si_norm H []

theorem ifCount_img (H : Obs img) (d : DevSt) :
    DeviceStatus_getInterfaceStatusCount_obj (devSt img d) = some (devSt img d, d.ifs.length) := by
  unfold DeviceStatus_getInterfaceStatusCount_obj
  si_norm H []

theorem devCount_img (H : Obs img) (s : StatusSt) :
    Status_getDeviceStatusCount_obj (stSt img s) = some (stSt img s, s.length) := by
  unfold Status_getDeviceStatusCount_obj
  si_norm H []

theorem ifUpdate_img (H : Obs img) (i : InterfaceStatus_St) (p : Packet) :
    InterfaceStatus_update_obj i (img p) = some (ifSt img ⟨p.payloadIfId, p⟩, ()) := by
  unfold InterfaceStatus_update_obj
  si_norm H []
  rfl

theorem updateIfs_img (H : Obs img) (d : DevSt) (p : Packet) :
    DeviceStatus_updateInterfaces_obj (devSt img d) (img p) = some (devSt img (d.updateIfs p), ()) := by
  have hle := SrcSt.findIdx_le (fun i : IfSt => i.id == p.payloadIfId) d.ifs
  unfold DeviceStatus_updateInterfaces_obj DevSt.updateIfs
  si_norm H [indexOfIf_img H, ifCount_img H]
  by_cases h : d.indexOfIf p.payloadIfId = d.ifs.length
  · si_norm H [h, ifUpdate_img H]
    simp only [devSt, List.map_append, List.map_cons, List.map_nil]
  · have hlt : d.indexOfIf p.payloadIfId < d.ifs.length := by unfold DevSt.indexOfIf at h ⊢; omega
    si_norm H [h, getIdx_map _ _ _ hlt, ifUpdate_img H, set_map_eq]
    rfl

theorem devUpdate_img (H : Obs img) (d : DevSt) (p : Packet) :
    DeviceStatus_update_obj (devSt img d) (img p) = some (devSt img (d.update p), ()) := by
  unfold DeviceStatus_update_obj DevSt.update tyIf tyCm
  si_norm H []
  by_cases h1 : p.pty = 770 <;> by_cases h2 : p.pty = 769
  · omega
  · si_norm H [h1, h2, updateIfs_img H, Nat.reduceEqDiff]
  · si_norm H [h1, h2, Nat.reduceEqDiff]
    rfl
  · si_norm H [h1, h2]

theorem defaultDev_img (H : Obs img) (p : Packet) (h : p.pty = 769) :
    DeviceStatus_update_obj DeviceStatus_default (img p) =
      some (devSt img (({ pkt := Packet.mk none 1 0 0 0 0 0 0 0 0, ifs := [] } : DevSt).update p), ()) := by
  unfold DeviceStatus_update_obj DevSt.update DeviceStatus_default tyIf tyCm
  si_norm H [h, Nat.reduceEqDiff]
  rfl

theorem update_img (H : Obs img) (s : StatusSt) (p : Packet) :
    Status_update_obj (stSt img s) (img p) = some (stSt img (statusUpdate s p), ()) := by
  have hle := SrcSt.findIdx_le (fun d : DevSt => d.pkt.deviceId == p.deviceId) s
  unfold Status_update_obj statusUpdate tyCm
  si_norm H [indexOfDev_img H, devCount_img H]
  by_cases h : indexOfDev s p.deviceId < s.length
  · si_norm H [h, getIdx_map _ _ _ h, devUpdate_img H, set_map_eq, modify_eq_set_getElem _ _ _ h]
    rfl
  · by_cases h2 : p.pty = 769
    · si_norm H [h, h2, defaultDev_img H p h2]
      simp only [stSt, List.map_append, List.map_cons, List.map_nil]
    · si_norm H [h, h2]

theorem removeDev_img (H : Obs img) (s : StatusSt) (id : Nat) (h64 : s.length < 2 ^ 64) :
    Status_removeDeviceById_obj (stSt img s) id = some (stSt img (statusRemoveDev s id), ()) := by
  have hle := SrcSt.findIdx_le (fun d : DevSt => d.pkt.deviceId == id) s
  unfold Status_removeDeviceById_obj statusRemoveDev
  si_norm H [indexOfDev_img H, devCount_img H]
  by_cases h : indexOfDev s id = s.length
  · si_norm H [h]
  · have hlt : indexOfDev s id < s.length := by unfold indexOfDev at h ⊢; omega
    obtain ⟨t, e1, e2, e3⟩ := swapPop_map (devSt img) s _ hlt h64
    si_norm H [h, e1, e2, e3]
    rfl

theorem removeIf_img (H : Obs img) (d : DevSt) (id : Nat) (h64 : d.ifs.length < 2 ^ 64) :
    DeviceStatus_removeInterfaceById_obj (devSt img d) id = some (devSt img (d.removeIf id), ()) := by
  have hle := SrcSt.findIdx_le (fun i : IfSt => i.id == id) d.ifs
  unfold DeviceStatus_removeInterfaceById_obj DevSt.removeIf
  si_norm H [indexOfIf_img H, ifCount_img H]
  by_cases h : d.indexOfIf id = d.ifs.length
  · si_norm H [h]
  · have hlt : d.indexOfIf id < d.ifs.length := by unfold DevSt.indexOfIf at h ⊢; omega
    obtain ⟨t, e1, e2, e3⟩ := swapPop_map (ifSt img) d.ifs _ hlt h64
    si_norm H [h, e1, e2, e3]
    rfl

/-- an INJECTIVE image: the three observed values, then every member of the packet, whether it owns a payload, the payload type
    and every payload byte -/
def fullImg (p : Packet) : OPkt :=
  oPkt p ++ [("version", p.version), ("streamId", p.streamId), ("sequenceCounter", p.seq), ("timestamp", p.ts),
    ("interfaceId", p.ifId), ("vendorId", p.vendorId), ("commonFlags", p.flags), ("segmentType", p.segType),
    ("hasPayload", if p.payload.isSome then 1 else 0)] ++ p.data.map (fun b => ("payloadByte", b.toNat))

theorem obs_fullImg : Obs fullImg :=
  ⟨fun p => by simp [opq, fullImg, oPkt, List.lookup], fun p => by simp [opq, fullImg, oPkt, List.lookup],
   fun p => by simp [opq, fullImg, oPkt, List.lookup]⟩

theorem map_inj_of_injective {α β : Type} (f : α → β) (hf : ∀ a b, f a = f b → a = b) :
    ∀ l m : List α, l.map f = m.map f → l = m := by
  intro l
  induction l with
  | nil => intro m h; cases m with
    | nil => rfl
    | cons b m => cases h
  | cons a l ih => intro m h; cases m with
    | nil => cases h
    | cons b m =>
      simp only [List.map_cons, List.cons.injEq] at h
      rw [hf a b h.1, ih m h.2]

theorem fullImg_injective (p q : Packet) (h : fullImg p = fullImg q) : p = q := by
  simp only [fullImg, oPkt, List.cons_append, List.nil_append, List.cons.injEq, Prod.mk.injEq, true_and] at h
  obtain ⟨hdev, hty, _, hver, hstr, hseq, hts, hif, hven, hfl, hseg, hhas, hdata⟩ := h
  have hd : p.data = q.data := map_inj_of_injective _ (fun a b hab => by
    simp only [Prod.mk.injEq, true_and] at hab
    exact UInt8.toNat_inj.1 hab) _ _ hdata
  cases p with
  | mk pp v1 d1 s1 q1 t1 i1 ve1 f1 g1 =>
  cases q with
  | mk pq v2 d2 s2 q2 t2 i2 ve2 f2 g2 =>
  simp only at hdev hver hstr hseq hts hif hven hfl hseg
  subst hdev hver hstr hseq hts hif hven hfl hseg
  congr 1
  cases pp with
  | none =>
    cases pq with
    | none => rfl
    | some b => simp at hhas
  | some a =>
    cases pq with
    | none => simp at hhas
    | some b =>
      simp only [Packet.pty, Packet.data] at hty hd
      cases a; cases b
      simp only at hty hd
      subst hty hd
      rfl

theorem stSt_fullImg_injective (s t : StatusSt) (h : stSt fullImg s = stSt fullImg t) : s = t := by
  have hif : ∀ a b : IfSt, ifSt fullImg a = ifSt fullImg b → a = b := by
    intro a b hab
    simp only [ifSt, InterfaceStatus_St.mk.injEq] at hab
    cases a; cases b
    simp only at hab
    rw [fullImg_injective _ _ hab.1, hab.2]
  have hdev : ∀ a b : DevSt, devSt fullImg a = devSt fullImg b → a = b := by
    intro a b hab
    simp only [devSt, DeviceStatus_St.mk.injEq] at hab
    cases a; cases b
    simp only at hab
    rw [fullImg_injective _ _ hab.2, map_inj_of_injective _ hif _ _ hab.1]
  simp only [stSt, Status_St.mk.injEq] at h
  exact map_inj_of_injective _ hdev _ _ h

/-- all vectors have at most `n` elements -/
def Small (n : Nat) (s : StatusSt) : Prop := s.length ≤ n ∧ ∀ d ∈ s, d.ifs.length ≤ n

theorem length_swapRemove_le {α : Type} (l : List α) (i : Nat) : (swapRemove l i).length ≤ l.length := by
  unfold swapRemove
  split
  · exact Nat.le_refl _
  · simp only [List.length_dropLast, List.length_set]; omega

theorem update_ifs_length (d : DevSt) (p : Packet) : (d.update p).ifs.length ≤ d.ifs.length + 1 := by
  rw [update_ifs]
  split
  · rw [updateIfs_ifs]
    split
    · rw [List.length_modify]; omega
    · rw [List.length_append]; exact Nat.le_refl _
  · omega

theorem removeIf_ifs_length (d : DevSt) (id : Nat) : (d.removeIf id).ifs.length ≤ d.ifs.length := by
  rw [removeIf_ifs]
  split
  · exact length_swapRemove_le _ _
  · exact Nat.le_refl _

theorem small_modify (n : Nat) (s : StatusSt) (i : Nat) (g : DevSt → DevSt)
    (hg : ∀ d, (g d).ifs.length ≤ d.ifs.length + 1) (h : Small n s) : Small (n + 1) (s.modify i g) := by
  constructor
  · rw [List.length_modify]; exact Nat.le_succ_of_le h.1
  · intro d hd
    rcases mem_modify g s i d hd with hd | ⟨a, ha, rfl⟩
    · exact Nat.le_succ_of_le (h.2 d hd)
    · have := h.2 a (List.mem_of_getElem? ha)
      have := hg a
      omega

theorem small_step (n : Nat) (s : StatusSt) (op : StOp) (h : Small n s) : Small (n + 1) (statusStep s op) := by
  cases op with
  | update p =>
    show Small (n + 1) (statusUpdate s p)
    by_cases hlt : indexOfDev s p.deviceId < s.length
    · rw [statusUpdate_found s p hlt]
      exact small_modify n s _ _ (fun d => update_ifs_length d p) h
    · rw [statusUpdate_new s p hlt]
      split
      · constructor
        · rw [List.length_append]; exact Nat.succ_le_succ h.1
        · intro d hd
          rcases List.mem_append.1 hd with hd | hd
          · exact Nat.le_succ_of_le (h.2 d hd)
          · simp only [List.mem_singleton] at hd
            rw [hd]; exact Nat.zero_le _
      · exact ⟨Nat.le_succ_of_le h.1, fun d hd => Nat.le_succ_of_le (h.2 d hd)⟩
  | rmDev id =>
    show Small (n + 1) (statusRemoveDev s id)
    rw [statusRemoveDev_eq]
    split
    · next hlt =>
      obtain ⟨a, ha, _⟩ := dev_found s id hlt
      exact ⟨Nat.le_succ_of_le (Nat.le_trans (length_swapRemove_le _ _) h.1),
        fun d hd => Nat.le_succ_of_le (h.2 d (mem_of_mem_swapRemove s _ a ha d hd))⟩
    · exact ⟨Nat.le_succ_of_le h.1, fun d hd => Nat.le_succ_of_le (h.2 d hd)⟩
  | rmIf dev id =>
    show Small (n + 1) (statusRemoveIf s dev id)
    rw [statusRemoveIf_eq]
    split
    · exact small_modify n s _ _ (fun d => Nat.le_succ_of_le (removeIf_ifs_length d id)) h
    · exact ⟨Nat.le_succ_of_le h.1, fun d hd => Nat.le_succ_of_le (h.2 d hd)⟩
  | clear => exact ⟨Nat.zero_le _, fun d hd => by cases hd⟩

end AsamCmp.C16S
