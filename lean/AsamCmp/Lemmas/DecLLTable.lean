/-
  Table algebra for the low-level decoder model (DecoderLL.lean): `erase`, `find`, `set`, `index`,
  the function view `abs`, and the table invariant.
-/
import AsamCmp.DecoderLL
import AsamCmp.Lemmas.LayerB
namespace AsamCmp.C17b
open AsamCmp

/-- the pending reassembly an entry stands for -/
def absP (sp : SegPkt) : Pending := ⟨sp.payload, sp.segType, sp.ver, sp.mt, sp.seq⟩

theorem abs_apply (t : Table) (e : Ep) : t.abs e = (t.find e).map absP := rfl

/-! ### `find` after `erase` / `set` -/

theorem find_erase_same (t : Table) (k : Ep) : (t.erase k).find k = none := by
  unfold Table.find Table.erase
  rw [List.find?_filter]
  have : List.find? (fun a => decide ((a.1 != k) = true ∧ (a.1 == k) = true)) t = none := by
    rw [List.find?_eq_none]
    intro x _
    simp
  rw [this]; rfl

theorem find_erase_other (t : Table) (k e : Ep) (h : e ≠ k) : (t.erase k).find e = t.find e := by
  unfold Table.find Table.erase
  rw [List.find?_filter]
  congr 2
  funext a
  by_cases ha : a.1 = e
  · simp [ha, h]
  · simp [ha]

theorem find_cons_same (t : Table) (k : Ep) (v : SegPkt) : Table.find ((k, v) :: t) k = some v := by
  simp [Table.find]

theorem find_cons_other (t : Table) (k e : Ep) (v : SegPkt) (h : e ≠ k) :
    Table.find ((k, v) :: t) e = Table.find t e := by
  have : ((k, v).1 == e) = false := by simpa using Ne.symm h
  simp only [Table.find, List.find?_cons, this]

theorem find_set_same (t : Table) (k : Ep) (v : SegPkt) : (t.set k v).find k = some v :=
  find_cons_same _ k v

theorem find_set_other (t : Table) (k e : Ep) (v : SegPkt) (h : e ≠ k) :
    (t.set k v).find e = t.find e := by
  unfold Table.set
  rw [find_cons_other _ k e v h, find_erase_other t k e h]

/-! ### the function view -/

theorem abs_erase (t : Table) (k : Ep) : (t.erase k).abs = t.abs.set k none := by
  funext e
  by_cases h : e = k
  · subst h
    rw [abs_apply, find_erase_same, DecState.set_same]; rfl
  · rw [abs_apply, find_erase_other t k e h, DecState.set_other _ _ _ _ h]; rfl

theorem abs_set (t : Table) (k : Ep) (v : SegPkt) : (t.set k v).abs = t.abs.set k (some (absP v)) := by
  funext e
  by_cases h : e = k
  · subst h
    rw [abs_apply, find_set_same, DecState.set_same]; rfl
  · rw [abs_apply, find_set_other t k e v h, DecState.set_other _ _ _ _ h]; rfl

theorem set_set (s : DecState) (k : Ep) (v w : Option Pending) : (s.set k v).set k w = s.set k w := by
  funext e
  by_cases h : e = k
  · subst h; rw [DecState.set_same, DecState.set_same]
  · rw [DecState.set_other _ _ _ _ h, DecState.set_other _ _ _ _ h, DecState.set_other _ _ _ _ h]

/-! ### `erase` absorbs -/

theorem erase_erase (t : Table) (k : Ep) : (t.erase k).erase k = t.erase k := by
  unfold Table.erase
  rw [List.filter_filter]
  congr 1
  funext a
  simp

theorem erase_set (t : Table) (k : Ep) (v : SegPkt) : (t.set k v).erase k = t.erase k := by
  have : ((k, v).1 != k) = false := by simp
  show List.filter (fun x => x.1 != k) ((k, v) :: t.erase k) = t.erase k
  rw [List.filter_cons, this]
  exact erase_erase t k

/-! ### `operator[]` -/

theorem index_some (t : Table) (k : Ep) (v : SegPkt) (h : t.find k = some v) : t.index k = (t, v) := by
  simp [Table.index, h]

theorem index_none (t : Table) (k : Ep) (h : t.find k = none) : t.index k = (t.set k {}, {}) := by
  simp [Table.index, h]

theorem find_mem (t : Table) (k : Ep) (v : SegPkt) (h : t.find k = some v) : (k, v) ∈ t := by
  unfold Table.find at h
  cases hf : List.find? (fun x => x.1 == k) t with
  | none => rw [hf] at h; cases h
  | some x =>
    rw [hf] at h
    have hv : x.2 = v := Option.some.inj h
    have hk : x.1 = k := by simpa using List.find?_some hf
    have hm := List.mem_of_find?_eq_some hf
    rw [← hv, ← hk]
    exact hm

theorem mem_keys_iff (t : Table) (k : Ep) : k ∈ t.map (·.1) ↔ (t.find k).isSome = true := by
  unfold Table.find
  rw [Option.isSome_map, List.find?_isSome]
  simp only [List.mem_map, beq_iff_eq]

/-! ### the invariant (this is `TableOk` of Props/C17b.lean) -/

def GoodEntry (sp : SegPkt) : Prop := (sp.segType = 4 ∨ sp.segType = 8) ∧ 16 ≤ sp.payload.length

def Ok (t : Table) : Prop := (t.map (·.1)).Nodup ∧ ∀ x ∈ t, GoodEntry x.2

theorem ok_nil : Ok [] := ⟨List.nodup_nil, fun _ h => by cases h⟩

theorem ok_erase (t : Table) (k : Ep) (h : Ok t) : Ok (t.erase k) := by
  refine ⟨List.Nodup.sublist (List.Sublist.map _ List.filter_sublist) h.1, ?_⟩
  intro x hx
  exact h.2 x (List.mem_filter.mp hx).1

theorem not_mem_keys_erase (t : Table) (k : Ep) : k ∉ (t.erase k).map (·.1) := by
  rw [mem_keys_iff, find_erase_same]
  simp

theorem ok_set (t : Table) (k : Ep) (v : SegPkt) (h : Ok t) (hv : GoodEntry v) : Ok (t.set k v) := by
  have he := ok_erase t k h
  refine ⟨?_, ?_⟩
  · show ((k, v).1 :: (t.erase k).map (·.1)).Nodup
    exact List.nodup_cons.mpr ⟨not_mem_keys_erase t k, he.1⟩
  · intro x hx
    rcases List.mem_cons.mp hx with rfl | hx
    · exact hv
    · exact he.2 x hx

theorem ok_find (t : Table) (k : Ep) (v : SegPkt) (h : Ok t) (hf : t.find k = some v) : GoodEntry v :=
  h.2 _ (find_mem t k v hf)

end AsamCmp.C17b
