/-
  Source-level TECMP path, part 1: lemmas about the primitives of `Src/ObjTecmp.lean` and `Src/Sem.lean` that the translated TECMP
  decoder / converter use (one-scalar records as `leEnc`, `cpyToScalar`, `ptrBytes`, `toStringInt`, big-endian stores), and the
  "object = its own memory" forms of the reader theorems of `Props/SrcTieTecmp.lean`.
-/
import AsamCmp.GeneratedSrcTecmp
import AsamCmp.Tecmp
import AsamCmp.Props.SrcTieTecmp
import AsamCmp.Lemmas.SrcBuilders
set_option linter.unusedSimpArgs false
set_option linter.unusedVariables false
namespace AsamCmp.SrcTec
open AsamCmp AsamCmp.Src AsamCmp.SrcGen AsamCmp.SrcTie

/-! ### a one-scalar record (`PayloadType`) as the little-endian bytes of its member -/

theorem leDec_leEnc (w v : Nat) : leDec (leEnc w v) = v % 256 ^ w := by
  induction w generalizing v with
  | zero => simp [leEnc, leDec, Nat.mod_one]
  | succ w ih =>
    have h : (UInt8.ofNat (v % 256)).toNat = v % 256 := by simp
    simp only [leEnc, leDec, ih, h, Nat.pow_succ]
    rw [Nat.mul_comm (256 ^ w) 256, Nat.mod_mul]

theorem slice_all (l : Bytes) (n : Nat) (h : l.length = n) : slice l 0 n = l := by
  unfold slice; subst h; simp

theorem rd_leEnc (w v : Nat) : Src.rd (leEnc w v) 0 w = some (v % 256 ^ w) := by
  rw [rd_eq _ _ _ (by rw [leEnc_length]; omega)]
  unfold leAt
  rw [slice_all _ _ (leEnc_length w v), leDec_leEnc]

theorem rd_leEnc4 (v : Nat) : Src.rd (leEnc 4 v) 0 4 = some (v % 4294967296) := rd_leEnc 4 v

/-! ### `cpyToScalar`: three bytes into a zeroed `uint32_t` -/

theorem slice_three (m : Bytes) (a : Nat) (h : a + 3 ≤ m.length) :
    slice m a 3 = [m.getD a 0, m.getD (a + 1) 0, m.getD (a + 2) 0] := by
  rw [slice_succ m a 2 (by omega), slice_succ m (a + 1) 1 (by omega), slice_succ m (a + 1 + 1) 0 (by omega), slice_zero]

theorem cpyToScalar_three (m : Bytes) (a : Nat) (h : a + 3 ≤ m.length) :
    cpyToScalar 4 0 m a 3 = some (byteAt m a + 256 * byteAt m (a + 1) + 65536 * byteAt m (a + 2)) := by
  unfold cpyToScalar
  rw [if_pos ⟨by omega, h⟩, slice_three m a h]
  simp only [leEnc, writeAt, List.take_zero, List.nil_append, List.length_cons, List.length_nil, Nat.zero_add, Nat.reduceAdd,
    List.drop_succ_cons, List.drop_zero, List.cons_append, leDec, byteAt]
  congr 1
  simp
  omega

/-! ### pointers into a payload object -/

theorem ptrBytes_null (b : Bytes) : ptrBytes b 0 = [] := by simp [ptrBytes, objBase]

theorem ptrBytes_off (b : Bytes) (k : Nat) : ptrBytes b (objBase + k) = b.drop k := by
  simp [ptrBytes, objBase]

/-! ### `std::to_string` of a promoted `uint8_t` -/

theorem toStringInt_small (v : Nat) (h : v < 2 ^ 31) : toStringInt 32 v = decimal v := by
  unfold toStringInt; rw [if_pos (by simpa using h)]

/-! ### storing a byte-swapped 32-bit value is the big-endian encoding -/

theorem leEnc_swap32 (v : Nat) :
    leEnc 4 (v / 16777216 % 256 + v / 65536 % 256 * 256 + v / 256 % 256 * 65536 + v % 256 * 16777216) = beEnc 4 v := by
  have q1 : (v / 16777216 % 256 + v / 65536 % 256 * 256 + v / 256 % 256 * 65536 + v % 256 * 16777216) / 256
      = v / 65536 % 256 + v / 256 % 256 * 256 + v % 256 * 65536 := by omega
  have q2 : (v / 65536 % 256 + v / 256 % 256 * 256 + v % 256 * 65536) / 256 = v / 256 % 256 + v % 256 * 256 := by omega
  have q3 : (v / 256 % 256 + v % 256 * 256) / 256 = v % 256 := by omega
  have e0 : (v / 16777216 % 256 + v / 65536 % 256 * 256 + v / 256 % 256 * 65536 + v % 256 * 16777216) % 256
      = v / 16777216 % 256 := by omega
  have e1 : (v / 65536 % 256 + v / 256 % 256 * 256 + v % 256 * 65536) % 256 = v / 65536 % 256 := by omega
  have e2 : (v / 256 % 256 + v % 256 * 256) % 256 = v / 256 % 256 := by omega
  have e3 : v % 256 % 256 = v % 256 := by omega
  have d1 : v / 256 / 256 = v / 65536 := by omega
  have d2 : v / 65536 / 256 = v / 16777216 := by omega
  simp only [leEnc, beEnc, q1, q2, q3, e0, e1, e2, e3, d1, d2, List.nil_append, List.cons_append]

/-- `member = swapEndian(v)` for a 32-bit member at address `a` -/
theorem wr_swap32 (m : Bytes) (a v : Nat) (h : a + 4 ≤ m.length) :
    (swapEndian_u32 v).bind (fun t => wr m a 4 t) = some (writeAt m a (beEnc 4 v)) := by
  rw [swap32_bytes, some_bind, wr_eq _ _ _ _ h, leEnc_swap32]

theorem writeAt_writeAt_same (l : Bytes) (p : Nat) (u v : Bytes) (huv : u.length = v.length) (h : p + u.length ≤ l.length) :
    writeAt (writeAt l p u) p v = writeAt l p v := by
  have hA : (l.take p).length = p := by simp only [List.length_take]; omega
  have hAu : (l.take p ++ u).length = p + v.length := by simp only [List.length_append, hA, huv]
  have e1 : (l.take p ++ u ++ l.drop (p + u.length)).take p = l.take p := by
    rw [List.append_assoc]; exact List.take_left' hA
  have e2 : (l.take p ++ u ++ l.drop (p + u.length)).drop (p + v.length) = l.drop (p + v.length) := by
    rw [List.drop_left' hAu, huv]
  unfold writeAt
  rw [e1, e2]

theorem leAt_writeAt_same (l : Bytes) (p w : Nat) (v : Nat) (h : p + w ≤ l.length) :
    leAt (writeAt l p (leEnc w v)) p w = v % 256 ^ w := by
  have hA : (l.take p).length = p := by simp only [List.length_take]; omega
  unfold leAt slice writeAt
  rw [List.append_assoc, List.drop_left' hA, List.take_left' (leEnc_length w v), leDec_leEnc]

/-- the read-modify-write `word &= ~mask; word |= swapEndian(v)` on a 32-bit member that holds 0: the member becomes the big-endian
    encoding of `v` (all 32 bits: the mask plays no role) -/
theorem rmw_swap32_zero (m : Bytes) (a k v : Nat) (h : a + 4 ≤ m.length) (hz : leAt m a 4 = 0) :
    (do let t1 ← Src.rd m a 4
        let m ← wr m a 4 (t1 &&& k)
        let t2 ← swapEndian_u32 v
        let t3 ← Src.rd m a 4
        let m ← wr m a 4 (t3 ||| t2)
        pure m) = some (writeAt m a (beEnc 4 v)) := by
  have hl : (writeAt m a (leEnc 4 0)).length = m.length := writeAt_length _ _ _ (by rw [leEnc_length]; omega)
  simp only [bind, pure]
  rw [rd_eq _ _ _ h, some_bind, hz, Nat.zero_and, wr_eq _ _ _ _ h, some_bind, swap32_bytes, some_bind,
    rd_eq _ _ _ (by rw [hl]; exact h), some_bind, leAt_writeAt_same _ _ _ _ h, Nat.zero_mod, Nat.zero_or,
    wr_eq _ _ _ _ (by rw [hl]; exact h), leEnc_swap32,
    writeAt_writeAt_same _ _ _ _ (by simp [leEnc_length]) (by rw [leEnc_length]; exact h)]

end AsamCmp.SrcTec
