/-
  C02 helper lemmas: the checked-read decoder `decodeM` never fails and agrees with `decode`;
  counting and payload-presence facts about `decode`.
-/
import AsamCmp.DecodeM
import AsamCmp.Props.C17
import AsamCmp.Props.C18
import AsamCmp.Lemmas.TileBytes
namespace AsamCmp.C02
open AsamCmp

/-! ### checked reads inside the buffer succeed -/

theorem rdB_some (b : Bytes) (off len : Nat) (h : off + len ≤ b.length) :
    rdB b off len = some (slice b off len) := by
  simp [rdB, h]

theorem rdN_some (b : Bytes) (off len : Nat) (h : off + len ≤ b.length) :
    rdN b off len = some (beAt b off len) := by
  simp [rdN, rdB_some b off len h, beAt]

theorem beDec_single (x : UInt8) : beDec [x] = x.toNat := by
  simp [beDec]

/-- a one-byte big-endian field is the byte -/
theorem beAt_one (b : Bytes) (i : Nat) : beAt b i 1 = byteAt b i := by
  unfold beAt slice byteAt
  rw [List.getD_eq_getElem?_getD]
  by_cases h : i < b.length
  · rw [List.drop_eq_getElem_cons h, List.take_succ_cons, List.take_zero, beDec_single]
    simp [h]
  · have : b.drop i = [] := List.drop_eq_nil_of_le (by omega)
    simp [this, h]

theorem rdN1_some (b : Bytes) (off : Nat) (h : off + 1 ≤ b.length) :
    rdN b off 1 = some (byteAt b off) := by
  rw [rdN_some b off 1 h, beAt_one]

theorem msgValid_bound (r : Bytes) (h : msgValid r = true) : 16 + beAt r 14 2 ≤ r.length := by
  simp only [msgValid, Bool.and_eq_true, decide_eq_true_eq] at h
  omega

theorem msgValidM_eq (r : Bytes) : msgValidM r = some (msgValid r) := by
  unfold msgValidM
  by_cases h : r.length < 16
  · have : ¬ 16 ≤ r.length := by omega
    simp [h, msgValid, this]
  · rw [if_neg h, rdN_some r 14 2 (by omega), rdN1_some r 12 (by omega), rdN1_some r 13 (by omega)]
    have h16 : 16 ≤ r.length := by omega
    by_cases h1 : beAt r 14 2 ≤ r.length - 16
    · by_cases h2 : (byteAt r 12 &&& 0x40) = 0
      · simp [msgValid, h16, h1, h2, Nat.not_lt.mpr h1]
      · simp [msgValid, h16, h1, h2]
    · simp [msgValid, h16, h1, Nat.lt_of_not_le h1]

theorem ofMsgM_eq (mt : Nat) (m : Bytes) (h : 16 + beAt m 14 2 ≤ m.length) :
    ofMsgM mt m = some (Packet.ofMsg mt m) := by
  unfold ofMsgM
  rw [rdB_some m 0 16 (by omega), rdN_some m 14 2 (by omega)]
  simp [rdB_some m 16 (beAt m 14 2) h]

theorem walkM_eq (ep : Ep) (ver mt : Nat) (r : Bytes) : walkM ep ver mt r = some (walk ep ver mt r) := by
  fun_induction walk ep ver mt r with
  | case1 r h0 =>
    rw [walkM]; simp [h0]
  | case2 r h0 h1 =>
    have hv : msgValid r = false := by simpa using h1
    rw [walkM]
    simp [h0, msgValidM_eq, hv]
  | case3 r h0 h1 len h2 =>
    have hv : msgValid r = true := by simpa using h1
    have hb := msgValid_bound r hv
    rw [walkM]
    simp only [h0, dite_false, msgValidM_eq, hv]
    rw [rdN_some r 14 2 (by omega), rdN1_some r 12 (by omega)]
    simp only [h2, if_true]
    rw [rdB_some r 0 (16 + beAt r 14 2) (by omega)]
    simp [slice, len]
  | case4 r h0 h1 len h2 p rest ih =>
    have hv : msgValid r = true := by simpa using h1
    have hb := msgValid_bound r hv
    rw [walkM]
    simp only [h0, dite_false, msgValidM_eq, hv]
    rw [rdN_some r 14 2 (by omega), rdN1_some r 12 (by omega)]
    simp only [h2, Bool.false_eq_true, if_false, ofMsgM_eq mt r hb]
    rw [show walkM ep ver mt (r.drop (16 + beAt r 14 2)) = _ from ih]

theorem parseFrameM_eq (b : Bytes) (h : 8 ≤ b.length) : parseFrameM b = some (parseFrame b) := by
  unfold parseFrameM parseFrame
  rw [rdN1_some b 0 (by omega), rdN_some b 2 2 (by omega), rdN1_some b 4 (by omega),
    rdN1_some b 5 (by omega), rdN_some b 6 2 (by omega)]
  simp [walkM_eq]

/-! ### TECMP path -/

theorem tecmpCanM_eq (b p : Bytes) : tecmpCanM b p = some (tecmpCan b p) := by
  unfold tecmpCanM
  by_cases h : p.length < 5
  · simp [h, tecmpCan]
  · have r1 := rdN1_some p 4 (by omega)
    by_cases h2 : p.length - 5 < byteAt p 4
    · simp [h, r1, h2, tecmpCan]
    · have r2 := rdN_some p 0 4 (by omega)
      have r3 := rdB_some p 5 (byteAt p 4) (by omega)
      by_cases h3 : p.length < 5 + byteAt p 4 + 3
      · simp [h, r1, h2, r2, r3, h3]
      · have r4 := rdB_some p (5 + byteAt p 4) 3 (by omega)
        simp [h, r1, h2, r2, r3, h3, r4]

theorem tecmpLinM_eq (b p : Bytes) : tecmpLinM b p = some (tecmpLin b p) := by
  unfold tecmpLinM
  by_cases h : p.length < 2
  · simp [h, tecmpLin]
  · have r1 := rdN1_some p 1 (by omega)
    by_cases h2 : p.length - 2 < byteAt p 1
    · simp [h, r1, h2, tecmpLin]
    · have r2 := rdN1_some p 0 (by omega)
      have r3 := rdB_some p 2 (byteAt p 1) (by omega)
      by_cases h3 : p.length ≤ 2 + byteAt p 1
      · simp [h, r1, h2, r2, r3, h3]
      · have r4 := rdB_some p (2 + byteAt p 1) 1 (by omega)
        simp [h, r1, h2, r2, r3, h3, r4]

theorem tecmpCmM_eq (b p : Bytes) : tecmpCmM b p = some (tecmpCm b p) := by
  unfold tecmpCmM
  by_cases h : p.length < 18
  · simp [h, tecmpCm]
  · have r4 : rdN p 4 2 = some (beAt p 4 2) := rdN_some p 4 2 (by omega)
    by_cases hv : p.length - 12 < beAt p 4 2
    · simp [h, r4, hv, tecmpCm]
    · simp [h, r4, hv, rdN_some p 8 4 (by omega), rdB_some p 13 5 (by omega)]

theorem tecmpBusEntriesM_eq (p : Bytes) (v : Nat) : ∀ fuel off, tecmpBusEntriesM p v fuel off = some () := by
  intro fuel
  induction fuel with
  | zero => intro off; rfl
  | succ n ih =>
    intro off
    unfold tecmpBusEntriesM
    by_cases h : off + (12 + v) ≤ p.length
    · simp [h, rdB_some p off 12 (by omega), ih]
    · simp [h]

theorem tecmpBusM_eq (b p : Bytes) : tecmpBusM b p = some (tecmpBus b p) := by
  unfold tecmpBusM
  by_cases h : p.length < 12
  · simp [h, tecmpBus]
  · simp [h, rdB_some p 0 12 (by omega), rdN_some p 4 2 (by omega), tecmpBusEntriesM_eq]

theorem tecmpDecodeM_eq (b : Bytes) : tecmpDecodeM b = some (tecmpDecode b) := by
  unfold tecmpDecodeM
  by_cases h : b.length < 28
  · simp [h, tecmpDecode]
  · have r0 := rdB_some b 0 28 (by omega)
    have r1 := rdN_some b 24 2 (by omega)
    by_cases h1 : beAt b 24 2 = 0
    · simp [h, r0, r1, h1, tecmpDecode]
    · by_cases h2 : b.length < 28 + beAt b 24 2
      · simp [h, r0, r1, h1, h2, tecmpDecode]
      · have r5 := rdN1_some b 5 (by omega)
        have r6 := rdN1_some b 6 (by omega)
        have r7 := rdN1_some b 7 (by omega)
        have r8 := rdN_some b 6 2 (by omega)
        by_cases h3 : byteAt b 5 = 0xFF ∨ (byteAt b 6 = 0xFF ∧ byteAt b 7 = 0)
        · simp [h, r0, r1, h1, h2, r5, r6, r7, h3, tecmpDecode]
        · have e : tecmpDecode b =
              if byteAt b 5 = 1 then tecmpCm b (b.drop 28)
              else if byteAt b 5 = 3 then
                if beAt b 6 2 = 2 ∨ beAt b 6 2 = 3 then tecmpCan b (b.drop 28)
                else if beAt b 6 2 = 4 then tecmpLin b (b.drop 28)
                else []
              else if byteAt b 5 = 2 then tecmpBus b (b.drop 28)
              else [] := by
            unfold tecmpDecode
            rw [if_neg h]
            simp only
            rw [if_neg h1, if_neg h2, if_neg h3]
          rw [e]
          simp only [h, r0, r1, h1, h2, r5, r6, r7, r8, h3, if_false, Option.bind_eq_bind, Option.bind,
            Option.pure_def, tecmpCmM_eq, tecmpCanM_eq, tecmpLinM_eq, tecmpBusM_eq]
          repeat' split
          all_goals rfl

theorem decodeM_eq (s : DecState) (buf : Option Bytes) : decodeM s buf = some (decode s buf) := by
  unfold decodeM decode decodeWith
  cases buf with
  | none => rfl
  | some b =>
    simp only
    by_cases h : b.length < 8
    · simp [h]
    · rw [if_neg h, if_neg h, rdN1_some b 0 (by omega)]
      simp only
      by_cases h0 : byteAt b 0 = 0
      · simp [h0, tecmpDecodeM_eq]
      · simp [h0, parseFrameM_eq b (by omega)]
/-! ### the rewritten length of a reassembly -/

theorem fixLen_read (x : Bytes) (h : 16 ≤ x.length) :
    (fixLen x).length = x.length ∧ 16 + beAt (fixLen x) 14 2 ≤ x.length := by
  refine ⟨fixLen_length x h, ?_⟩
  have e : beAt (fixLen x) 14 2 = ((x.length % 65536 + 65536 - 16) % 65536) % 65536 := by
    unfold fixLen writeAt beAt
    rw [slice_mid _ _ _ 14 2 (by simp; omega) (by simp), beDec_beEnc]
  rw [e]
  omega

/-! ### counting -/

theorem walk_count' (ep : Ep) (ver mt : Nat) (r : Bytes) :
    16 * (walk ep ver mt r).1.length + (match (walk ep ver mt r).2 with | .seg _ => 16 | _ => 0) ≤ r.length := by
  fun_induction walk ep ver mt r with
  | case1 r h0 => simp
  | case2 r h0 h1 => simp
  | case3 r h0 h1 len h2 =>
    have hv : msgValid r = true := by simpa using h1
    have := msgValid_bound r hv
    simp only [List.length_nil]
    omega
  | case4 r h0 h1 len h2 p rest ih =>
    have hv : msgValid r = true := by simpa using h1
    have hb := msgValid_bound r hv
    simp only [len, List.length_drop] at ih
    simp only [rest, len, List.length_cons]
    omega

/-- `localStep` delivers the unsegmented packets and at most one more, only behind a segment -/
theorem localStep_count (p : Option Pending) (f : PFrame) :
    (localStep p f).2.length ≤ f.unseg.length + (match f.term with | .seg _ => 1 | _ => 0) := by
  unfold localStep
  split
  · simp
  · simp
  · rename_i m hm
    rw [hm]
    simp only
    split
    · simp
    · split
      · simp
      · split
        · split
          · simp
          · simp
        · simp

theorem tecmpBusEntries_count (b p : Bytes) (v : Nat) : ∀ fuel off, off ≤ p.length →
    (tecmpBusEntries b p v fuel off).length * 12 + off ≤ p.length := by
  intro fuel
  induction fuel with
  | zero => intro off h; simp [tecmpBusEntries]; exact h
  | succ n ih =>
    intro off h
    unfold tecmpBusEntries
    by_cases h1 : off + (12 + v) ≤ p.length
    · have := ih (off + (12 + v)) h1
      simp only [h1, if_true, List.length_cons]
      omega
    · simp [h1]; exact h

theorem tecmpDecode_count (b : Bytes) : 12 * (tecmpDecode b).length ≤ b.length := by
  unfold tecmpDecode
  by_cases h : b.length < 28
  · simp [h]
  · rw [if_neg h]
    simp only
    have hcm : (tecmpCm b (b.drop 28)).length ≤ 1 := by
      unfold tecmpCm
      split
      · simp
      · split <;> simp
    have hcan : (tecmpCan b (b.drop 28)).length ≤ 1 := by
      unfold tecmpCan
      split
      · simp
      · simp only
        split
        · simp
        · split <;> simp
    have hlin : (tecmpLin b (b.drop 28)).length ≤ 1 := by
      unfold tecmpLin
      split
      · simp
      · simp only
        split <;> simp
    have hbus : 12 * (tecmpBus b (b.drop 28)).length ≤ b.length := by
      unfold tecmpBus
      split
      · simp
      · rename_i h12
        have := tecmpBusEntries_count b (b.drop 28) (beAt (b.drop 28) 4 2) ((b.drop 28).length / 12 + 1) 12 (by omega)
        simp only [List.length_drop] at this h12 ⊢
        omega
    repeat' split
    all_goals first | (simp; done) | omega

theorem decode_count' (s : DecState) (b : Bytes) : 12 * (decode s (some b)).2.length ≤ b.length := by
  unfold decode decodeWith
  simp only
  by_cases h : b.length < 8
  · simp [h]
  · rw [if_neg h]
    by_cases h0 : byteAt b 0 = 0
    · rw [if_pos h0]
      exact tecmpDecode_count b
    · rw [if_neg h0, step_snd]
      have h1 := localStep_count (s (parseFrame b).ep) (parseFrame b)
      have h2 := walk_count' (beAt b 2 2, byteAt b 5) (byteAt b 0) (byteAt b 4) (b.drop 8)
      have e1 : (parseFrame b).unseg = (walk (beAt b 2 2, byteAt b 5) (byteAt b 0) (byteAt b 4) (b.drop 8)).1 := rfl
      have e2 : (parseFrame b).term = (walk (beAt b 2 2, byteAt b 5) (byteAt b 0) (byteAt b 4) (b.drop 8)).2 := rfl
      rw [e1, e2] at h1
      simp only [List.length_drop] at h2
      generalize (walk (beAt b 2 2, byteAt b 5) (byteAt b 0) (byteAt b 4) (b.drop 8)) = w at h1 h2
      obtain ⟨u, t⟩ := w
      cases t <;> simp only at h1 h2 <;> omega

/-! ### every delivered packet has a payload -/

theorem walk_payload (ep : Ep) (ver mt : Nat) (r : Bytes) :
    ∀ p ∈ (walk ep ver mt r).1, p.payload.isSome = true := by
  fun_induction walk ep ver mt r with
  | case1 r h0 => simp
  | case2 r h0 h1 => simp
  | case3 r h0 h1 len h2 => simp
  | case4 r h0 h1 len h2 p rest ih =>
    intro x hx
    simp only [List.mem_cons] at hx
    rcases hx with hx | hx
    · subst hx; simp [p, tagPacket, Packet.ofMsg]
    · exact ih x hx

theorem localStep_payload (q : Option Pending) (f : PFrame) (hf : ∀ p ∈ f.unseg, p.payload.isSome = true) :
    ∀ p ∈ (localStep q f).2, p.payload.isSome = true := by
  intro p hp
  unfold localStep at hp
  split at hp
  · exact hf p hp
  · exact hf p hp
  · dsimp only at hp
    split at hp
    · exact hf p hp
    · split at hp
      · exact hf p hp
      · split at hp
        · split at hp
          · simp only [List.mem_append, List.mem_singleton] at hp
            rcases hp with hp | hp
            · exact hf p hp
            · subst hp; simp [tagPacket, Packet.ofMsg]
          · exact hf p hp
        · exact hf p hp

theorem tecmpBusEntries_payload (b p : Bytes) (v : Nat) : ∀ fuel off,
    ∀ x ∈ tecmpBusEntries b p v fuel off, x.payload.isSome = true := by
  intro fuel
  induction fuel with
  | zero => intro off x hx; simp [tecmpBusEntries] at hx
  | succ n ih =>
    intro off x hx
    unfold tecmpBusEntries at hx
    split at hx
    · simp only [List.mem_cons] at hx
      rcases hx with hx | hx
      · subst hx; simp [tecmpPacket]
      · exact ih _ x hx
    · simp at hx

theorem tecmpDecode_payload (b : Bytes) : ∀ x ∈ tecmpDecode b, x.payload.isSome = true := by
  have hcm : ∀ p, ∀ x ∈ tecmpCm b p, x.payload.isSome = true := by
    intro p x hx
    unfold tecmpCm at hx
    split at hx
    · simp at hx
    · split at hx
      · simp at hx
      · simp at hx; subst hx; simp [tecmpPacket]
  have hcan : ∀ p, ∀ x ∈ tecmpCan b p, x.payload.isSome = true := by
    intro p x hx
    unfold tecmpCan at hx
    split at hx
    · simp at hx
    · simp only at hx
      split at hx
      · simp at hx
      · split at hx <;> (simp at hx; subst hx; simp [tecmpPacket])
  have hlin : ∀ p, ∀ x ∈ tecmpLin b p, x.payload.isSome = true := by
    intro p x hx
    unfold tecmpLin at hx
    split at hx
    · simp at hx
    · simp only at hx
      split at hx
      · simp at hx
      · simp at hx; subst hx; simp [tecmpPacket]
  have hbus : ∀ p, ∀ x ∈ tecmpBus b p, x.payload.isSome = true := by
    intro p x hx
    unfold tecmpBus at hx
    split at hx
    · simp at hx
    · exact tecmpBusEntries_payload b p _ _ _ x hx
  intro x hx
  unfold tecmpDecode at hx
  split at hx
  · simp at hx
  simp only at hx
  repeat' split at hx
  all_goals first | (simp at hx; done) | exact hcm _ x hx | exact hcan _ x hx | exact hlin _ x hx | exact hbus _ x hx

theorem decode_payload' (s : DecState) (buf : Option Bytes) :
    ∀ p ∈ (decode s buf).2, p.payload.isSome = true := by
  intro p hp
  unfold decode decodeWith at hp
  split at hp
  · simp at hp
  · split at hp
    · simp at hp
    · split at hp
      · exact tecmpDecode_payload _ p hp
      · rw [step_snd] at hp
        exact localStep_payload _ _ (walk_payload _ _ _ _) p hp

/-! ### the state invariant -/

theorem decode_state' (s : DecState) (buf : Option Bytes) (h : ∀ e, PendingOk (s e)) :
    ∀ e, PendingOk ((decode s buf).1 e) := by
  intro e
  unfold decode decodeWith
  split
  · exact h e
  · split
    · exact h e
    · split
      · exact h e
      · rename_i b _ _
        by_cases he : (parseFrame b).ep = e
        · subst he
          rw [step_fst_same]
          exact (localStep_refines _ _ (h _) (parseFrame_WF b)).2
        · rw [step_fst_other _ _ _ he]
          exact h e
end AsamCmp.C02
