/-
  Symbolic memory (Src/BitProg.lean): `memEval`, little-endian member reads / writes on it, the initial memory.
-/
import AsamCmp.Lemmas.BitProgBits
import AsamCmp.Lemmas.FieldArith
import AsamCmp.Lemmas.SrcPrim
namespace AsamCmp.Src.Bit
open AsamCmp AsamCmp.Src

/-! ### byte lists -/

theorem writeAt_writeAt_inner {M X Y : Bytes} {this off : Nat} (hX : this + X.length ≤ M.length)
    (hY : off + Y.length ≤ X.length) :
    writeAt (writeAt M this X) (this + off) Y = writeAt M this (writeAt X off Y) := by
  have hl := C11.writeAt_length hX
  have hl2 := C11.writeAt_length hY
  apply List.ext_getElem?
  intro i
  rw [C11.getElem?_writeAt (b := writeAt M this X) (off := this + off) (x := Y) (by omega),
    C11.getElem?_writeAt hX, C11.getElem?_writeAt (b := M) (off := this) (x := writeAt X off Y) (by omega), hl2,
    C11.getElem?_writeAt hY]
  by_cases h1 : i < this
  · have h2 : i < this + off := by omega
    simp only [h1, h2, if_true]
  · by_cases h2 : i < this + X.length
    · by_cases h3 : i < this + off
      · have h4 : i - this < off := by omega
        simp only [h1, h2, h3, h4, if_true, if_false]
      · by_cases h4 : i < this + off + Y.length
        · have h5 : ¬ i - this < off := by omega
          have h6 : i - this < off + Y.length := by omega
          simp only [h1, h2, h3, h4, h5, h6, if_true, if_false]
          congr 1
          omega
        · have h5 : ¬ i - this < off := by omega
          have h6 : ¬ i - this < off + Y.length := by omega
          simp only [h1, h2, h3, h4, h5, h6, if_true, if_false]
    · have h3 : ¬ i < this + off := by omega
      have h4 : ¬ i < this + off + Y.length := by omega
      simp only [h1, h2, h3, h4, if_false]

theorem writeAt_eq_append (M X : Bytes) (this : Nat) :
    writeAt M this X = M.take this ++ X ++ M.drop (this + X.length) := rfl

theorem leEnc_length (w v : Nat) : (leEnc w v).length = w := by
  induction w generalizing v with
  | zero => rfl
  | succ w ih => simp [leEnc, ih]

theorem leEnc_mod (w v : Nat) : leEnc w (v % 2 ^ (8 * w)) = leEnc w v := by
  induction w generalizing v with
  | zero => rfl
  | succ w ih =>
    have e : 2 ^ (8 * (w + 1)) = 256 * 2 ^ (8 * w) := by
      rw [Nat.mul_succ, Nat.pow_add, Nat.mul_comm]
    simp only [leEnc]
    rw [e, Nat.mod_mul_right_div_self, ih, Nat.mod_mul_right_mod]

section
variable (obj : Bytes) (args : List Nat)

@[simp] theorem memEval_length (sm : List SWord) : (memEval obj args sm).length = sm.length := by
  simp [memEval]

theorem memEval_append (a b : List SWord) : memEval obj args (a ++ b) = memEval obj args a ++ memEval obj args b := by
  simp [memEval]

theorem memEval_take (a : List SWord) (n : Nat) : memEval obj args (a.take n) = (memEval obj args a).take n := by
  simp [memEval, List.map_take]

theorem memEval_drop (a : List SWord) (n : Nat) : memEval obj args (a.drop n) = (memEval obj args a).drop n := by
  simp [memEval, List.map_drop]

theorem memEval_cons (w : SWord) (a : List SWord) :
    memEval obj args (w :: a) = UInt8.ofNat (SWord.eval obj args (fit 8 w)) :: memEval obj args a := rfl

/-! ### reads -/

theorem leDec_memEval {L : List SWord} (h : ∀ w ∈ L, w.length = 8) :
    leDec (memEval obj args L) = SWord.eval obj args L.flatten := by
  induction L with
  | nil => rfl
  | cons w L ih =>
    have hw : w.length = 8 := h w (by simp)
    rw [memEval_cons, leDec, List.flatten_cons, eval_append, ih (fun x hx => h x (by simp [hx])), fit_of_length hw, hw]
    have := eval_lt obj args w
    rw [hw] at this
    have e : (UInt8.ofNat (SWord.eval obj args w)).toNat = SWord.eval obj args w := by
      simp; omega
    rw [e]

/-! ### writes -/

theorem chunks_length (w : Nat) (bits : SWord) : (chunks w bits).length = w := by
  induction w generalizing bits with
  | zero => rfl
  | succ w ih => simp [chunks, ih]

theorem chunks_len8 (w : Nat) (bits : SWord) (h : bits.length = 8 * w) : ∀ c ∈ chunks w bits, c.length = 8 := by
  induction w generalizing bits with
  | zero => intro c hc; simp [chunks] at hc
  | succ w ih =>
    intro c hc
    simp only [chunks, List.mem_cons] at hc
    rcases hc with hc | hc
    · subst hc
      rw [List.length_take]
      omega
    · exact ih (bits.drop 8) (by rw [List.length_drop]; omega) c hc

theorem memEval_chunks_aux (w : Nat) (bits : SWord) :
    memEval obj args (chunks w bits) = leEnc w (SWord.eval obj args bits) := by
  induction w generalizing bits with
  | zero => rfl
  | succ w ih =>
    simp only [chunks, leEnc]
    rw [memEval_cons, ih, eval_drop_div, eval_fit, eval_take]
    have : SWord.eval obj args bits % 2 ^ 8 % 2 ^ 8 = SWord.eval obj args bits % 256 := by
      omega
    rw [this]

theorem memEval_chunks (w : Nat) (word : SWord) :
    memEval obj args (chunks w (fit (8 * w) word)) = leEnc w (SWord.eval obj args word) := by
  rw [memEval_chunks_aux, eval_fit, leEnc_mod]

/-! ### the initial memory -/

theorem initMem_length (size : Nat) : (initMem size).length = size := by simp [initMem]

theorem initMem_len8 (size : Nat) : ∀ w ∈ initMem size, w.length = 8 := by
  intro w hw
  simp only [initMem, List.mem_map, List.mem_range] at hw
  obtain ⟨i, _, rfl⟩ := hw
  simp

theorem eval_memByte (i : Nat) :
    SWord.eval obj args ((List.range 8).map fun j => SBit.mem i j) = byteAt obj i := by
  symm
  apply eq_eval
  intro j
  rw [bit_map_range]
  by_cases h : j < 8
  · rw [if_pos h]; rfl
  · rw [if_neg h]
    exact Nat.testBit_lt_two_pow
      (Nat.lt_of_lt_of_le (SrcTie.byteAt_lt obj i) (Nat.pow_le_pow_right (n := 2) (by decide) (by omega : 8 ≤ j)))

theorem memEval_initMem (size : Nat) (h : obj.length = size) : memEval obj args (initMem size) = obj := by
  apply List.ext_getElem
  · simp [initMem, h]
  · intro i h1 h2
    simp only [memEval, initMem, List.getElem_map, List.getElem_range]
    rw [fit_of_length (by simp), eval_memByte]
    simp [byteAt, List.getD_eq_getElem?_getD, List.getElem?_eq_getElem h2]

end

end AsamCmp.Src.Bit
