/-
  C06 on bytes, part 3: arrived buffers are copies of sent frames, the byte-level side condition
  gives the abstract one, and every `Good` packet is one of the batch.
-/
import AsamCmp.Lemmas.FaultBytesStream
import AsamCmp.Props.C06
namespace AsamCmp.C06b
open AsamCmp AsamCmp.C01

/-! ### counters -/

theorem S_seq (X : Setup) {i : Nat} {f : EFrame} (hf : X.fs[i]? = some f) : X.S.seq i = f.seq := by
  have := chain_seq X.fs X.hg.2 (fun g hg => (X.hg.1 g hg).seq) i f hf
  rw [this]; rfl

/-! ### arrived buffers -/

/-- overwriting the version and message type bytes is serialising the frame with another header -/
theorem bytes_corrupt (min : Nat) (f : EFrame) (ver mt : Nat) :
    writeAt (writeAt (EFrame.bytes min f) 0 [UInt8.ofNat ver]) 4 [UInt8.ofNat mt] =
      EFrame.bytes min { f with ver := ver, mt := mt } := by
  have hu : ({ f with ver := ver, mt := mt } : EFrame).used = f.used := rfl
  simp only [EFrame.bytes, frameHeader, beEnc, List.length_append, List.length_cons, List.length_nil]
  simp [writeAt]

/-- `b` arrived as a copy of frame `i`: clean, or — a segment frame — with other version / type bytes -/
def ArrP (fs : List EFrame) (min : Nat) (b : Bytes) (i : Nat) : Prop :=
  ∃ f, fs[i]? = some f ∧
    (b = EFrame.bytes min f ∨
     ∃ ver mt, (f.msgs.any fun m => m.seg != 0) = true ∧ 1 ≤ ver ∧ ver < 256 ∧ mt < 256 ∧
       b = writeAt (writeAt (EFrame.bytes min f) 0 [UInt8.ofNat ver]) 4 [UInt8.ofNat mt])

theorem seg_of_any {dev stream v : Nat} {f : EFrame} (hf : FrOk dev stream v f)
    (h : (f.msgs.any fun m => m.seg != 0) = true) : ∃ m, f.msgs = [m] ∧ m.seg ≠ 0 := by
  cases hm : f.msgs with
  | nil => exact absurd hm hf.ne
  | cons m ms =>
    by_cases hs : m.seg = 0
    · have hall := head_unseg hf hm hs
      rw [List.any_eq_true] at h
      obtain ⟨x, hx, hx'⟩ := h
      have := hall x hx
      simp [this] at hx'
    · exact ⟨m, by rw [head_seg hf hm hs], hs⟩

/-- the frame the decoder sees in an arrived buffer is a copy of the sent frame -/
theorem arr_copy (X : Setup) {b : Bytes} {i : Nat} (h : ArrP X.fs X.min b i) :
    Copy X.S (parseFrame b) i ∧ 8 ≤ b.length ∧ byteAt b 0 ≠ 0 := by
  obtain ⟨f, hf, hb⟩ := h
  have hfo := X.hg.1 f (frame_mem X hf)
  have hseq := S_seq X hf
  have hv1 := X.hv1
  rcases hb with rfl | ⟨ver, mt, hany, hver1, hver, hmt, rfl⟩
  · have hp := parse_frame X.min f hfo.toHdrOk X.hdev X.hstream X.hv
    have h0 : byteAt (EFrame.bytes X.min f) 0 = X.v := by
      show (parseFrame (EFrame.bytes X.min f)).ver = X.v
      rw [hp]
    refine ⟨?_, by rw [bytes_length]; omega, by omega⟩
    cases hm : f.msgs with
    | nil => exact absurd hm hfo.ne
    | cons m ms =>
      by_cases hs : m.seg = 0
      · have hall := head_unseg hfo hm hs
        have hat := sentOf_unseg X hf hall
        have := Copy.unseg (S := X.S) i _ _ X.v f.mt hat
        rw [hseq] at this
        have e : parseFrame (EFrame.bytes X.min f) =
            ⟨X.S.ep, X.v, f.mt, f.seq, (PF X.min f).unseg, (PF X.min f).term⟩ := by
          unfold PF; rw [hp]; rfl
        rw [e]; exact this
      · have hms : ms = [] := head_seg hfo hm hs
        subst hms
        have hmo := hfo.msgs m (by rw [hm]; simp)
        have hs' : m.seg = 4 ∨ m.seg = 8 ∨ m.seg = 12 := by
          rcases hmo.seg with h | h | h | h
          · exact absurd h hs
          · exact Or.inl h
          · exact Or.inr (Or.inl h)
          · exact Or.inr (Or.inr h)
        have hat := sentOf_seg X hf hm hs
        have := Copy.seg (S := X.S) i _ X.v f.mt hat
        rw [hseq] at this
        rw [parse_seg X.min f hfo.toHdrOk X.hdev X.hstream X.hv m hm hmo.wf hmo.len hs']
        exact this
  · obtain ⟨m, hm, hs⟩ := seg_of_any hfo hany
    have hmo := hfo.msgs m (by rw [hm]; simp)
    have hs' : m.seg = 4 ∨ m.seg = 8 ∨ m.seg = 12 := by
      rcases hmo.seg with h | h | h | h
      · exact absurd h hs
      · exact Or.inl h
      · exact Or.inr (Or.inl h)
      · exact Or.inr (Or.inr h)
    rw [bytes_corrupt]
    have hh : HdrOk X.dev X.stream ver ({ f with ver := ver, mt := mt } : EFrame) :=
      ⟨hfo.dev, hfo.stream, rfl, hfo.seq, hmt⟩
    have hp := parse_seg X.min ({ f with ver := ver, mt := mt } : EFrame) hh X.hdev X.hstream hver m hm
      hmo.wf hmo.len hs'
    have h0 : byteAt (EFrame.bytes X.min ({ f with ver := ver, mt := mt } : EFrame)) 0 = ver := by
      show (parseFrame (EFrame.bytes X.min ({ f with ver := ver, mt := mt } : EFrame))).ver = ver
      rw [hp]
    refine ⟨?_, by rw [bytes_length]; omega, by omega⟩
    have hat := sentOf_seg X hf hm hs
    have := Copy.seg (S := X.S) i _ ver mt hat
    rw [hseq] at this
    rw [hp]
    exact this

/-- the index of a copy is determined by the frame's counter -/
theorem copy_index (X : Setup) {g : PFrame} {i j : Nat} (hi : Copy X.S g i) (hj : Copy X.S g j) : i = j := by
  have h1 := hi.seq_eq
  have h2 := hj.seq_eq
  have hiN : i < X.S.N := by cases hi <;> exact lt_N_of_at _ _ _ ‹_›
  have hjN : j < X.S.N := by cases hj <;> exact lt_N_of_at _ _ _ ‹_›
  exact seq_inj X.S i j hiN hjN (h1.symm.trans h2)

/-! ### decoding the arrived buffers -/

theorem decode_arr (X : Setup) (arr : List Bytes) (harr : ∀ b ∈ arr, ∃ i, ArrP X.fs X.min b i) :
    (decodeAll tecmpDecode DecState.empty (arr.map some)).2 = (runLocal none (arr.map parseFrame)).2 := by
  rw [decodeAll_run tecmpDecode arr DecState.empty (by
    intro b hb
    obtain ⟨i, hi⟩ := harr b hb
    exact (arr_copy X hi).2)]
  have := run_local_ep X.S.ep (arr.map parseFrame) DecState.empty (by
    intro g hg
    obtain ⟨b, hb, rfl⟩ := List.mem_map.mp hg
    obtain ⟨i, hi⟩ := harr b hb
    exact (arr_copy X hi).1.ep_eq)
  have h2 := congrArg Prod.snd this
  simpa [DecState.empty] using h2

/-! ### the side condition -/

/-- the byte-level side condition in the vocabulary of this file -/
def SideP (X : Setup) (arr : List Bytes) : Prop :=
  ∀ b ∈ arr, ∀ b' ∈ arr, ∀ i i' f f' m m', ArrP X.fs X.min b i → ArrP X.fs X.min b' i' → i ≠ i' →
    X.fs[i]? = some f → X.fs[i']? = some f' → f.msgs = [m] → f'.msgs = [m'] → m.seg ≠ 0 → m'.seg ≠ 0 →
    m.idx = m'.idx → byteAt b 0 = byteAt b' 0 → byteAt b 4 = byteAt b' 4 →
    byteAt b 0 = X.v ∧ byteAt b 4 = f.mt

theorem side_of (X : Setup) (arr : List Bytes) (harr : ∀ b ∈ arr, ∃ i, ArrP X.fs X.min b i)
    (hside : SideP X arr) : Side X.S (arr.map parseFrame) := by
  intro g hg g' hg' i i' sf sf' hc hc' hat hat' huid hne hver hmt
  obtain ⟨b, hb, rfl⟩ := List.mem_map.mp hg
  obtain ⟨b', hb', rfl⟩ := List.mem_map.mp hg'
  obtain ⟨j, hj⟩ := harr b hb
  obtain ⟨j', hj'⟩ := harr b' hb'
  have e1 := copy_index X hc (arr_copy X hj).1
  have e2 := copy_index X hc' (arr_copy X hj').1
  subst e1 e2
  obtain ⟨f, ip, i0, k, x, hf, hip, hij, hrun, h2, hx, hfm, hfmt, rfl⟩ := sentOf_seg_inv X hat
  obtain ⟨f', ip', i0', k', x', hf', hip', hij', hrun', h2', hx', hfm', hfmt', rfl⟩ := sentOf_seg_inv X hat'
  have := hside b hb b' hb' i i' f f' _ _ hj hj' hne hf hf' hfm hfm' (segCode_ne_zero _ _)
    (segCode_ne_zero _ _) huid hver hmt
  exact ⟨this.1, this.2.trans hfmt⟩

/-! ### good packets are packets of the batch -/

theorem acc_run (X : Setup) {i0 : Nat} {ip : Nat × Packet} (hip : ip ∈ X.ib)
    (hrun : InRun X.c X.fs i0 ip) : ∀ j, j < (chunks (X.c.cap - 16) ip.2.data).length →
    X.S.acc i0 j = ((chunks (X.c.cap - 16) ip.2.data).take (j + 1)).flatten := by
  intro j
  induction j with
  | zero =>
    intro hj
    obtain ⟨x, hx⟩ : ∃ x, (chunks (X.c.cap - 16) ip.2.data)[0]? = some x :=
      ⟨_, List.getElem?_eq_getElem hj⟩
    have := sentOf_run X hip hrun 0 x hx
    rw [Nat.add_zero] at this
    rw [acc_zero X.S i0 _ this]
    simp only
    cases hc : chunks (X.c.cap - 16) ip.2.data with
    | nil => simp [hc] at hj
    | cons c0 cs =>
      rw [hc] at hx
      simp at hx
      simp [hx]
  | succ j ih =>
    intro hj
    obtain ⟨x, hx⟩ : ∃ x, (chunks (X.c.cap - 16) ip.2.data)[j + 1]? = some x :=
      ⟨_, List.getElem?_eq_getElem hj⟩
    have := sentOf_run X hip hrun (j + 1) x hx
    rw [← Nat.add_assoc] at this
    rw [acc_succ X.S i0 j _ this, ih (by omega)]
    simp only
    rw [List.take_add_one (i := j + 1), List.flatten_append, hx]
    simp

theorem mem_batch (X : Setup) {f : EFrame} {m : EMsg} (hf : f ∈ X.fs) (hm : m ∈ f.msgs) :
    ∃ ip ∈ X.ib, m.pkt = ip.2 := by
  have : m ∈ X.fs.flatMap (·.msgs) := List.mem_flatMap.mpr ⟨f, hf, hm⟩
  rw [X.hflat] at this
  obtain ⟨ip, hip, hmp⟩ := List.mem_flatMap.mp this
  exact ⟨ip, hip, (pieces_mem X.c X.hcap _ _ m hmp).1⟩

theorem good_obs (X : Setup) (batch : List Packet) (hb : ∀ ip ∈ X.ib, ip.2 ∈ batch) (o : Packet)
    (h : Good X.S o) : clearSeg o ∈ batch.map (obsSent X.dev X.stream) := by
  rcases h with ⟨i, pkts, t, hat, ho⟩ | ⟨i0, sf, hat, hk, rfl⟩
  · obtain ⟨f, hf, hall, rfl, _⟩ := sentOf_unseg_inv X hat
    have hfo := X.hg.1 f (frame_mem X hf)
    obtain ⟨t', _, hp⟩ := parse_unseg X.min f hfo.toHdrOk X.hdev X.hstream X.hv
      (fun m hm => ⟨(hfo.msgs m hm).wf, hfo.mts m hm, hall m hm, (hfo.msgs m hm).whole (hall m hm)⟩)
    unfold PF at ho
    rw [hp] at ho
    simp only [List.mem_map] at ho
    obtain ⟨m, hm, rfl⟩ := ho
    obtain ⟨ip, hip, hpk⟩ := mem_batch X (frame_mem X hf) hm
    rw [hpk]
    have := clearSeg_dec X.dev X.stream ip.2 (X.hwf ip hip) 0 (Or.inl rfl)
    rw [X.hver ip hip] at this
    exact List.mem_map.mpr ⟨ip.2, hb ip hip, this.symm⟩
  · obtain ⟨f, ip, i0', j, x, hf, hip, hij, hrun, h2, hx, hfm, hfmt, rfl⟩ := sentOf_seg_inv X hat
    simp only at hk
    subst hk
    have hi0 : i0' = i0 := by omega
    subst hi0
    have hp := X.hwf ip hip
    have hd := wf_data hp
    have hn : 0 < X.c.cap - 16 := by have := X.hcap; omega
    have hacc := acc_run X hip hrun ((chunks (X.c.cap - 16) ip.2.data).length - 1) (by omega)
    rw [show (chunks (X.c.cap - 16) ip.2.data).length - 1 + 1 = (chunks (X.c.cap - 16) ip.2.data).length by omega,
      List.take_length, chunks_flatten _ hn] at hacc
    have hexp : X.S.expected i0' ⟨X.v, ip.2.mt, ip.1, 0, (chunks (X.c.cap - 16) ip.2.data).length,
        msgHeader ip.2 (segCode 0 (chunks (X.c.cap - 16) ip.2.data).length) x.length, x⟩ =
        dec X.dev X.stream X.v ip.2 4 := by
      unfold SStream.expected
      simp only [hacc, segCode_zero]
      rw [fixLen_append _ _ (msgHeader_length ..), msgHeader_14, List.take_left' (hdr14_length ip.2 4),
        lenField_small _ hd.2]
      have := ofMsg_obs hp (seg := 4) (by simp) []
      rw [List.append_nil] at this
      rw [this]
      rfl
    rw [hexp]
    have := clearSeg_dec X.dev X.stream ip.2 hp 4 (Or.inr rfl)
    rw [X.hver ip hip] at this
    exact List.mem_map.mpr ⟨ip.2, hb ip hip, this.symm⟩

/-- C06 on bytes, in the vocabulary of this file -/
theorem bytes_safe (X : Setup) (batch : List Packet) (hb : ∀ ip ∈ X.ib, ip.2 ∈ batch) (arr : List Bytes)
    (harr : ∀ b ∈ arr, ∃ i, ArrP X.fs X.min b i) (hside : SideP X arr) :
    ∀ p ∈ (decodeAll tecmpDecode DecState.empty (arr.map some)).2,
      clearSeg p ∈ batch.map (obsSent X.dev X.stream) := by
  intro p hp
  rw [decode_arr X arr harr] at hp
  have hcopy : ∀ g ∈ arr.map parseFrame, ∃ i, Copy X.S g i := by
    intro g hg
    obtain ⟨b, hb', rfl⟩ := List.mem_map.mp hg
    obtain ⟨i, hi⟩ := harr b hb'
    exact ⟨i, (arr_copy X hi).1⟩
  exact good_obs X batch hb p (C06_no_corruption X.S _ (side_of X arr harr hside) hcopy p hp)

end AsamCmp.C06b
