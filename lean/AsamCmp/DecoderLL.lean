/-
  Low-level decoder model: a transcription of `Decoder::decode` and `Decoder::SegmentedPacket`
  (src/decoder.cpp, post-repair) with the pending table as an association list that supports the
  operations the C++ uses on its `unordered_map` — `erase`, `operator[]` (which INSERTS a
  default-constructed entry on lookup), assignment — the message loop over a read position and the
  remaining size (a `std::size_t`, a `Nat` here), and `SegmentedPacket` with its five members.  `Props/C17b.lean` proves that
  it refines the decoder model of Decoder.lean (function state, `localStep`), in particular that the
  default entry `operator[]` creates for an orphan segment never survives a call.
-/
import AsamCmp.Tecmp
namespace AsamCmp

/-- `Decoder::SegmentedPacket` -/
structure SegPkt where
  payload : Bytes := []
  /-- `segmentType`: 0 unsegmented (default), 4 first, 8 intermediary, 12 last -/
  segType : Nat := 0
  ver : Nat := 0
  mt : Nat := 0
  seq : Nat := 0
deriving Repr, DecidableEq, Inhabited

abbrev Table := List (Ep × SegPkt)

namespace Table
def erase (t : Table) (k : Ep) : Table := t.filter (fun x => x.1 != k)
def find (t : Table) (k : Ep) : Option SegPkt := (t.find? (fun x => x.1 == k)).map (·.2)
def set (t : Table) (k : Ep) (v : SegPkt) : Table := (k, v) :: t.erase k
/-- `operator[]`: the entry, default-inserted when absent -/
def index (t : Table) (k : Ep) : Table × SegPkt :=
  match t.find k with
  | some v => (t, v)
  | none => (t.set k {}, {})
end Table

/-- `SegmentedPacket::isValidSegmentType` -/
def isValidSegmentTypeLL (cur t : Nat) : Bool :=
  if cur = 0 ∨ cur = 12 then t = 0 ∨ t = 4
  else if cur = 4 ∨ cur = 8 then t = 8 ∨ t = 12
  else false

/-- `SegmentedPacket(data, size, version, messageType, sequenceCounter)`: copies
    `min(size, 16 + declared length)` bytes -/
def SegPkt.first (data : Bytes) (ver mt seq : Nat) : SegPkt :=
  { payload := data.take (Nat.min data.length (16 + beAt data 14 2)), segType := 4, ver := ver, mt := mt, seq := seq }

/-- `SegmentedPacket::addSegment(data, size, version, messageType, sequenceCounter)` -/
def SegPkt.addSegment (sp : SegPkt) (data : Bytes) (ver mt seq : Nat) : SegPkt × Bool :=
  if sp.ver ≠ ver ∨ sp.mt ≠ mt ∨ seq ≠ (sp.seq + 1) % 65536 then (sp, false)
  else
    let n := beAt data 14 2
    if n > data.length - 16 then (sp, false)
    else
      let t := byteAt data 12 &&& 0x0C
      if !isValidSegmentTypeLL sp.segType t then (sp, false)
      else
        let payload := sp.payload ++ slice data 16 n
        -- getHeader()->setPayloadLength(static_cast<uint16_t>(payload.size()) - sizeof(MessageHeader))
        let payload := writeAt payload 14 (beEnc 2 ((payload.length % 65536 + 65536 - 16) % 65536))
        ({ sp with payload := payload, seq := (sp.seq + 1) % 65536, segType := t }, true)

/-- `SegmentedPacket::getPacket()` -/
def SegPkt.getPacket (sp : SegPkt) : Packet := { Packet.ofMsg sp.mt sp.payload with version := sp.ver }

/-- the `while (curSize > 0)` loop of `Decoder::decode`: `pos` is `packetPtr - data`, `cur` the
    remaining size (the subtraction never truncates: a valid message fits), `fuel` bounds the iterations -/
def decodeLoopLL (b : Bytes) (dev stream ver mt seq : Nat) : Nat → Table → Nat → Nat → List Packet → Table × List Packet
  | 0, t, _, _, acc => (t, acc)
  | fuel+1, t, pos, cur, acc =>
    if cur = 0 then (t, acc)
    else
      let r := slice b pos cur                      -- (packetPtr, curSize)
      let k : Ep := (dev, stream)
      if !msgValid r then (t.erase k, acc)
      else if (byteAt r 12 &&& 0x0C) = 0 then
        let t := t.erase k
        let p := tagPacket k ver (Packet.ofMsg mt r)
        let sz := p.payloadLength + 16
        decodeLoopLL b dev stream ver mt seq fuel t (pos + sz) (cur - sz) (acc ++ [p])
      else if (byteAt r 12 &&& 0x0C) = 4 then
        (t.set k (SegPkt.first r ver mt seq), acc)
      else
        let (t, sp) := t.index k
        let (sp', ok) := sp.addSegment r ver mt seq
        if !ok then (t.erase k, acc)
        else
          let t := t.set k sp'
          -- segmentedPackets[{deviceId, streamId}].isAssembled()
          let (t, sp2) := t.index k
          if sp2.segType = 12 then
            let p := tagPacket k sp2.ver sp2.getPacket
            (t.erase k, acc ++ [{ p with version := sp2.ver }])
          else (t, acc)

/-- `Decoder::decode(data, size)` -/
def decodeLL (t : Table) (buf : Option Bytes) : Table × List Packet :=
  match buf with
  | none => (t, [])
  | some b =>
    if b.length < 8 then (t, [])
    else if byteAt b 0 = 0 then (t, tecmpDecode b)
    else
      let dev := beAt b 2 2
      let stream := byteAt b 5
      let cur := b.length - 8
      let t := if cur = 0 then t.erase (dev, stream) else t
      decodeLoopLL b dev stream (byteAt b 0) (byteAt b 4) (beAt b 6 2) (cur / 16 + 2) t 8 cur []

/-- the function-state view of a table -/
def Table.abs (t : Table) : DecState :=
  fun e => (t.find e).map fun sp => ⟨sp.payload, sp.segType, sp.ver, sp.mt, sp.seq⟩

end AsamCmp
