/-
  Low-level encoder model: a line-by-line transcription of src/encoder.cpp (post-repair), with the
  frames as byte vectors allocated at `max` bytes from the template, the free-byte counter
  `bytesLeft`, headers and payload slices copied to offset `size - bytesLeft`, and frames trimmed /
  zero-padded by `resize(max(size - bytesLeft, min))` when closed.  `Props/C07b.lean` proves that, on
  the domain of the properties, it computes exactly the serialisation of the structured model
  (`Encoder.lean`) that all encoder theorems are about.
-/
import AsamCmp.Encoder
namespace AsamCmp

structure EncLL where
  min : Nat := 0
  max : Nat := 0
  dev : Nat := 0
  stream : Nat := 0
  /-- `cmpFrameTemplate`: empty, or `max` bytes (header + zeros) -/
  tmpl : Bytes := []
  bytesLeft : Nat := 0
  /-- `sequenceCounter` (uint16) -/
  seqc : Nat := 0
  /-- `messageType` -/
  mt : Nat := 0
  /-- `cmpFrames`; the last one is the frame being filled -/
  frames : List Bytes := []
deriving Repr, Inhabited

namespace EncLL

/-- replace the last frame -/
def setLast (s : EncLL) (f : Bytes) : EncLL := { s with frames := s.frames.dropLast ++ [f] }

/-- `closeLastFrame()` -/
def closeLastFrame (s : EncLL) : EncLL :=
  match s.frames.getLast? with
  | none => s
  | some f =>
    if s.bytesLeft = s.max - 8 then
      -- the frame holds no message: drop it and give its sequence counter back
      { s with frames := s.frames.dropLast, seqc := (s.seqc + 65535) % 65536 }
    else
      s.setLast (resize f (Nat.max (f.length - s.bytesLeft) s.min))

/-- `createCmpFrameTemplate(packet)`: `max` zero bytes, the packet's raw frame header, then the
    encoder's device and stream id -/
def createTemplate (s : EncLL) (p : Packet) : Bytes :=
  let t := zeros s.max
  let t := writeAt t 0 (frameHeader (p.version % 256) p.deviceId p.mt p.streamId p.seq)
  let t := writeAt t 2 (beEnc 2 s.dev)
  writeAt t 5 [UInt8.ofNat s.stream]

/-- `addNewCMPFrame(packet)` -/
def addNewCMPFrame (s : EncLL) (p : Packet) : EncLL :=
  let s := s.closeLastFrame
  let s := if s.tmpl.isEmpty then { s with tmpl := s.createTemplate p } else s
  let q := (s.seqc + 1) % 65536
  { s with frames := s.frames ++ [writeAt s.tmpl 6 (beEnc 2 q)], seqc := q, bytesLeft := s.max - 8 }

/-- `setMessageType(packet)` -/
def setMessageType (s : EncLL) (p : Packet) : EncLL :=
  ({ s with mt := p.mt, tmpl := [] } : EncLL).addNewCMPFrame p

/-- `addNewDataHeader(packet, bytesToAdd, flag)` -/
def addNewDataHeader (s : EncLL) (p : Packet) (n seg : Nat) : EncLL :=
  match s.frames.getLast? with
  | none => s
  | some f =>
    let pos := f.length - s.bytesLeft
    let hdr := msgHeader p (p.flags % 256 &&& 0x0C) p.payloadLength     -- getRawMessageHeader
    let hdr := writeAt hdr 14 (beEnc 2 n)                                 -- setPayloadLength(bytesToAdd)
    let hdr := writeAt hdr 12 [UInt8.ofNat ((byteAt hdr 12 &&& 0xF3) ||| seg)]   -- setSegmentType(flag)
    { (s.setLast (writeAt f pos hdr)) with bytesLeft := s.bytesLeft - 16 }

/-- `checkIfSegmented(packet)` -/
def checkIfSegmented (s : EncLL) (p : Packet) : EncLL × Bool :=
  let seg := !s.frames.isEmpty && decide (s.bytesLeft < 16 + p.payloadLength)
  if seg then
    let s := s.addNewCMPFrame p
    (s, !s.frames.isEmpty && decide (s.bytesLeft < 16 + p.payloadLength))
  else (s, false)

/-- `buildSegmentationFlag` -/
def segFlag (isSeg : Bool) (segInd n len pos : Nat) : Nat :=
  if isSeg then (if segInd = 0 then 4 else if pos + n = len then 12 else 8) else 0

/-- the `while (currentPayloadPos < payloadLength)` loop of `putPacket`; `fuel` bounds the
    iterations (each one adds at least one byte when `max ≥ 25`) -/
def putLoop (p : Packet) (isSeg : Bool) : Nat → EncLL → Nat → Nat → EncLL
  | 0, s, _, _ => s
  | fuel+1, s, pos, segInd =>
    let len := p.payloadLength
    if ¬ pos < len then s
    else
      let s := if s.bytesLeft < 16 then s.addNewCMPFrame p else s
      let n := Nat.min (s.bytesLeft - 16) (len - pos)
      let flag := segFlag isSeg segInd n len pos
      let s := s.addNewDataHeader p n flag
      let s :=
        match s.frames.getLast? with
        | none => s
        | some f => s.setLast (writeAt f (f.length - s.bytesLeft) (slice p.data pos n))   -- memcpy of the payload slice
      let s := { s with bytesLeft := s.bytesLeft - n }
      let s := if flag = 12 then s.addNewCMPFrame p else s
      putLoop p isSeg fuel s (pos + n) (segInd + 1)

/-- `putPacket(packet)` -/
def putPacket (s : EncLL) (p : Packet) : EncLL :=
  let s := if s.frames.isEmpty || s.mt != p.mt then s.setMessageType p else s
  let r := s.checkIfSegmented p
  putLoop p r.2 (p.payloadLength + 1) r.1 0 0

/-- `clearEncodingMetadata(false)` + `init(ctx)` -/
def init (s : EncLL) (c : Ctx) : EncLL :=
  { s with bytesLeft := 0, frames := [], tmpl := [], min := c.min, max := c.max }

/-- `encode(begin, end, ctx)`: returns the encoder afterwards and the frames -/
def encode (s : EncLL) (batch : List Packet) (c : Ctx) : EncLL × List Bytes :=
  let s := batch.foldl putPacket (s.init c)
  let s := s.closeLastFrame
  ({ s with bytesLeft := 0, frames := [], tmpl := [] }, s.frames)

end EncLL

/-- the low-level state that corresponds to a structured encoder between calls -/
def Enc.toLL (e : Enc) : EncLL := { dev := e.dev, stream := e.stream, seqc := e.seqc, mt := e.curMt }

end AsamCmp
