/-
  Payload builders (`setData` of every payload class) and default-constructed objects, as byte
  string transformers.  `b` is the object's `payloadData` before the call.
-/
import AsamCmp.Packet
namespace AsamCmp

/-- `CanPayloadBase::encodeDlc`: a CAN FD data field holds 12, 16, 20, 24, 32, 48 or 64 bytes (DLC 9..15); a length between two
    steps gets the code of the next larger one -/
def dlcOf (n : Nat) : Nat :=
  if n ≤ 8 then n
  else if n ≤ 12 then 9 else if n ≤ 16 then 10 else if n ≤ 20 then 11 else if n ≤ 24 then 12
  else if n ≤ 32 then 13 else if n ≤ 48 then 14 else 15

/-- `Payload::setData<Header>` : resize to header + n, copy the data behind the header -/
def setTail (hdr : Nat) (b : Bytes) (d : Bytes) : Bytes := (resize b hdr).take hdr ++ d

def canSetData (b d : Bytes) : Bytes :=
  writeAt (setTail 16 b d) 14 [UInt8.ofNat (dlcOf (d.length % 256)), UInt8.ofNat d.length]

def linSetData (b d : Bytes) : Bytes := writeAt (setTail 8 b d) 7 [UInt8.ofNat d.length]

def ethSetData (b d : Bytes) : Bytes := writeAt (setTail 6 b d) 4 (beEnc 2 d.length)

def analogSetData (b d : Bytes) : Bytes := setTail 16 b d

/-- `fillWithString`: 16-bit length (text + NUL, rounded up to even), text, NULs -/
def cmString (s : Bytes) : Bytes :=
  let n := s.length + 1
  let n := n + n % 2
  beEnc 2 n ++ s ++ zeros (n - s.length)

def cmSetData (b desc serial hw sw vendor : Bytes) : Bytes :=
  (resize b 26).take 26 ++ cmString desc ++ cmString serial ++ cmString hw ++ cmString sw ++ beEnc 2 vendor.length ++ vendor

def ifSetData (b ids vendor : Bytes) : Bytes :=
  (resize b 36).take 36 ++ beEnc 2 ids.length ++ ids ++ zeros (ids.length % 2) ++ beEnc 2 vendor.length ++ vendor

/-! default-constructed payload objects -/
def canDefault : Bytes := zeros 16
def linDefault : Bytes := zeros 8
def ethDefault : Bytes := zeros 6
def analogDefault : Bytes := zeros 16
def cmDefault : Bytes := zeros 36
def ifDefault : Bytes := zeros 40

/-- decimal digits of a number, as bytes (`std::to_string`) -/
def decimal (n : Nat) : Bytes := (toString n).toList.map fun c => UInt8.ofNat c.toNat

end AsamCmp
