/-
  Accessors of the typed payload classes with explicit bounds tracking (C03).
  Every read of payload memory goes through a checked read (`rd`, `rdByte`); `none` means the C++
  accessor would read outside the payload's own bytes.  A view is what the accessor reports:
  offset relative to the payload start (`none` = null pointer) and length in bytes.
-/
import AsamCmp.Packet
namespace AsamCmp

structure View where
  name : String
  /-- `none`: the accessor returned a null pointer -/
  off : Option Nat
  len : Nat
deriving Repr, DecidableEq, Inhabited

/-- the view lies inside a payload of `n` bytes -/
def View.inBounds (v : View) (n : Nat) : Bool :=
  match v.off with
  | none => true
  | some o => o + v.len ≤ n

/-- checked big-endian read of `w` bytes at `pos` -/
def rd (b : Bytes) (pos w : Nat) : Option Nat :=
  if pos + w ≤ b.length then some (beAt b pos w) else none

/-- `getData()`-style view: null when the length is 0 -/
def dataView (name : String) (off len : Nat) : View := ⟨name, if len = 0 then none else some off, len⟩

def canAccess (b : Bytes) : Option (List View) := do
  let _ ← rd b 0 16               -- the header getters read the 16 header bytes
  let n ← rd b 15 1
  pure [dataView "data" 16 n]

def linAccess (b : Bytes) : Option (List View) := do
  let _ ← rd b 0 8
  let n ← rd b 7 1
  pure [dataView "data" 8 n]

def ethAccess (b : Bytes) : Option (List View) := do
  let _ ← rd b 0 6
  let n ← rd b 4 2
  pure [dataView "data" 6 n]

def analogAccess (b : Bytes) : Option (List View) := do
  let _ ← rd b 0 16
  let dt ← rd b 1 1
  let sz := b.length - 16
  let width := if dt &&& 3 = 0 then 2 else 4
  let cnt := sz / width
  pure [⟨"samples", if cnt = 0 then none else some 16, cnt * width⟩]

/-- `initStringView`: read the 16-bit length at `pos`; the view is the `len` bytes behind it -/
def cmBlock (b : Bytes) (pos : Nat) : Option (Nat × Nat × Nat) := do
  let l ← rd b pos 2
  pure (pos + 2, l, pos + 2 + l)

/-- `removeTrailingNulls`: scan the view for the first NUL (reads the view's bytes) -/
def trimNul (b : Bytes) (off len : Nat) : Option Nat :=
  if off + len ≤ b.length then
    some ((slice b off len).takeWhile (· != 0)).length
  else none

def cmAccess (b : Bytes) : Option (List View) := do
  let _ ← rd b 0 26
  let (o1, l1, p1) ← cmBlock b 26
  let t1 ← trimNul b o1 l1
  let (o2, l2, p2) ← cmBlock b p1
  let t2 ← trimNul b o2 l2
  let (o3, l3, p3) ← cmBlock b p2
  let t3 ← trimNul b o3 l3
  let (o4, l4, p4) ← cmBlock b p3
  let t4 ← trimNul b o4 l4
  let (o5, l5, _) ← cmBlock b p4
  pure [⟨"deviceDescription", some o1, t1⟩, ⟨"serialNumber", some o2, t2⟩, ⟨"hardwareVersion", some o3, t3⟩,
        ⟨"softwareVersion", some o4, t4⟩, ⟨"vendorData", some o5, l5⟩]

def ifAccess (b : Bytes) : Option (List View) := do
  let _ ← rd b 0 36
  let c ← rd b 36 2
  let cp := c + c % 2                  -- padded to even (computed in size_t since the repair of the 16-bit wrap)
  let vpos := 38 + cp
  let vl ← rd b vpos 2
  pure [dataView "streamIds" 38 c, dataView "vendorData" (vpos + 2) vl]

/-- validator and accessor set of a typed payload kind -/
def kindValid (k : String) : Option (Bytes → Bool) :=
  if k == "can" || k == "canfd" then some canValid
  else if k == "lin" then some linValid
  else if k == "eth" then some ethValid
  else if k == "analog" then some analogValid
  else if k == "cm" then some cmValid
  else if k == "if" then some ifValid
  else none

def kindAccess (k : String) : Option (Bytes → Option (List View)) :=
  if k == "can" || k == "canfd" then some canAccess
  else if k == "lin" then some linAccess
  else if k == "eth" then some ethAccess
  else if k == "analog" then some analogAccess
  else if k == "cm" then some cmAccess
  else if k == "if" then some ifAccess
  else none

def kindOfTy (ty : Nat) : Option String :=
  if ty = tyCan then some "can" else if ty = tyCanFd then some "canfd" else if ty = tyLin then some "lin"
  else if ty = tyAnalog then some "analog" else if ty = tyEth then some "eth" else if ty = tyCm then some "cm"
  else if ty = tyIf then some "if" else none

def showView (v : View) : String :=
  match v.off with
  | none => s!"{v.name}=null:{v.len}"
  | some o => s!"{v.name}={o}:{v.len}"

end AsamCmp
