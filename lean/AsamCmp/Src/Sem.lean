/-
  Semantics of the C++ subset that vlib/srctrans.py translates (hand-written; trusted together with the translator).

  * A scalar of a C integer type with `b` bits is its BIT PATTERN, a `Nat` below `2^b` (two's complement for signed types).
  * Memory is one byte array; pointers are indices into it; the host is little-endian, so a `w`-byte member at address `a`
    holds `leAt m a w`.  A read or write that is not entirely inside the array is undefined: `none`.
  * Unsigned arithmetic wraps; signed arithmetic, shifts and division are undefined (`none`) exactly where ISO C++17 says so
    (signed overflow; shift count ≥ width; left shift of a negative value or past the sign bit; division by zero).
-/
import AsamCmp.Bytes
namespace AsamCmp.Src
open AsamCmp

/-- little-endian value of a byte list -/
def leDec : Bytes → Nat
  | [] => 0
  | b :: bs => b.toNat + 256 * leDec bs

/-- little-endian encoding of `v` in `w` bytes (truncating) -/
def leEnc : Nat → Nat → Bytes
  | 0, _ => []
  | w + 1, v => UInt8.ofNat (v % 256) :: leEnc w (v / 256)

/-- value of the `w`-byte object at address `a` -/
def leAt (m : Bytes) (a w : Nat) : Nat := leDec (slice m a w)

/-- scalar read; outside the array: undefined -/
def rd (m : Bytes) (a w : Nat) : Option Nat := if a + w ≤ m.length then some (leAt m a w) else none

/-- scalar write; outside the array: undefined -/
def wr (m : Bytes) (a w v : Nat) : Option Bytes := if a + w ≤ m.length then some (writeAt m a (leEnc w v)) else none

def uadd (b x y : Nat) : Nat := (x + y) % 2 ^ b
def usub (b x y : Nat) : Nat := (x + 2 ^ b - y) % 2 ^ b
def umul (b x y : Nat) : Nat := (x * y) % 2 ^ b
def bnot (b x : Nat) : Nat := 2 ^ b - 1 - x

/-- the integer a signed bit pattern stands for -/
def toInt (b x : Nat) : Int := if x < 2 ^ (b - 1) then (x : Int) else (x : Int) - (2 ^ b : Nat)

/-- bit pattern of an integer if it is representable in `b` bits signed -/
def ofInt (b : Nat) (i : Int) : Option Nat :=
  if -((2 ^ (b - 1) : Nat) : Int) ≤ i ∧ i < ((2 ^ (b - 1) : Nat) : Int) then some (i % ((2 ^ b : Nat) : Int)).toNat else none

def sadd (b x y : Nat) : Option Nat := ofInt b (toInt b x + toInt b y)
def ssub (b x y : Nat) : Option Nat := ofInt b (toInt b x - toInt b y)
def smul (b x y : Nat) : Option Nat := ofInt b (toInt b x * toInt b y)
def sneg (b x : Nat) : Option Nat := ofInt b (- toInt b x)
def slt (b x y : Nat) : Bool := decide (toInt b x < toInt b y)
def sle (b x y : Nat) : Bool := decide (toInt b x ≤ toInt b y)
/-- sign extension from `fb` to `tb` bits -/
def sext (fb tb x : Nat) : Nat := if x < 2 ^ (fb - 1) then x else x + 2 ^ tb - 2 ^ fb
/-- a signed value used as an index / pointer offset must not be negative -/
def nonneg (b x : Nat) : Option Nat := if x < 2 ^ (b - 1) then some x else none
def psub (p n : Nat) : Option Nat := if n ≤ p then some (p - n) else none

def udiv (_b x y : Nat) : Option Nat := if y = 0 then none else some (x / y)
def umod (_b x y : Nat) : Option Nat := if y = 0 then none else some (x % y)
def sdiv (b x y : Nat) : Option Nat := if y = 0 then none else ofInt b (Int.tdiv (toInt b x) (toInt b y))
def smod (b x y : Nat) : Option Nat := if y = 0 then none else ofInt b (Int.tmod (toInt b x) (toInt b y))

/-- `x << n` at an unsigned type -/
def ushl (b x n : Nat) : Option Nat := if n < b then some ((x <<< n) % 2 ^ b) else none
/-- `x >> n` at an unsigned type -/
def ushr (b x n : Nat) : Option Nat := if n < b then some (x >>> n) else none
/-- `x << n` at a signed type: defined for a non-negative `x` whose shifted value is representable -/
def sshl (b x n : Nat) : Option Nat := if n < b ∧ x < 2 ^ (b - 1) ∧ x <<< n < 2 ^ (b - 1) then some (x <<< n) else none
/-- `x >> n` at a signed type: defined here for non-negative `x` only (negative: implementation-defined, not used) -/
def sshr (b x n : Nat) : Option Nat := if n < b ∧ x < 2 ^ (b - 1) then some (x >>> n) else none

/-- `memcpy(dst, src, n)` with the destination in memory and the source a separate byte list (a caller's buffer, the bytes of a local
    variable, a constant array): undefined unless `n` bytes are readable in the source and writable at the destination -/
def wrBytes (m : Bytes) (a : Nat) (src : Bytes) (n : Nat) : Option Bytes :=
  if n ≤ src.length ∧ a + n ≤ m.length then some (writeAt m a (src.take n)) else none

/-- `std::string_view::find(c)` on the view `(p, n)`: index of the first byte equal to `c`, or `npos`; the whole view must be readable
    (the library implementation stops at the first match; requiring the whole view is the conservative reading) -/
def svFind (m : Bytes) (sv : Nat × Nat) (c : Nat) : Option Nat :=
  if sv.1 + sv.2 ≤ m.length then
    let s := slice m sv.1 sv.2
    let k := (s.takeWhile (fun b => b.toNat != c)).length
    some (if k < sv.2 then k else 18446744073709551615)
  else none

/-- `std::string_view::remove_suffix(k)`: undefined for `k > size()` -/
def svRemoveSuffix (sv : Nat × Nat) (k : Nat) : Option (Nat × Nat) := if k ≤ sv.2 then some (sv.1, sv.2 - k) else none

end AsamCmp.Src
