/-
  Primitives for the translated methods of stateful classes (vlib/srcobj.py): lists of byte vectors and the opaque view of a
  `const Packet&` argument.
-/
import AsamCmp.Src.Sem
namespace AsamCmp.Src
open AsamCmp

/-- what the encoder reads from a `const Packet&`: its message type and payload length, the payload bytes, and the bytes that
    `getRawCmpHeader` (8) and `getRawMessageHeader` (16) produce -/
structure PktIn where
  messageType : Nat
  payloadLength : Nat
  rawPayload : Bytes
  rawCmpHeader : Bytes
  rawMsgHeader : Bytes
deriving Repr, Inhabited

/-- `v.back()` (the caller has checked non-emptiness with `nonEmpty`) -/
def lastD (l : List Bytes) : Bytes := l.getLastD []

/-- assignment through `v.back()` -/
def setLast (l : List Bytes) (b : Bytes) : List Bytes := l.dropLast ++ [b]

/-- `back()` / `pop_back()` on an empty vector is undefined -/
def nonEmpty (l : List Bytes) : Option Unit := if l.isEmpty then none else some ()

/-- a packet as the decoder produces it: `std::make_shared<Packet>(messageType, data, size)` followed by the three setters the
    decoder calls.  CONTRACT of the (untranslated) `Packet` constructor, stated here: it reads the 16 message-header bytes at `data` and
    the declared number of payload bytes behind them (undefined if they are not there) and ignores `size`; what it makes of them is
    `Packet.ofMsg` of the packet model — `msg` keeps exactly the bytes it read -/
structure PktOut where
  mt : Nat
  msg : Bytes
  version : Nat := 1
  deviceId : Nat := 0
  streamId : Nat := 0
deriving Repr, Inhabited, DecidableEq

def mkPacket (mt : Nat) (src : Bytes) : Option PktOut :=
  if 16 ≤ src.length ∧ 16 + beAt src 14 2 ≤ src.length then some { mt := mt, msg := src.take (16 + beAt src 14 2) } else none

/-- `packet->getPayloadLength()` of such a packet: the declared length -/
def pktPayloadLength (p : PktOut) : Nat := beAt p.msg 14 2

/-- `std::unordered_map<Endpoint, T>` as an association list (one entry per key) -/
abbrev SMap (α : Type) := List ((Nat × Nat) × α)
def mapErase (m : SMap α) (k : Nat × Nat) : SMap α := m.filter (fun x => x.1 != k)
def mapFind (m : SMap α) (k : Nat × Nat) : Option α := (m.find? (fun x => x.1 == k)).map (·.2)
/-- assignment to the entry of `k` (which exists after `operator[]`) -/
def mapPut (m : SMap α) (k : Nat × Nat) (v : α) : SMap α := (k, v) :: mapErase m k
/-- `operator[]`: the entry, default-inserted when absent -/
def mapIndex (m : SMap α) (k : Nat × Nat) (d : α) : SMap α × α :=
  match mapFind m k with
  | some v => (m, v)
  | none => (mapPut m k d, d)

/-- `memcpy(dest, &object, n)` into a caller's buffer: the `n` bytes copied (undefined if the object is shorter) -/
def takeExact (b : Bytes) (n : Nat) : Option Bytes := if n ≤ b.length then some (b.take n) else none

/-! ### status tracker: vectors of objects, stored packets -/

/-- a `Packet` as the status tracker sees it: OPAQUE — the table of the values its getter chains return
    (`"getDeviceId"`, `"getPayload.getType"`, `"getPayload.as_InterfacePayload.getInterfaceId"`); copying a packet copies the table -/
abbrev OPkt := List (String × Nat)
def opq (p : OPkt) (key : String) : Nat := (p.lookup key).getD 0
/-- a default-constructed `Packet` (device id 0; its payload is never asked for) -/
def defaultPacket : OPkt := []

/-- `std::distance(v.begin(), std::find_if(v.begin(), v.end(), pred))`: index of the first match, or the size -/
def findIdxD {α} (f : α → Bool) : List α → Nat
  | [] => 0
  | x :: xs => if f x then 0 else findIdxD f xs + 1

/-- `v[i]` on a vector of objects: undefined outside the vector -/
def getIdx {α} (l : List α) (i : Nat) : Option α := l[i]?
/-- `std::swap(v[i], v[j])`: undefined outside the vector -/
def swapIdx {α} (l : List α) (i j : Nat) : Option (List α) :=
  match l[i]?, l[j]? with
  | some a, some b => some ((l.set i b).set j a)
  | _, _ => none
def nonEmptyL {α} (l : List α) : Option Unit := if l.isEmpty then none else some ()

end AsamCmp.Src
