/-
  Primitives for the translated methods of stateful classes (vlib/srcobj.py): lists of byte vectors and the opaque view of a
  `const Packet&` argument.
-/
import AsamCmp.Src.Sem
namespace AsamCmp.Src
open AsamCmp

/-- what the encoder reads from a `const Packet&`: its message type and payload length, the payload bytes, and the bytes that
    `getRawCmpHeader` (8) and `getRawMessageHeader` (16) produce -/
structure PktIn where
  messageType : Nat
  payloadLength : Nat
  rawPayload : Bytes
  rawCmpHeader : Bytes
  rawMsgHeader : Bytes
deriving Repr, Inhabited

/-- `v.back()` (the caller has checked non-emptiness with `nonEmpty`) -/
def lastD (l : List Bytes) : Bytes := l.getLastD []

/-- assignment through `v.back()` -/
def setLast (l : List Bytes) (b : Bytes) : List Bytes := l.dropLast ++ [b]

/-- `back()` / `pop_back()` on an empty vector is undefined -/
def nonEmpty (l : List Bytes) : Option Unit := if l.isEmpty then none else some ()

/-- `memcpy(dest, &object, n)` into a caller's buffer: the `n` bytes copied (undefined if the object is shorter) -/
def takeExact (b : Bytes) (n : Nat) : Option Bytes := if n ≤ b.length then some (b.take n) else none

end AsamCmp.Src
