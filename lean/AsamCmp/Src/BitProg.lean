/-
  Straight-line bit programs: the second output format of vlib/srctrans.py for the field accessors of the wire records
  (getters / setters of the header classes).  A program is a list of SSA operations over the object at address `this`;
  `run` is its concrete meaning (same primitives as Src/Sem.lean, so `none` = undefined behaviour), `symRun` evaluates it on
  SYMBOLIC bits (every bit of every value is 0, 1, a bit of a byte of the object, or a bit of an argument) and fails whenever a
  result bit would not be of that form or an operation could be undefined.  `symRun_sound` (Lemmas/BitProgSound.lean) says the
  symbolic result describes the concrete one for EVERY memory content and argument value, which turns "this setter writes
  exactly the field's bits" into a decidable check on the program (Props/SrcFields.lean).
-/
import AsamCmp.Src.Sem
import AsamCmp.Fields
namespace AsamCmp.Src.Bit
open AsamCmp AsamCmp.Src

/-- operations; operands `a b` are indices of earlier values (every operation appends one value, `wr` appends 0) -/
inductive Op
  | rd (off w : Nat)            -- little-endian read of the `w`-byte member at `this + off`
  | arg (k : Nat)               -- k-th argument (a bit pattern)
  | const (c : Nat)
  | band (a b : Nat) | bor (a b : Nat) | bxor (a b : Nat)
  | bnot (bits a : Nat)
  | trunc (bits a : Nat)        -- conversion to a narrower unsigned type
  | sext (fb tb a : Nat)        -- sign extension
  | ushl (bits a n : Nat) | sshl (bits a n : Nat) | ushr (bits a n : Nat) | sshr (bits a n : Nat)   -- literal shift counts
  | wr (off w a : Nat)          -- store of the `w`-byte member at `this + off`
deriving Repr, DecidableEq

/-! ### concrete meaning -/

structure St where
  m : Bytes
  vals : List Nat

def St.val (s : St) (i : Nat) : Nat := s.vals.getD i 0
def St.push (s : St) (v : Nat) : St := { s with vals := s.vals ++ [v] }

def step (this : Nat) (args : List Nat) (s : St) : Op → Option St
  | .rd off w => (rd s.m (this + off) w).map s.push
  | .arg k => some (s.push (args.getD k 0))
  | .const c => some (s.push c)
  | .band a b => some (s.push (s.val a &&& s.val b))
  | .bor a b => some (s.push (s.val a ||| s.val b))
  | .bxor a b => some (s.push (s.val a ^^^ s.val b))
  | .bnot bits a => some (s.push (bnot bits (s.val a)))
  | .trunc bits a => some (s.push (s.val a % 2 ^ bits))
  | .sext fb tb a => some (s.push (sext fb tb (s.val a)))
  | .ushl bits a n => (ushl bits (s.val a) n).map s.push
  | .sshl bits a n => (sshl bits (s.val a) n).map s.push
  | .ushr bits a n => (ushr bits (s.val a) n).map s.push
  | .sshr bits a n => (sshr bits (s.val a) n).map s.push
  | .wr off w a => (wr s.m (this + off) w (s.val a)).map fun m' => { m := m', vals := s.vals ++ [0] }

def run (this : Nat) (args : List Nat) : St → List Op → Option St
  | s, [] => some s
  | s, o :: os => (step this args s o).bind fun s' => run this args s' os

/-! ### symbolic meaning -/

inductive SBit
  | zero | one
  | mem (i j : Nat)     -- bit j (0 = least significant) of byte i of the object
  | arg (k j : Nat)     -- bit j of argument k
deriving Repr, DecidableEq

/-- least significant bit first; bits beyond the list are zero -/
abbrev SWord := List SBit

def SBit.and : SBit → SBit → Option SBit
  | .zero, _ => some .zero
  | _, .zero => some .zero
  | .one, x => some x
  | x, .one => some x
  | x, y => if x = y then some x else none

def SBit.or : SBit → SBit → Option SBit
  | .zero, x => some x
  | x, .zero => some x
  | .one, _ => some .one
  | _, .one => some .one
  | x, y => if x = y then some x else none

def SBit.xor : SBit → SBit → Option SBit
  | .zero, x => some x
  | x, .zero => some x
  | .one, .one => some .zero
  | .one, _ => none
  | _, .one => none
  | x, y => if x = y then some .zero else none

def SBit.not : SBit → Option SBit
  | .zero => some .one
  | .one => some .zero
  | _ => none

/-- exactly `n` bits: truncated or padded with zeros -/
def fit (n : Nat) (w : SWord) : SWord := (w ++ List.replicate n SBit.zero).take n

/-- `Option`-valued map (structural, so that the kernel can evaluate the checks) -/
def mapOpt (f : α → Option β) : List α → Option (List β)
  | [] => some []
  | x :: xs => match f x, mapOpt f xs with
    | some y, some ys => some (y :: ys)
    | _, _ => none

/-- pointwise combination of two words, the shorter one padded with zeros -/
def zipBits (f : SBit → SBit → Option SBit) (a b : SWord) : Option SWord :=
  let n := max a.length b.length
  mapOpt (fun p => f p.1 p.2) ((fit n a).zip (fit n b))

/-- the `n` low bits of a constant -/
def constBits : Nat → Nat → SWord
  | 0, _ => []
  | n + 1, c => (if c % 2 = 1 then SBit.one else SBit.zero) :: constBits n (c / 2)

def allZero (w : SWord) : Bool := w.all (· == SBit.zero)

structure SSt where
  /-- the object: one list of 8 symbolic bits per byte -/
  m : List SWord
  vals : List SWord

def SSt.val (s : SSt) (i : Nat) : SWord := s.vals.getD i []
def SSt.push (s : SSt) (w : SWord) : SSt := { s with vals := s.vals ++ [w] }

/-- split a word of `8 * w` bits into `w` bytes -/
def chunks : Nat → SWord → List SWord
  | 0, _ => []
  | w + 1, bits => bits.take 8 :: chunks w (bits.drop 8)

/-- `argBits k = (lo, hi)`: argument `k` is known to be `< 2^hi` and a multiple of `2^lo` -/
def symStep (argBits : Nat → Nat × Nat) (s : SSt) : Op → Option SSt
  | .rd off w => if off + w ≤ s.m.length then some (s.push ((s.m.drop off).take w).flatten) else none
  | .arg k =>
    let (lo, hi) := argBits k
    some (s.push ((List.range hi).map fun j => if lo ≤ j then SBit.arg k j else SBit.zero))
  | .const c => if c < 2 ^ 64 then some (s.push (constBits 64 c)) else none
  | .band a b => (zipBits SBit.and (s.val a) (s.val b)).map s.push
  | .bor a b => (zipBits SBit.or (s.val a) (s.val b)).map s.push
  | .bxor a b => (zipBits SBit.xor (s.val a) (s.val b)).map s.push
  | .bnot bits a => (mapOpt SBit.not (fit bits (s.val a))).bind fun w => if allZero ((s.val a).drop bits) then some (s.push w) else none
  | .trunc bits a => some (s.push ((s.val a).take bits))
  | .sext fb tb a =>
    -- only for values whose sign bit is known to be zero (and that fit `fb` bits): the value is unchanged
    if allZero ((s.val a).drop (fb - 1)) ∧ fb ≤ tb ∧ 0 < fb then some (s.push (s.val a)) else none
  | .ushl bits a n => if n < bits then some (s.push ((List.replicate n SBit.zero ++ s.val a).take bits)) else none
  | .sshl bits a n =>
    if n < bits ∧ allZero ((s.val a).drop (bits - 1 - n)) then some (s.push (List.replicate n SBit.zero ++ s.val a)) else none
  | .ushr bits a n => if n < bits then some (s.push ((s.val a).drop n)) else none
  | .sshr bits a n => if n < bits ∧ allZero ((s.val a).drop (bits - 1)) then some (s.push ((s.val a).drop n)) else none
  | .wr off w a =>
    if off + w ≤ s.m.length then
      some { m := s.m.take off ++ chunks w (fit (8 * w) (s.val a)) ++ s.m.drop (off + w), vals := s.vals ++ [[]] }
    else none

def symRun (argBits : Nat → Nat × Nat) : SSt → List Op → Option SSt
  | s, [] => some s
  | s, o :: os => (symStep argBits s o).bind fun s' => symRun argBits s' os

/-- the untouched object of `size` bytes -/
def initMem (size : Nat) : List SWord := (List.range size).map fun i => (List.range 8).map fun j => SBit.mem i j

def SSt.init (size : Nat) : SSt := { m := initMem size, vals := [] }

/-! ### interpretation of symbolic bits -/

/-- value of a symbolic bit for the object bytes `obj` and the arguments `args` -/
def SBit.eval (obj : Bytes) (args : List Nat) : SBit → Bool
  | .zero => false
  | .one => true
  | .mem i j => (byteAt obj i).testBit j
  | .arg k j => (args.getD k 0).testBit j

def SWord.eval (obj : Bytes) (args : List Nat) : SWord → Nat
  | [] => 0
  | b :: bs => (if b.eval obj args then 1 else 0) + 2 * SWord.eval obj args bs

/-- the bytes a symbolic memory stands for -/
def memEval (obj : Bytes) (args : List Nat) (sm : List SWord) : Bytes :=
  sm.map fun w => UInt8.ofNat (SWord.eval obj args (fit 8 w))

/-- the arguments respect the declared ranges -/
def ArgsOk (argBits : Nat → Nat × Nat) (args : List Nat) : Prop :=
  ∀ k, args.getD k 0 < 2 ^ (argBits k).2 ∧ args.getD k 0 % 2 ^ (argBits k).1 = 0

/-! ### decidable checks against the layout table (`Field`: big-endian word at `off`, `w` bytes; field = `bits` bits at `shift`) -/

/-- symbolic bit `p` (0 = least significant) of the big-endian word of field `f` -/
def wordBit (f : Field) (p : Nat) : SBit := SBit.mem (f.off + f.w - 1 - p / 8) (p % 8)

/-- the bits of field `f`, least significant first -/
def fieldBits (f : Field) : SWord := (List.range f.bits).map fun j => wordBit f (f.shift + j)

def trimZeros (w : SWord) : SWord := (w.reverse.dropWhile (· == SBit.zero)).reverse

def SWord.same (a b : SWord) : Bool := trimZeros a == trimZeros b

/-- a getter: memory untouched, result `res` = field value shifted left by `sh` -/
def chkGet (prog : List Op) (size res : Nat) (f : Field) (sh : Nat) : Bool :=
  match symRun (fun _ => (0, 0)) (SSt.init size) prog with
  | some s => s.m == initMem size && SWord.same (s.val res) (List.replicate sh SBit.zero ++ fieldBits f) && f.fits size
  | none => false

/-- a flag getter `x != 0`: memory untouched, the non-zero bits of `res` are exactly the field's bits (no constant 1) -/
def chkGetNe0 (prog : List Op) (size res : Nat) (f : Field) : Bool :=
  match symRun (fun _ => (0, 0)) (SSt.init size) prog with
  | some s => s.m == initMem size && (s.val res).filter (· != SBit.zero) == fieldBits f && f.fits size
  | none => false

/-- symbolic memory after writing `bits` (field-relative, least significant first) into field `f` -/
def expectMem (size : Nat) (f : Field) (bits : SWord) : List SWord :=
  (List.range size).map fun i => (List.range 8).map fun j =>
    -- position of (byte i, bit j) inside the big-endian word of f, if any
    if f.off ≤ i ∧ i < f.off + f.w then
      let p := (f.off + f.w - 1 - i) * 8 + j
      if f.shift ≤ p ∧ p < f.shift + f.bits then bits.getD (p - f.shift) SBit.zero else SBit.mem i j
    else SBit.mem i j

/-- a setter with the value in argument `k`, pre-shifted by `sh`: exactly the field's bits are replaced by the value's -/
def chkSet (prog : List Op) (size : Nat) (f : Field) (k sh : Nat) : Bool :=
  match symRun (fun k' => if k' = k then (sh, sh + f.bits) else (0, 0)) (SSt.init size) prog with
  | some s => s.m == expectMem size f ((List.range f.bits).map fun j => SBit.arg k (sh + j)) && f.fits size
  | none => false

/-- a setter instantiated with a constant (flag setters): the field's bits become those of `c` -/
def chkSetConst (prog : List Op) (size : Nat) (f : Field) (c : Nat) : Bool :=
  match symRun (fun _ => (0, 0)) (SSt.init size) prog with
  | some s => s.m == expectMem size f (constBits f.bits c) && f.fits size
  | none => false

end AsamCmp.Src.Bit
