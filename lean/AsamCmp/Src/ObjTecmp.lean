/-
  Primitives for the translated TECMP decoding path (vlib/srctecmp.py -> GeneratedSrcTecmp.lean).  Hand-written; each one stands
  for one C++ / library behaviour and is part of the trusted base together with the translator.
-/
import AsamCmp.Src.Obj
import AsamCmp.Builders
namespace AsamCmp.Src
open AsamCmp

/-- The address at which the byte vector of a payload OBJECT is taken to live when one of its methods hands out a pointer into it
    (`getData()`): any non-null address would do; what matters is that it differs from the null pointer `0` such a method may also
    return. -/
def objBase : Nat := 1

/-- `memcpy` source bytes for a pointer `p` handed out by a method of the object whose byte vector is `b` (living at `objBase`):
    everything from `p` to the end of the vector; a NULL pointer has no readable byte (so a `memcpy` of more than 0 bytes from it is
    undefined — `wrBytes` then yields `none` —, and a `memcpy` of 0 bytes from it is the no-op every libc makes of it). -/
def ptrBytes (b : Bytes) (p : Nat) : Bytes := if p < objBase then [] else b.drop (p - objBase)

/-- `memcpy(&x, src, n)` into a local integer `x` of `w` bytes holding `cur`: the first `n` bytes of its little-endian object
    representation are replaced by the `n` bytes at address `a` of the memory; undefined unless `n ≤ w` and the source is readable. -/
def cpyToScalar (w cur : Nat) (m : Bytes) (a n : Nat) : Option Nat :=
  if n ≤ w ∧ a + n ≤ m.length then some (leDec (writeAt (leEnc w cur) 0 (slice m a n))) else none

/-- `std::to_string(int)` of the `b`-bit signed bit pattern `v` (`std::to_string` of an unsigned value is `decimal`). -/
def toStringInt (b v : Nat) : Bytes :=
  if v < 2 ^ (b - 1) then decimal v else UInt8.ofNat 45 :: decimal (2 ^ b - v)

end AsamCmp.Src
