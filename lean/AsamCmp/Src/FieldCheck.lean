/-
  Field accessors of the wire records against the protocol layout table, at source level.

  An `Entry` names a field of a `ClassLayout` (Layout.lean, written from the protocol documents) and gives the bit program
  (GeneratedSrcFields.lean, translated from /repo's source on every run) of the library function that the API glue table
  (vlib/layout.py) says reads or writes it.  `Acc.check` is the decidable check of Src/BitProg.lean; `Acc.Holds` is what it means:
  for EVERY memory, every object position and every in-range value the function is defined (no undefined behaviour, no access
  outside the object's header bytes), a getter leaves memory unchanged and returns exactly the field, a setter changes exactly
  the field's bits (the result is `setField` of the layout model, about which C11/C12 are proved).
-/
import AsamCmp.Src.BitProg
import AsamCmp.Layout
namespace AsamCmp.Src.Bit
open AsamCmp AsamCmp.Src

inductive Acc
  /-- value getter; the result is the field value shifted left by `sh` (e.g. `getSegmentType` returns `flags & 0x0C`) -/
  | get (p : List Op × Nat) (sh : Nat)
  /-- Boolean getter `x != 0` -/
  | getNe0 (p : List Op × Nat)
  /-- setter taking the value in argument `k`, pre-shifted by `sh` -/
  | set (p : List Op × Nat) (k sh : Nat)
  /-- setter instantiated with constants (flag setters): the field becomes `c` -/
  | setConst (p : List Op × Nat) (c : Nat)

structure Entry where
  field : String
  /-- "get" or "set" -/
  what : String
  acc : Acc

def Acc.check (size : Nat) (f : Field) : Acc → Bool
  | .get p sh => chkGet p.1 size p.2 f sh
  | .getNe0 p => chkGetNe0 p.1 size p.2 f
  | .set p k sh => chkSet p.1 size f k sh
  | .setConst p c => chkSetConst p.1 size f c && decide (c < 2 ^ f.bits)

def Acc.Holds (size : Nat) (f : Field) : Acc → Prop
  | .get p sh => ∀ (M : Bytes) (this : Nat), this + size ≤ M.length →
      ∃ st, run this [] ⟨M, []⟩ p.1 = some st ∧ st.m = M ∧ st.val p.2 = getField f (slice M this size) * 2 ^ sh
  | .getNe0 p => ∀ (M : Bytes) (this : Nat), this + size ≤ M.length →
      ∃ st, run this [] ⟨M, []⟩ p.1 = some st ∧ st.m = M ∧ (st.val p.2 ≠ 0 ↔ getField f (slice M this size) ≠ 0)
  | .set p k sh => ∀ (M : Bytes) (this : Nat), this + size ≤ M.length → ∀ (args : List Nat) (v : Nat), v < 2 ^ f.bits →
      args.getD k 0 = v * 2 ^ sh → (∀ k', k' ≠ k → args.getD k' 0 = 0) →
      ∃ st, run this args ⟨M, []⟩ p.1 = some st ∧ st.m = writeAt M this (setField f v (slice M this size))
  | .setConst p c => ∀ (M : Bytes) (this : Nat), this + size ≤ M.length →
      ∃ st, run this [] ⟨M, []⟩ p.1 = some st ∧ st.m = writeAt M this (setField f c (slice M this size))

/-- every entry names a field of the class and passes its check -/
def classCheck (c : ClassLayout) (es : List Entry) : Bool :=
  es.all fun e => match c.find e.field with
    | some f => e.acc.check c.size f
    | none => false

/-- every field of the class has a getter entry and a setter entry, or is listed as exempt -/
def coverageOk (c : ClassLayout) (es : List Entry) (exempt : List (String × String)) : Bool :=
  c.fields.all fun f => ["get", "set"].all fun w =>
    es.any (fun e => e.field == f.name && e.what == w) || exempt.contains (f.name, w)

end AsamCmp.Src.Bit
