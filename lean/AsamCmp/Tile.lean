/-
  Independent frame walker ("tiler") and the decidable predicates P_C07 / P_C08 that are
  evaluated both in the theorems (on the model's frames) and, by the driver's `chk` operations,
  on the bytes the implementation produced.
-/
import AsamCmp.Encoder
namespace AsamCmp

/-- a message as found on the wire -/
structure SMsg where
  seg : Nat
  body : Bytes
deriving Repr, DecidableEq, Inhabited

/-- a frame as found on the wire -/
structure SFrame where
  mt : Nat
  msgs : List SMsg
  /-- number of zero bytes behind the last message -/
  pad : Nat
  /-- total length in bytes -/
  len : Nat
deriving Repr, DecidableEq, Inhabited

def SMsg.size (m : SMsg) : Nat := 16 + m.body.length
def SFrame.used (f : SFrame) : Nat := (f.msgs.map SMsg.size).sum

def allZero (r : Bytes) : Bool := r.all (· == 0)

/-- tile the bytes behind the frame header into messages by their declared lengths; what remains
    must be zeros -/
def tileMsgs : Nat → Bytes → Option (List SMsg × Nat)
  | 0, _ => none
  | fuel+1, r =>
    if allZero r then some ([], r.length)
    else if r.length < 16 then none
    else
      let len := beAt r 14 2
      if r.length < 16 + len then none
      else
        match tileMsgs fuel (r.drop (16 + len)) with
        | none => none
        | some (ms, pad) => some (⟨byteAt r 12 &&& 0x0C, slice r 16 len⟩ :: ms, pad)

def tileFrame (b : Bytes) : Option SFrame :=
  if b.length < 8 then none
  else
    match tileMsgs (b.length + 1) (b.drop 8) with
    | none => none
    | some (ms, pad) => some ⟨byteAt b 4, ms, pad, b.length⟩

def tileFrames : List Bytes → Option (List SFrame)
  | [] => some []
  | b :: bs =>
    match tileFrame b, tileFrames bs with
    | some f, some fs => some (f :: fs)
    | _, _ => none

/-- what the model's structured frame looks like on the wire -/
def EFrame.shape (min : Nat) (f : EFrame) : SFrame :=
  let raw := 8 + f.used
  ⟨f.mt % 256, f.msgs.map (fun m => ⟨m.seg, m.body⟩), min - raw, max raw min⟩

/-- C07: size bounds, ≥ 1 message, padding only up to the minimum, every payload byte exactly once
    and in order, nothing for an empty batch -/
def P_C07 (c : Ctx) (payloads : List Bytes) (fs : List SFrame) : Bool :=
  fs.all (fun f => decide (c.min ≤ f.len) && decide (f.len ≤ c.max) && !f.msgs.isEmpty &&
                   decide (f.len = 8 + f.used + f.pad) && (f.pad == 0 || f.len == c.min)) &&
  ((fs.flatMap fun f => f.msgs.map (·.body)).flatten == payloads.flatten) &&
  (!payloads.isEmpty || fs.isEmpty)

/-- (segment flag, length) of the pieces the protocol rules prescribe for a payload of `len` bytes
    with `cap` bytes available behind the frame header -/
def pieceShape (cap len : Nat) : List (Nat × Nat) :=
  if len = 0 then []
  else if 16 + len ≤ cap then [(0, len)]
  else
    let full := (len - 1) / (cap - 16)      -- number of full (non-last) segments
    let lastLen := len - full * (cap - 16)
    (List.range full).map (fun i => (if i = 0 then 4 else 8, cap - 16)) ++ [(12, lastLen)]

/-- message types of the packets, repeated per piece: the expected message type of every message
    on the wire, in wire order -/
def pieceMts (cap : Nat) (batch : List (Nat × Nat)) : List Nat :=
  batch.flatMap fun (mt, len) => (pieceShape cap len).map fun _ => mt

/-- greedy fill: two consecutive frames of one message type, the first without a segment, the
    second starting with an unsegmented message — that message did not fit the first frame -/
def greedyOk (cap : Nat) : List SFrame → Bool
  | f1 :: f2 :: rest =>
    (match f2.msgs with
     | m :: _ => !(m.seg == 0 && f1.mt == f2.mt && f1.msgs.all (·.seg == 0)) || decide (f1.used + m.size > cap)
     | [] => true) && greedyOk cap (f2 :: rest)
  | _ => true

/-- C08 for a batch given as (message type, payload length) per packet -/
def P_C08 (c : Ctx) (batch : List (Nat × Nat)) (fs : List SFrame) : Bool :=
  -- split only when it cannot fit an empty frame; first/intermediary*/last; full non-last segments; batch order
  ((fs.flatMap fun f => f.msgs.map fun m => (m.seg, m.body.length)) == batch.flatMap (fun (_, len) => pieceShape c.cap len)) &&
  -- a segment is alone in its frame
  fs.all (fun f => f.msgs.all (·.seg == 0) || f.msgs.length == 1) &&
  -- every message has the type announced in its frame header
  ((fs.flatMap fun f => f.msgs.map fun _ => f.mt) == pieceMts c.cap batch) &&
  -- a frame never overflows and packets are appended whenever they fit
  fs.all (fun f => decide (f.used ≤ c.cap)) && greedyOk c.cap fs

end AsamCmp
