/-
  Value semantics of Packet and Payload (C14): copy / move / assignment as functions on values and
  the two `operator==`.
-/
import AsamCmp.Packet
namespace AsamCmp

/-- `operator==(Payload, Payload)`: type, length, bytes -/
def payloadEq (a b : Payload) : Bool :=
  a.ty == b.ty && a.data.length == b.data.length && a.data == b.data

/-- real size of the payload (`payload->getLength()`), 0 without payload -/
def Packet.fullLength (p : Packet) : Nat :=
  match p.payload with
  | none => 0
  | some pl => pl.data.length

/-- `operator==(Packet, Packet)`: header fields, then the payloads when both sizes are equal and
    non-zero, else just the sizes (the real sizes since the repair; formerly the 16-bit wire lengths) -/
def packetEq (a b : Packet) : Bool :=
  a.version == b.version && a.deviceId == b.deviceId && a.streamId == b.streamId && a.seq == b.seq &&
  a.ts == b.ts && a.ifId == b.ifId && a.vendorId == b.vendorId && a.flags == b.flags && a.segType == b.segType &&
  (if a.fullLength = b.fullLength ∧ 0 < a.fullLength then
     match a.payload, b.payload with
     | some x, some y => payloadEq x y
     | _, _ => false
   else a.fullLength == b.fullLength)

def packetNe (a b : Packet) : Bool := !packetEq a b

/-- a default-constructed packet: no payload, version 1 -/
def Packet.dflt : Packet := { payload := none }

/-- copy constructor: every field; the payload is cloned (same type, same bytes) -/
def copyCtor (src : Packet) : Packet := src
/-- copy assignment (`if (this != &other) { Packet tmp(other); swap(*this, tmp); }`): whatever the
    target held, it now holds the source's value; self-assignment leaves it unchanged, which is the
    same thing -/
def copyAssign (_dst src : Packet) : Packet := src
/-- move constructor: swap with a default-initialised object; returns (new object, source afterwards) -/
def moveCtor (src : Packet) : Packet × Packet := (src, Packet.dflt)
/-- move assignment: swap; returns (target afterwards, source afterwards) -/
def moveAssign (dst src : Packet) : Packet × Packet := (src, dst)

end AsamCmp
