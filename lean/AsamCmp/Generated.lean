/-
  GENERATED on every run by harness/dumper.cpp from /repo's current headers - do not edit.
-/
namespace AsamCmp.Generated

def sizes : List (String × Nat) := [
  ("cmphdr", 8),
  ("msghdr", 16),
  ("can", 16),
  ("canfd", 16),
  ("lin", 8),
  ("eth", 6),
  ("analog", 16),
  ("cm", 26),
  ("if", 36),
  ("tecmphdr", 28),
  ("tecmpcan", 5),
  ("tecmplin", 2),
  ("tecmpif", 28),
  ("tecmpcm", 36)]

def offsets : List (String × String × Nat) := [
  ("cmphdr", "version", 0),
  ("cmphdr", "deviceId", 2),
  ("cmphdr", "messageType", 4),
  ("cmphdr", "streamId", 5),
  ("cmphdr", "sequenceCounter", 6),
  ("msghdr", "timestamp", 0),
  ("msghdr", "interfaceId", 8),
  ("msghdr", "commonFlags", 12),
  ("msghdr", "payloadType", 13),
  ("msghdr", "payloadLength", 14),
  ("msghdr", "vendorId", 10),
  ("can", "flags", 0),
  ("can", "id", 4),
  ("can", "crc", 8),
  ("can", "errorPosition", 12),
  ("can", "dlc", 14),
  ("can", "dataLength", 15),
  ("lin", "flags", 0),
  ("lin", "linId", 4),
  ("lin", "checksum", 6),
  ("lin", "dataLength", 7),
  ("eth", "flags", 0),
  ("eth", "dataLength", 4),
  ("analog", "flags", 0),
  ("analog", "unit", 3),
  ("analog", "sampleInterval", 4),
  ("analog", "sampleOffset", 8),
  ("analog", "sampleScalar", 12),
  ("cm", "uptime", 0),
  ("cm", "gmIdentity", 8),
  ("cm", "gmClockQuality", 16),
  ("cm", "currentUtcOffset", 20),
  ("cm", "timeSource", 22),
  ("cm", "domainNumber", 23),
  ("cm", "gptpFlags", 25),
  ("if", "interfaceId", 0),
  ("if", "msgTotalRx", 4),
  ("if", "msgTotalTx", 8),
  ("if", "msgDroppedRx", 12),
  ("if", "msgDroppedTx", 16),
  ("if", "errorsTotalRx", 20),
  ("if", "errorsTotalTx", 24),
  ("if", "interfaceType", 28),
  ("if", "interfaceStatus", 29),
  ("if", "featureSupportBitmask", 32),
  ("tecmphdr", "deviceId", 1),
  ("tecmphdr", "sequenceCounter", 2),
  ("tecmphdr", "version", 4),
  ("tecmphdr", "messageType", 5),
  ("tecmphdr", "dataType", 6),
  ("tecmphdr", "deviceFlags", 10),
  ("tecmphdr", "interfaceId", 12),
  ("tecmphdr", "timestamp", 16),
  ("tecmphdr", "payloadLength", 24),
  ("tecmpcan", "arbId", 0),
  ("tecmpcan", "dlc", 4),
  ("tecmplin", "pid", 0),
  ("tecmplin", "dataLength", 1),
  ("tecmpif", "vendorId", 0),
  ("tecmpif", "cmVersion", 1),
  ("tecmpif", "cmType", 2),
  ("tecmpif", "vendorDataLength", 4),
  ("tecmpif", "deviceId", 6),
  ("tecmpif", "serialNumber", 8),
  ("tecmpif", "interfaceId", 12),
  ("tecmpif", "messagesTotal", 16),
  ("tecmpif", "errorsTotal", 20),
  ("tecmpif", "vendorDataLinkStatus", 24),
  ("tecmpcm", "vendorId", 0),
  ("tecmpcm", "deviceVersion", 1),
  ("tecmpcm", "deviceType", 2),
  ("tecmpcm", "vendorDataLength", 4),
  ("tecmpcm", "deviceId", 6),
  ("tecmpcm", "serialNumber", 8),
  ("tecmpcm", "swVersionMajor", 13),
  ("tecmpcm", "bufferSize", 20),
  ("tecmpcm", "lifecycle", 24)]

def masks : List (String × Nat) := [
  ("can.errorMask", 1023),
  ("can.idMask", 536870911),
  ("can.rsvdMask", 536870912),
  ("can.rtrMask", 1073741824),
  ("can.ideMask", 2147483648),
  ("can.crcMask", 32767),
  ("can.crcSupportMask", 2147483648),
  ("can.crcSbcMask", 2097151),
  ("can.crcSbcSbcMask", 14680064),
  ("can.crcSbcSbcShift", 21),
  ("can.crcSbcParityMask", 16777216),
  ("can.crcSbcSupportMask", 1073741824),
  ("lin.linIdMask", 63),
  ("lin.parityMask", 192),
  ("lin.parityShift", 6),
  ("eth.errorMask", 59),
  ("analog.sampleDtMask", 3),
  ("analog.aInt16", 0),
  ("analog.aInt32", 1),
  ("msghdr.seg", 12),
  ("msghdr.errorInPayload", 64),
  ("msghdr.firstSegment", 4),
  ("msghdr.intermediarySegment", 8),
  ("msghdr.lastSegment", 12),
  ("packet.errorInPayload", 64)]

def enums : List (String × Nat) := [
  ("mt.data", 1),
  ("mt.control", 2),
  ("mt.status", 3),
  ("mt.vendor", 255),
  ("pt.can", 257),
  ("pt.canFd", 258),
  ("pt.lin", 259),
  ("pt.analog", 263),
  ("pt.ethernet", 264),
  ("pt.cmStatMsg", 769),
  ("pt.ifStatMsg", 770),
  ("pt.invalid", 0),
  ("if.disabled", 2),
  ("tecmp.mt.cmStatus", 1),
  ("tecmp.mt.busStatus", 2),
  ("tecmp.mt.data", 3),
  ("tecmp.dt.can", 2),
  ("tecmp.dt.canFd", 3),
  ("tecmp.dt.lin", 4),
  ("cm.minPayloadSize", 36),
  ("if.minPayloadSize", 40)]

def validNextTable : List (Nat × Nat × Bool) := [(0, 0, true), (0, 4, true), (0, 8, false), (0, 12, false), (4, 0, false), (4, 4, false), (4, 8, true), (4, 12, true), (8, 0, false), (8, 4, false), (8, 8, true), (8, 12, true), (12, 0, true), (12, 4, true), (12, 8, false), (12, 12, false)]

def rules : List (String × Nat) := [
  ("PayloadType: valid iff both bytes non-zero; message type = high byte, raw type = low byte (all 65536 types)", 1),
  ("swapEndian(uint16_t) swaps the two bytes (all 65536 values)", 1),
  ("swapEndian(uint32_t / uint64_t) reverse the bytes (64 probe values incl. every single bit)", 1),
  ("TECMP header valid iff message type != 0xFF and data type bytes != FF 00 (256 x 256 x 12 headers)", 1),
  ("message header: segment type = flags & 0x0C, error-in-payload = bit 6 (all 256 flag bytes)", 1)]

def dlcTable : List Nat := [0, 1, 2, 3, 4, 5, 6, 7, 8, 9, 9, 9, 9, 10, 10, 10, 10, 11, 11, 11, 11, 12, 12, 12, 12, 13, 13, 13, 13, 13, 13, 13, 13, 14, 14, 14, 14, 14, 14, 14, 14, 14, 14, 14, 14, 14, 14, 14, 14, 15, 15, 15, 15, 15, 15, 15, 15, 15, 15, 15, 15, 15, 15, 15, 15, 15, 15, 15, 15, 15, 15, 15, 15, 15, 15, 15, 15, 15, 15, 15, 15, 15, 15, 15, 15, 15, 15, 15, 15, 15, 15, 15, 15, 15, 15, 15, 15, 15, 15, 15, 15, 15, 15, 15, 15, 15, 15, 15, 15, 15, 15, 15, 15, 15, 15, 15, 15, 15, 15, 15, 15, 15, 15, 15, 15, 15, 15, 15, 15, 15, 15, 15, 15, 15, 15, 15, 15, 15, 15, 15, 15, 15, 15, 15, 15, 15, 15, 15, 15, 15, 15, 15, 15, 15, 15, 15, 15, 15, 15, 15, 15, 15, 15, 15, 15, 15, 15, 15, 15, 15, 15, 15, 15, 15, 15, 15, 15, 15, 15, 15, 15, 15, 15, 15, 15, 15, 15, 15, 15, 15, 15, 15, 15, 15, 15, 15, 15, 15, 15, 15, 15, 15, 15, 15, 15, 15, 15, 15, 15, 15, 15, 15, 15, 15, 15, 15, 15, 15, 15, 15, 15, 15, 15, 15, 15, 15, 15, 15, 15, 15, 15, 15, 15, 15, 15, 15, 15, 15, 15, 15, 15, 15, 15, 15, 15, 15, 15, 15, 15, 15, 15, 15, 15, 15, 15, 15]

/-- dispatch table of `Packet::create`, translated from src/packet.cpp: (case, validating class, constructed class) -/
def createDispatch : List (String × String × String) := [("can", "CanPayload", "CanPayload"), ("canFd", "CanFdPayload", "CanFdPayload"), ("lin", "LinPayload", "LinPayload"), ("analog", "AnalogPayload", "AnalogPayload"), ("ethernet", "EthernetPayload", "EthernetPayload"), ("cmStatMsg", "CaptureModulePayload", "CaptureModulePayload"), ("ifStatMsg", "InterfacePayload", "InterfacePayload")]
/-- number of `case` labels in `Packet::create`; unknown types are kept generic; rejected payloads become `PayloadType::invalid` -/
def createShape : Nat × Bool × Bool := (7, true, true)


/-- every defined OBJECT / TLS symbol (local, global, weak, unique: inline variables, statics of templates and inline functions too) in a
    WRITABLE section of a library object other than relocation-read-only data, read from the ELF tables of the freshly built
    objects (292 data symbols looked at), minus the ignored ones listed below -/
def mutableStatics : List String := []

/-- what the scan found and ignored, and why (nothing is ignored silently) -/
def mutableStaticsIgnored : List (String × String) := [("DW.ref.__gxx_personality_v0", "pointer to the exception personality routine"), ("std::__ioinit", "the iostream initialiser object every translation unit that includes <iostream> gets")]

end AsamCmp.Generated
