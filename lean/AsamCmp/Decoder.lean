/-
  Decoder model.  Layer A (`walk`): what the message loop of `Decoder::decode` sees in one
  buffer.  Layer B (`localStep`): the reassembly automaton of a single endpoint.
  `step` applies Layer B at the frame's endpoint of a map endpoint → pending reassembly.
-/
import AsamCmp.Packet
namespace AsamCmp

/-- what ended the message walk -/
inductive Term
  | done
  | invalid
  /-- a segment message: 16 header bytes followed by the declared payload bytes -/
  | seg (msg : Bytes)
deriving DecidableEq, Repr, Inhabited

abbrev Ep := Nat × Nat

structure PFrame where
  ep : Ep
  ver : Nat
  mt : Nat
  seq : Nat
  /-- unsegmented messages in front of the terminator, as delivered packets -/
  unseg : List Packet
  term : Term
deriving Repr, Inhabited

def tagPacket (ep : Ep) (ver : Nat) (p : Packet) : Packet :=
  { p with version := ver, deviceId := ep.1, streamId := ep.2 }

/-- the message loop: unsegmented messages are turned into packets, the walk stops at the
    first invalid message or the first segment -/
def walk (ep : Ep) (ver mt : Nat) (r : Bytes) : List Packet × Term :=
  if h0 : r.length = 0 then ([], .done)
  else if !msgValid r then ([], .invalid)
  else
    let len := beAt r 14 2
    if (byteAt r 12 &&& 0x0C) != 0 then ([], .seg (r.take (16 + len)))
    else
      let p := tagPacket ep ver (Packet.ofMsg mt r)
      let rest := walk ep ver mt (r.drop (16 + len))
      (p :: rest.1, rest.2)
termination_by r.length
decreasing_by simp [List.length_drop]; omega

/-- parse a buffer as a capture-module frame (caller checked: ≥ 8 bytes, first byte ≠ 0) -/
def parseFrame (b : Bytes) : PFrame :=
  let ep : Ep := (beAt b 2 2, byteAt b 5)
  let ver := byteAt b 0
  let mt := byteAt b 4
  let w := walk ep ver mt (b.drop 8)
  { ep := ep, ver := ver, mt := mt, seq := beAt b 6 2, unseg := w.1, term := w.2 }

/-- open reassembly of one endpoint -/
structure Pending where
  /-- first segment's 16 header bytes (length field rewritten) followed by the bytes so far -/
  buf : Bytes
  /-- segment type of the last accepted segment: 4 first, 8 intermediary -/
  last : Nat
  ver : Nat
  mt : Nat
  seq : Nat
deriving DecidableEq, Repr, Inhabited

def segTypeOf (m : Bytes) : Nat := byteAt m 12 &&& 0x0C

/-- `SegmentedPacket::isValidSegmentType` -/
def validNext (last t : Nat) : Bool :=
  if last = 4 ∨ last = 8 then t = 8 ∨ t = 12 else t = 0 ∨ t = 4

/-- rewrite of the accumulated header's payload length after appending a segment -/
def fixLen (buf : Bytes) : Bytes :=
  writeAt buf 14 (beEnc 2 ((buf.length % 65536 + 65536 - 16) % 65536))

/-- single-endpoint automaton: the whole reassembly logic of `Decoder::decode` -/
def localStep (p : Option Pending) (f : PFrame) : Option Pending × List Packet :=
  match f.term with
  | .done => (none, f.unseg)
  | .invalid => (none, f.unseg)
  | .seg m =>
    let t := segTypeOf m
    if t = 4 then (some ⟨m, 4, f.ver, f.mt, f.seq⟩, f.unseg)
    else
      match (if f.unseg.isEmpty then p else none) with
      | none => (none, f.unseg)
      | some q =>
        if q.ver = f.ver ∧ q.mt = f.mt ∧ f.seq = (q.seq + 1) % 65536 ∧ validNext q.last t then
          let buf := fixLen (q.buf ++ m.drop 16)
          if t = 12 then
            (none, f.unseg ++ [tagPacket f.ep q.ver (Packet.ofMsg q.mt buf)])
          else (some { q with buf := buf, last := t, seq := (q.seq + 1) % 65536 }, f.unseg)
        else (none, f.unseg)

abbrev DecState := Ep → Option Pending

def DecState.empty : DecState := fun _ => none

def DecState.set (s : DecState) (e : Ep) (v : Option Pending) : DecState :=
  fun x => if x = e then v else s x

def step (s : DecState) (f : PFrame) : DecState × List Packet :=
  let r := localStep (s f.ep) f
  (s.set f.ep r.1, r.2)

def run (s : DecState) : List PFrame → DecState × List Packet
  | [] => (s, [])
  | f :: fs =>
    let r := step s f
    let r' := run r.1 fs
    (r'.1, r.2 ++ r'.2)

end AsamCmp

namespace AsamCmp

/-- `Decoder::decode` on a buffer (`none` = null pointer).  `tecmp` is the stateless TECMP path
    (`TECMP::Decoder::Decode`), a parameter here and instantiated in `Tecmp.lean`. -/
def decodeWith (tecmp : Bytes → List Packet) (s : DecState) (buf : Option Bytes) : DecState × List Packet :=
  match buf with
  | none => (s, [])
  | some b =>
    if b.length < 8 then (s, [])
    else if byteAt b 0 = 0 then (s, tecmp b)
    else step s (parseFrame b)

/-- a whole history of buffers -/
def decodeAll (tecmp : Bytes → List Packet) (s : DecState) : List (Option Bytes) → DecState × List Packet
  | [] => (s, [])
  | b :: bs =>
    let r := decodeWith tecmp s b
    let r' := decodeAll tecmp r.1 bs
    (r'.1, r.2 ++ r'.2)

/-- the endpoint a buffer addresses, if it is a capture-module frame at all -/
def bufEp (buf : Option Bytes) : Option Ep :=
  match buf with
  | none => none
  | some b => if b.length < 8 then none else if byteAt b 0 = 0 then none else some (parseFrame b).ep

end AsamCmp
